"""Contracts for the `cts` crate (C05, C13, C14)."""
from vf.extract import FnC, Sel, Mod
from vf.unit import Unit, Lemma
from contracts import common as K

P = ('C05', 'C01', 'C07', 'C12', 'C14')

ITER_INV = '''
                it.history@.len() == it.index@, it.index@ <= n,
                it.history@ + iob_remaining(&it.iter) == iob_remaining(&it.snapshot@),
                iob_remaining(&it.snapshot@).len() == n,
'''


def ecb_fn(enc):
    f = 'cipher.enc_fn()' if enc else 'cipher.dec_fn()'
    return FnC(
        props=P, attrs=['#[verifier::loop_isolation(false)]'],
        requires=['blocks.wf()'],
        ensures=[
            ('map', P, 'forall |i: int| 0 <= i < blocks.out_cur().len() ==> (#[trigger] blocks.out_fut()[i])@ == %s(blocks.in_val()[i]@)' % f),
            ('len', P, 'blocks.out_fut().len() == blocks.out_cur().len()')],
        iters={0: 'it1', 1: 'it'},
        stmts={'0': '''
        broadcast use Array::axiom_len;
        let ghost f = %s;
        let ghost orig = blocks;
        let ghost w = B::ParBlocksSize::USIZE as int;
        let ghost mut pb = None::<InOutBuf<'_, '_, ParBlocks<B>>>;
''' % f, '0.0.1': '''
            proof { pb = Some(par_blocks); }
            let ghost np = par_blocks.out_cur().len();
''', '0.0.end': '''
            assert(forall |k: int, j: int| 0 <= k < np && 0 <= j < w ==>
                (#[trigger] pb.unwrap().out_fut()[k]@[j])@ == f(pb.unwrap().in_val()[k]@[j]@));
''', '1': '''
        let ghost rb = blocks;
        let ghost n = blocks.out_cur().len();
''', 'end': '''
        proof {
            assert(forall |i: int| 0 <= i < n ==> (#[trigger] rb.out_fut()[i])@ == f(rb.in_val()[i]@));
            if w > 1 {
                let p = pb.unwrap();
                let rel = |o: Block<B>, i: Block<B>| o@ == f(i@);
                flatg_rel(aviews(p.out_fut()), aviews(p.in_val()), rel);
                let fo = flatg(aviews(p.out_fut())); let fi = flatg(aviews(p.in_val()));
                assert(orig.out_fut() == fo + rb.out_fut());
                assert(orig.in_val() == fi + rb.in_val());
                assert forall |i: int| 0 <= i < orig.out_cur().len() implies (#[trigger] orig.out_fut()[i])@ == f(orig.in_val()[i]@) by {
                    if i < fo.len() { assert(rel(fo[i], fi[i])); } else { assert(orig.out_fut()[i] == rb.out_fut()[i - fo.len()]); }
                }
            }
        }
'''},
        loops={0: '''
                invariant
                    it1.history@.len() == it1.index@, it1.index@ <= np,
                    it1.history@ + iob_remaining(&it1.iter) == iob_remaining(&it1.snapshot@),
                    iob_remaining(&it1.snapshot@).len() == np,
                    pb is Some, pb.unwrap().out_cur().len() == np,
                    forall |k: int, j: int| 0 <= k < it1.index@ && 0 <= j < w ==>
                        (#[trigger] pb.unwrap().out_fut()[k]@[j])@ == f(pb.unwrap().in_val()[k]@[j]@),
''', 1: '''
            invariant''' + ITER_INV + '''
                forall |j: int| 0 <= j < it.index@ ==> (#[trigger] rb.out_fut()[j])@ == f(rb.in_val()[j]@),
'''})


CBC_DEC = FnC(
    props=P, attrs=['#[verifier::loop_isolation(false)]'],
    requires=['blocks.wf()'],
    ensures=[
        ('chain', P, '(seq![final(iv)@], aviews(blocks.out_fut())) == run(cbc_dec_step(cipher.dec_fn()), seq![old(iv)@], aviews(blocks.in_val()))'),
        ('len', P, 'blocks.out_fut().len() == blocks.out_cur().len()')],
    iters={0: 'it1', 2: 'it'},
    stmts={'0': '''
        broadcast use Array::axiom_len;
        let ghost d = cipher.dec_fn();
        let ghost orig = blocks;
        let ghost iv0 = iv@;
        let ghost w = B::ParBlocksSize::USIZE as int;
        let ghost mut pb = None::<InOutBuf<'_, '_, ParBlocks<B>>>;
''', '0.0.1': '''
            proof { pb = Some(par_blocks); }
            let ghost np = par_blocks.out_cur().len();
''', '0.0.2.0.0': '''
                let ghost kk = it1.index@;
                let ghost ivk = iv@;
                let ghost cur = blocks;
                assert(cur.in_val() == pb.unwrap().in_val()[kk]);
''', '0.0.2.0.4': '''
                let ghost t0 = t;
''', '0.0.2.0.end': '''
                assert(forall |j: int| 0 <= j < w ==> (#[trigger] cur.out_fut()@[j])@ == xor_seq(d(cur.in_val()@[j]@), if j > 0 { cur.in_val()@[j - 1]@ } else { ivk }));
''', '1': '''
        let ghost rb = blocks;
        let ghost n = blocks.out_cur().len();
        let ghost ivm = iv@;
''', 'end': '''
        proof {
            let v = |a: Block<B>| a@;
            let ins = aviews(orig.in_val());
            let outs = aviews(orig.out_fut());
            if w > 1 {
                let p = pb.unwrap();
                let fo = flatg(aviews(p.out_fut())); let fi = flatg(aviews(p.in_val()));
                flatg_cbc_dec(aviews(p.out_fut()), aviews(p.in_val()), v, d, iv0, w as nat);
                assert(orig.out_fut() == fo + rb.out_fut());
                assert(orig.in_val() == fi + rb.in_val());
                if p.out_cur().len() > 0 { flatg_last(aviews(p.in_val()), w as nat); }
                assert forall |i: int| 0 <= i < ins.len() implies #[trigger] outs[i] == cbc_p(d, iv0, ins, i) by {
                    if i >= fo.len() {
                        assert(orig.out_fut()[i] == rb.out_fut()[i - fo.len()]);
                        assert(orig.in_val()[i] == rb.in_val()[i - fo.len()]);
                        if i > fo.len() { assert(orig.in_val()[i - 1] == rb.in_val()[i - 1 - fo.len()]); }
                        else if fo.len() > 0 { assert(orig.in_val()[i - 1] == fi[i - 1]); }
                    } else {
                        assert(orig.out_fut()[i] == fo[i]);
                        assert(orig.in_val()[i] == fi[i]);
                        if i > 0 { assert(orig.in_val()[i - 1] == fi[i - 1]); }
                    }
                }
            } else {
                assert forall |i: int| 0 <= i < ins.len() implies #[trigger] outs[i] == cbc_p(d, iv0, ins, i) by {
                    assert(outs[i] == rb.out_fut()[i]@);
                }
            }
            cbc_p_is_run(d, iv0, ins);
            assert(outs =~= Seq::new(ins.len(), |i: int| cbc_p(d, iv0, ins, i)));
        }
'''},
    loops={0: '''
                invariant
                    it1.history@.len() == it1.index@, it1.index@ <= np,
                    it1.history@ + iob_remaining(&it1.iter) == iob_remaining(&it1.snapshot@),
                    iob_remaining(&it1.snapshot@).len() == np,
                    pb is Some, pb.unwrap().out_cur().len() == np, w > 1,
                    iv@ == (if it1.index@ == 0 { iv0 } else { pb.unwrap().in_val()[it1.index@ - 1]@[w - 1]@ }),
                    forall |k: int, j: int| 0 <= k < it1.index@ && 0 <= j < w ==>
                        (#[trigger] pb.unwrap().out_fut()[k]@[j])@ == xor_seq(d(pb.unwrap().in_val()[k]@[j]@),
                            if j > 0 { pb.unwrap().in_val()[k]@[j - 1]@ } else if k > 0 { pb.unwrap().in_val()[k - 1]@[w - 1]@ } else { iv0 }),
''', 1: '''
                    invariant
                        n == w, n > 1, t@.len() == n, in_blocks@.len() == n, t0@.len() == n, 1 <= i <= n,
                        in_blocks == cur.in_val(), iv@ == ivk,
                        forall |j: int| 0 <= j < n ==> (#[trigger] t0@[j])@ == d(in_blocks@[j]@),
                        forall |j: int| 0 <= j < i ==> (#[trigger] t@[j])@ == xor_seq(t0@[j]@, if j == 0 { ivk } else { in_blocks@[j - 1]@ }),
                        forall |j: int| i <= j < n ==> t@[j] == t0@[j],
''', 2: '''
            invariant''' + ITER_INV + '''
                iv@ == (if it.index@ == 0 { ivm } else { rb.in_val()[it.index@ - 1]@ }),
                forall |j: int| 0 <= j < it.index@ ==> (#[trigger] rb.out_fut()[j])@ == xor_seq(d(rb.in_val()[j]@), if j == 0 { ivm } else { rb.in_val()[j - 1]@ }),
'''})


def lib_mod():
    return Mod('cts_lib', 'cts/src/lib.rs', items=[
        Sel('struct Error'),
        Sel('fn xor', fns={'xor': K.xor_fn(props=('C05',))}),
        Sel('fn ecb_enc', fns={'ecb_enc': ecb_fn(True)}),
        Sel('fn ecb_dec', fns={'ecb_dec': ecb_fn(False)}),
        Sel('fn cbc_dec', fns={'cbc_dec': CBC_DEC}),
        Sel('fn cbc_enc', fns={'cbc_enc': FnC(
            props=P, attrs=['#[verifier::loop_isolation(false)]'],
            requires=['blocks.wf()'],
            ensures=[
                ('chain', P, '(seq![final(iv)@], aviews(blocks.out_fut())) == run(cbc_enc_step(cipher.enc_fn()), seq![old(iv)@], aviews(blocks.in_val()))'),
                ('len', P, 'blocks.out_fut().len() == blocks.out_cur().len()')],
            iters={0: 'it'},
            stmts={'0': '''
        let ghost ins = aviews(blocks.in_val());
        let ghost iv0 = iv@;
        let ghost n = blocks.out_cur().len();
        let ghost e = cipher.enc_fn();
''', 'end': '''
        proof {
            assert(blocks.out_fut() == blocks.out_cur());
            cbc_c_is_run(e, iv0, ins);
            assert(aviews(blocks.out_cur()) =~= Seq::new(ins.len(), |i: int| cbc_c(e, iv0, ins, i)));
        }
'''},
            loops={0: '''
            invariant''' + ITER_INV + '''
                ins.len() == n,
                forall |j: int| 0 <= j < n ==> (#[trigger] iob_remaining(&it.snapshot@)[j]).in_val()@ == ins[j],
                iv@ == cbc_c(e, iv0, ins, it.index@ - 1),
                forall |j: int| 0 <= j < it.index@ ==> (#[trigger] iob_remaining(&it.snapshot@)[j]).out_fut()@ == cbc_c(e, iv0, ins, j),
'''})}),
    ])


def unit():
    return Unit('cts', prelude=K.PRELUDE_BLOCK, spec=['steps.rs', 'cts.rs'], mods=[lib_mod()])
