"""Contracts for the `cts` crate (C05, C13, C14)."""
from vf.extract import FnC, Sel, Mod
from vf.unit import Unit, Lemma
from contracts import common as K

P = ('C05', 'C01', 'C07', 'C12', 'C14', 'C16')

ITER_INV = '''
                it.history@.len() == it.index@, it.index@ <= n,
                it.history@ + iob_remaining(&it.iter) == iob_remaining(&it.snapshot@),
                iob_remaining(&it.snapshot@).len() == n,
'''


def ecb_fn(enc):
    f = 'cipher.enc_fn()' if enc else 'cipher.dec_fn()'
    return FnC(
        props=P, attrs=['#[verifier::loop_isolation(false)]'],
        requires=['blocks.wf()'],
        ensures=[
            ('map', P, 'forall |i: int| 0 <= i < blocks.out_cur().len() ==> (#[trigger] blocks.out_fut()[i])@ == %s(blocks.in_val()[i]@)' % f),
            ('len', P, 'blocks.out_fut().len() == blocks.out_cur().len()')],
        iters={0: 'it1', 1: 'it'},
        stmts={'0': '''
        broadcast use Array::axiom_len;
        let ghost f = %s;
        let ghost orig = blocks;
        let ghost w = B::ParBlocksSize::USIZE as int;
        let ghost mut pb = None::<InOutBuf<'_, '_, ParBlocks<B>>>;
''' % f, '0.0.1': '''
            proof { pb = Some(par_blocks); }
            let ghost np = par_blocks.out_cur().len();
''', '0.0.end': '''
            assert(forall |k: int, j: int| 0 <= k < np && 0 <= j < w ==>
                (#[trigger] pb.unwrap().out_fut()[k]@[j])@ == f(pb.unwrap().in_val()[k]@[j]@));
''', '1': '''
        let ghost rb = blocks;
        let ghost n = blocks.out_cur().len();
''', 'end': '''
        proof {
            assert(forall |i: int| 0 <= i < n ==> (#[trigger] rb.out_fut()[i])@ == f(rb.in_val()[i]@));
            if w > 1 {
                let p = pb.unwrap();
                let rel = |o: Block<B>, i: Block<B>| o@ == f(i@);
                flatg_rel(aviews(p.out_fut()), aviews(p.in_val()), rel);
                let fo = flatg(aviews(p.out_fut())); let fi = flatg(aviews(p.in_val()));
                assert(orig.out_fut() == fo + rb.out_fut());
                assert(orig.in_val() == fi + rb.in_val());
                assert forall |i: int| 0 <= i < orig.out_cur().len() implies (#[trigger] orig.out_fut()[i])@ == f(orig.in_val()[i]@) by {
                    if i < fo.len() { assert(rel(fo[i], fi[i])); } else { assert(orig.out_fut()[i] == rb.out_fut()[i - fo.len()]); }
                }
            }
        }
'''},
        loops={0: '''
                invariant
                    it1.history@.len() == it1.index@, it1.index@ <= np,
                    it1.history@ + iob_remaining(&it1.iter) == iob_remaining(&it1.snapshot@),
                    iob_remaining(&it1.snapshot@).len() == np,
                    pb is Some, pb.unwrap().out_cur().len() == np,
                    forall |k: int, j: int| 0 <= k < it1.index@ && 0 <= j < w ==>
                        (#[trigger] pb.unwrap().out_fut()[k]@[j])@ == f(pb.unwrap().in_val()[k]@[j]@),
''', 1: '''
            invariant''' + ITER_INV + '''
                forall |j: int| 0 <= j < it.index@ ==> (#[trigger] rb.out_fut()[j])@ == f(rb.in_val()[j]@),
'''})


CBC_DEC = FnC(
    props=P, attrs=['#[verifier::loop_isolation(false)]'],
    requires=['blocks.wf()'],
    ensures=[
        ('chain', P, '(seq![final(iv)@], aviews(blocks.out_fut())) == run(cbc_dec_step(cipher.dec_fn()), seq![old(iv)@], aviews(blocks.in_val()))'),
        ('len', P, 'blocks.out_fut().len() == blocks.out_cur().len()')],
    iters={0: 'it1', 2: 'it'},
    stmts={'0': '''
        broadcast use Array::axiom_len;
        let ghost d = cipher.dec_fn();
        let ghost orig = blocks;
        let ghost iv0 = iv@;
        let ghost w = B::ParBlocksSize::USIZE as int;
        let ghost mut pb = None::<InOutBuf<'_, '_, ParBlocks<B>>>;
''', '0.0.1': '''
            proof { pb = Some(par_blocks); }
            let ghost np = par_blocks.out_cur().len();
''', '0.0.2.0.0': '''
                let ghost kk = it1.index@;
                let ghost ivk = iv@;
                let ghost cur = blocks;
                assert(cur.in_val() == pb.unwrap().in_val()[kk]);
''', '0.0.2.0.4': '''
                let ghost t0 = t;
''', '0.0.2.0.end': '''
                assert(forall |j: int| 0 <= j < w ==> (#[trigger] cur.out_fut()@[j])@ == xor_seq(d(cur.in_val()@[j]@), if j > 0 { cur.in_val()@[j - 1]@ } else { ivk }));
''', '1': '''
        let ghost rb = blocks;
        let ghost n = blocks.out_cur().len();
        let ghost ivm = iv@;
''', 'end': '''
        proof {
            let v = |a: Block<B>| a@;
            let ins = aviews(orig.in_val());
            let outs = aviews(orig.out_fut());
            if w > 1 {
                let p = pb.unwrap();
                let fo = flatg(aviews(p.out_fut())); let fi = flatg(aviews(p.in_val()));
                flatg_cbc_dec(aviews(p.out_fut()), aviews(p.in_val()), v, d, iv0, w as nat);
                assert(orig.out_fut() == fo + rb.out_fut());
                assert(orig.in_val() == fi + rb.in_val());
                if p.out_cur().len() > 0 { flatg_last(aviews(p.in_val()), w as nat); }
                assert forall |i: int| 0 <= i < ins.len() implies #[trigger] outs[i] == cbc_p(d, iv0, ins, i) by {
                    if i >= fo.len() {
                        assert(orig.out_fut()[i] == rb.out_fut()[i - fo.len()]);
                        assert(orig.in_val()[i] == rb.in_val()[i - fo.len()]);
                        if i > fo.len() { assert(orig.in_val()[i - 1] == rb.in_val()[i - 1 - fo.len()]); }
                        else if fo.len() > 0 { assert(orig.in_val()[i - 1] == fi[i - 1]); }
                    } else {
                        assert(orig.out_fut()[i] == fo[i]);
                        assert(orig.in_val()[i] == fi[i]);
                        if i > 0 { assert(orig.in_val()[i - 1] == fi[i - 1]); }
                    }
                }
            } else {
                assert forall |i: int| 0 <= i < ins.len() implies #[trigger] outs[i] == cbc_p(d, iv0, ins, i) by {
                    assert(outs[i] == rb.out_fut()[i]@);
                }
            }
            cbc_p_is_run(d, iv0, ins);
            assert(outs =~= Seq::new(ins.len(), |i: int| cbc_p(d, iv0, ins, i)));
        }
'''},
    loops={0: '''
                invariant
                    it1.history@.len() == it1.index@, it1.index@ <= np,
                    it1.history@ + iob_remaining(&it1.iter) == iob_remaining(&it1.snapshot@),
                    iob_remaining(&it1.snapshot@).len() == np,
                    pb is Some, pb.unwrap().out_cur().len() == np, w > 1,
                    iv@ == (if it1.index@ == 0 { iv0 } else { pb.unwrap().in_val()[it1.index@ - 1]@[w - 1]@ }),
                    forall |k: int, j: int| 0 <= k < it1.index@ && 0 <= j < w ==>
                        (#[trigger] pb.unwrap().out_fut()[k]@[j])@ == xor_seq(d(pb.unwrap().in_val()[k]@[j]@),
                            if j > 0 { pb.unwrap().in_val()[k]@[j - 1]@ } else if k > 0 { pb.unwrap().in_val()[k - 1]@[w - 1]@ } else { iv0 }),
''', 1: '''
                    invariant
                        n == w, n > 1, t@.len() == n, in_blocks@.len() == n, t0@.len() == n, 1 <= i <= n,
                        in_blocks == cur.in_val(), iv@ == ivk,
                        forall |j: int| 0 <= j < n ==> (#[trigger] t0@[j])@ == d(in_blocks@[j]@),
                        forall |j: int| 0 <= j < i ==> (#[trigger] t@[j])@ == xor_seq(t0@[j]@, if j == 0 { ivk } else { in_blocks@[j - 1]@ }),
                        forall |j: int| i <= j < n ==> t@[j] == t0@[j],
''', 2: '''
            invariant''' + ITER_INV + '''
                iv@ == (if it.index@ == 0 { ivm } else { rb.in_val()[it.index@ - 1]@ }),
                forall |j: int| 0 <= j < it.index@ ==> (#[trigger] rb.out_fut()[j])@ == xor_seq(d(rb.in_val()[j]@), if j == 0 { ivm } else { rb.in_val()[j - 1]@ }),
'''})


def trait_sel(enc):
    T = 'Encrypt' if enc else 'Decrypt'
    v = 'enc' if enc else 'dec'
    members = '''
    spec fn min_len(&self) -> nat;
    // `out` is the ciphertext-stealing image of `m` under this object (defined per variant from spec/cts.rs)
    spec fn %(v)s_ok(&self, m: Seq<u8>, out: Seq<u8>) -> bool;
''' % {'v': v}
    PG = ('C05', 'C13', 'C01', 'C12', 'C14', 'C16')
    return Sel('trait ' + T, members=members, fns={
        '%scrypt_inout' % v[:2]: FnC(ret='r', props=PG, requires=['buf.wf()'], ensures=[
            ('len', PG, 'buf.out_fut().len() == buf.out_cur().len()'),
            ('reject_short', ('C13', 'C05'), 'buf.out_cur().len() < self.min_len() ==> r is Err && buf.out_fut() == buf.out_cur()'),
            ('accept', ('C05', 'C13', 'C01'), 'buf.out_cur().len() >= self.min_len() ==> r is Ok && self.%s_ok(buf.in_val(), buf.out_fut())' % v)]),
        '%scrypt' % v[:2]: FnC(ret='r', props=PG, ensures=[
            ('len', PG, 'final(buf)@.len() == old(buf)@.len()'),
            ('reject_short', ('C13', 'C05'), 'old(buf)@.len() < self.min_len() ==> r is Err && final(buf)@ == old(buf)@'),
            ('accept', ('C05', 'C13', 'C01', 'C12'), 'old(buf)@.len() >= self.min_len() ==> r is Ok && self.%s_ok(old(buf)@, final(buf)@)' % v)]),
        '%scrypt_b2b' % v[:2]: FnC(ret='r', props=PG, kani=('cts_*',), closures={1: CLOSURE_B2B % v}, ensures=[
            ('len', PG, 'final(out_buf)@.len() == old(out_buf)@.len()'),
            ('reject_unequal', ('C13',), 'in_buf@.len() != old(out_buf)@.len() ==> r is Err && final(out_buf)@ == old(out_buf)@'),
            ('reject_short', ('C13', 'C05'), 'in_buf@.len() == old(out_buf)@.len() && in_buf@.len() < self.min_len() ==> r is Err && final(out_buf)@ == old(out_buf)@'),
            ('accept', ('C05', 'C13', 'C01', 'C12'), 'in_buf@.len() == old(out_buf)@.len() && in_buf@.len() >= self.min_len() ==> r is Ok && self.%s_ok(in_buf@, final(out_buf)@)' % v)],
            note='closure contracts spliced in (Verus reads closure contracts only from annotations); the pattern parameter `|NotEqualError|` is rewritten to `|_pat: NotEqualError|`'),
    })


CLOSURE_B2B = '''-> (rc: Result<(), Error>)
                requires buf.wf()
                ensures buf.out_fut().len() == buf.out_cur().len(),
                    buf.out_cur().len() < self.min_len() ==> rc is Err && buf.out_fut() == buf.out_cur(),
                    buf.out_cur().len() >= self.min_len() ==> rc is Ok && self.%s_ok(buf.in_val(), buf.out_fut())'''


def lib_mod():
    return Mod('cts_lib', 'cts/src/lib.rs', items=[
        Sel('struct Error'),
        trait_sel(True),
        trait_sel(False),
        Sel('fn xor', fns={'xor': K.xor_fn(props=P)}),
        Sel('fn ecb_enc', fns={'ecb_enc': ecb_fn(True)}),
        Sel('fn ecb_dec', fns={'ecb_dec': ecb_fn(False)}),
        Sel('fn cbc_dec', fns={'cbc_dec': CBC_DEC}),
        Sel('fn cbc_enc', fns={'cbc_enc': FnC(
            props=P, attrs=['#[verifier::loop_isolation(false)]'],
            requires=['blocks.wf()'],
            ensures=[
                ('chain', P, '(seq![final(iv)@], aviews(blocks.out_fut())) == run(cbc_enc_step(cipher.enc_fn()), seq![old(iv)@], aviews(blocks.in_val()))'),
                ('len', P, 'blocks.out_fut().len() == blocks.out_cur().len()')],
            iters={0: 'it'},
            stmts={'0': '''
        let ghost ins = aviews(blocks.in_val());
        let ghost iv0 = iv@;
        let ghost n = blocks.out_cur().len();
        let ghost e = cipher.enc_fn();
''', 'end': '''
        proof {
            assert(blocks.out_fut() == blocks.out_cur());
            cbc_c_is_run(e, iv0, ins);
            assert(aviews(blocks.out_cur()) =~= Seq::new(ins.len(), |i: int| cbc_c(e, iv0, ins, i)));
        }
'''},
            loops={0: '''
            invariant''' + ITER_INV + '''
                ins.len() == n,
                forall |j: int| 0 <= j < n ==> (#[trigger] iob_remaining(&it.snapshot@)[j]).in_val()@ == ins[j],
                iv@ == cbc_c(e, iv0, ins, it.index@ - 1),
                forall |j: int| 0 <= j < it.index@ ==> (#[trigger] iob_remaining(&it.snapshot@)[j]).out_fut()@ == cbc_c(e, iv0, ins, j),
'''})}),
    ])


PG = ('C05', 'C13', 'C01', 'C12', 'C14', 'C16')


def enc_ok_expr(cbc, variant, efn, iv, m, out, b):
    if cbc:
        return 'forall |ps: Seq<Blk>, t: Seq<u8>| #[trigger] is_chunking(%s, %s, ps, t) ==> %s == cbc_cs_enc(%d, %s, %s, ps, t)' % (m, b, out, variant, efn, iv)
    return 'forall |ps: Seq<Blk>, t: Seq<u8>| #[trigger] is_chunking(%s, %s, ps, t) ==> %s == ecb_cs_enc(%d, %s, %s, ps, t)' % (m, b, out, variant, efn, b)


def dec_ok_expr(cbc, variant, dfn, iv, m, out, b):
    if cbc:
        return 'forall |ps: Seq<Blk>, t: Seq<u8>| #[trigger] is_chunking(%s, %s, ps, t) ==> %s == cbc_cs_dec(%d, %s, %s, ps, t)' % (m, b, out, variant, dfn, iv)
    return 'forall |ps: Seq<Blk>, t: Seq<u8>| #[trigger] is_chunking(%s, %s, ps, t) ==> %s == ecb_cs_dec(%d, %s, ps, t)' % (m, b, out, variant, dfn)


CLOSURE_PRE = '''
        proof { BS::block_size_bounds(); }
        broadcast use Array::axiom_len;
        let ghost buf0 = self.buf;
        let ghost bl = BS::USIZE as nat;
        let ghost ll = buf0.out_cur().len();
'''


CBC_ENC_PRE = CLOSURE_PRE + '''
        let ghost iv0 = self.iv@;
        let ghost e = cipher.enc_fn();
        let ghost m0 = buf0.in_val();
'''
AFTER_CHUNKS = '''
        let ghost ab = blocks;
        let ghost ps0 = aviews(blocks.in_val());
        let ghost t0 = tail.in_val();
        let ghost nb = ps0.len() as int;
        let ghost dd = t0.len() as int;
        proof {
            assert(is_chunking(m0, bl, ps0, t0));
            chunking_len(m0, bl, ps0, t0);
            assert(nb >= 1) by (nonlinear_arith) requires nb == (ll as int) / (bl as int), ll >= bl, bl > 0;
        }
'''
AFTER_CBC_ENC = '''
        let ghost cs = cbc_chain(e, iv0, ps0);
        proof {
            cbc_c_is_run(e, iv0, ps0);
            run_len(cbc_enc_step(e), seq![iv0], ps0);
            assert(aviews(blocks.out_cur()) == cs);
            assert(seq![iv@] == seq![cbc_c(e, iv0, ps0, nb - 1)]);
            assert(seq![iv@][0] == seq![cbc_c(e, iv0, ps0, nb - 1)][0]);
            assert(cs[nb - 1] == cbc_c(e, iv0, ps0, nb - 1));
            assert(iv@ == cs[nb - 1]);
        }
'''
UNIQ = '''
            assert forall |ps: Seq<Blk>, t: Seq<u8>| #[trigger] is_chunking(m0, bl, ps, t) implies buf.out_cur() == %s by {
                chunking_unique(m0, bl, ps, t, ps0, t0);
            }
'''
ZERO_HINT = '''
            proof { axiom_zero_array::<u8, BS>(); }
            broadcast use axiom_zero_u8;
'''
PAD_HINT = '''
            assert(block@ =~= pad0(t0, bl));
'''
CLAST_HINT = '''
            assert(block@ == e(xor_seq(pad0(t0, bl), cs[nb - 1])));
'''
CBC3_ENC_END = '''
        proof {
            let outs = aviews(blocks.out_cur());
            assert(buf.out_cur() == flatg(outs) + tail.out_cur());
            if dd == 0 {
                assert(tail.out_cur() =~= Seq::<u8>::empty());
                if nb > 1 {
                    assert(outs =~= cs.take(nb - 2).push(cs[nb - 1]).push(cs[nb - 2]));
                    flatg_push(cs.take(nb - 2).push(cs[nb - 1]), cs[nb - 2]);
                    flatg_push(cs.take(nb - 2), cs[nb - 1]);
                } else {
                    assert(outs =~= cs);
                }
                assert(buf.out_cur() =~= cs_arrange(3, cs, 0, e(xor_seq(pad0(t0, iv0.len()), cs[nb - 1]))));
            } else {
                let c_last = e(xor_seq(pad0(t0, bl), cs[nb - 1]));
                assert(outs =~= cs.take(nb - 1).push(c_last));
                flatg_push(cs.take(nb - 1), c_last);
                assert(tail.out_cur() =~= cs[nb - 1].take(dd));
                assert(buf.out_cur() =~= cs_arrange(3, cs, dd as nat, c_last));
            }
            assert(buf.out_cur() == cbc_cs_enc(3, e, iv0, ps0, t0));
''' + UNIQ % 'cbc_cs_enc(3, e, iv0, ps, t)' + '''
        }
'''


def early_return_proof(spec_call):
    # whole number of blocks: the helper's output is already the answer (CS1/CS2: plain CBC / ECB)
    return '''
            proof {
                assert(tail.out_cur() =~= Seq::<u8>::empty());
                assert(buf.out_cur() =~= flatg(cs));
''' + UNIQ % spec_call + '''
            }
'''


CBC2_ENC_END = '''
        proof {
            let outs = aviews(blocks.out_cur());
            assert(buf.out_cur() == flatg(outs) + tail.out_cur());
            let c_last = e(xor_seq(pad0(t0, bl), cs[nb - 1]));
            assert(outs =~= cs.take(nb - 1).push(c_last));
            flatg_push(cs.take(nb - 1), c_last);
            assert(tail.out_cur() =~= cs[nb - 1].take(dd));
            assert(buf.out_cur() =~= cs_arrange(2, cs, dd as nat, c_last));
            assert(buf.out_cur() == cbc_cs_enc(2, e, iv0, ps0, t0));
''' + UNIQ % 'cbc_cs_enc(2, e, iv0, ps, t)' + '''
        }
'''
CBC1_AFTER_CHUNKS = AFTER_CHUNKS + '''
        let ghost gb = blocks;
        let ghost gt = tail;
'''
CBC1_AFTER_ENC = '''
        let ghost cs = cbc_chain(e, iv0, ps0);
        proof {
            cbc_c_is_run(e, iv0, ps0);
            run_len(cbc_enc_step(e), seq![iv0], ps0);
            assert(aviews(gb.out_fut()) == cs);
            assert(seq![iv@][0] == seq![cbc_c(e, iv0, ps0, nb - 1)][0]);
            assert(cs[nb - 1] == cbc_c(e, iv0, ps0, nb - 1));
            assert(iv@ == cs[nb - 1]);
        }
'''
CBC1_EARLY = '''
            proof {
                assert(gt.out_fut() =~= Seq::<u8>::empty());
                assert(buf.out_cur() =~= flatg(cs));
''' + UNIQ % 'cbc_cs_enc(1, e, iv0, ps, t)' + '''
            }
'''
CBC1_ENC_END = '''
        proof {
            let c_last = e(xor_seq(pad0(t0, bl), cs[nb - 1]));
            let before = flatg(cs) + gt.out_fut();
            flatg_len(cs, bl);
            flatg_len(cs.take(nb - 1), bl);
            assert(cs =~= cs.take(nb - 1).push(cs[nb - 1]));
            flatg_push(cs.take(nb - 1), cs[nb - 1]);
            assert((nb - 1) * bl + bl == nb * bl) by (nonlinear_arith);
            assert(before.take((nb - 1) * bl + dd) =~= flatg(cs.take(nb - 1)) + cs[nb - 1].take(dd));
            assert(buf.out_cur() =~= flatg(cs.take(nb - 1)) + cs[nb - 1].take(dd) + c_last);
            assert(buf.out_cur() == cbc_cs_enc(1, e, iv0, ps0, t0));
''' + UNIQ % 'cbc_cs_enc(1, e, iv0, ps, t)' + '''
        }
'''


def cbc_enc_call(variant):
    at = ['#[verifier::loop_isolation(false)]']
    if variant == 3:
        return FnC(props=PG, inherits=True, attrs=at,
                   stmts={'0': CBC_ENC_PRE, '2': AFTER_CHUNKS, '3': AFTER_CBC_ENC, '3.1.1': ZERO_HINT, '3.1.2': PAD_HINT,
                          '3.1.4': CLAST_HINT, 'end': CBC3_ENC_END})
    if variant == 2:
        return FnC(props=PG, inherits=True, attrs=at,
                   stmts={'0': CBC_ENC_PRE, '2': AFTER_CHUNKS, '3': AFTER_CBC_ENC,
                          '3.0.0': early_return_proof('cbc_cs_enc(2, e, iv0, ps, t)'),
                          '5': ZERO_HINT, '6': PAD_HINT, '8': CLAST_HINT, 'end': CBC2_ENC_END})
    return FnC(props=PG, inherits=True, attrs=at,
               stmts={'0': CBC_ENC_PRE, '2': CBC1_AFTER_CHUNKS, '3': CBC1_AFTER_ENC, '3.0.0': CBC1_EARLY,
                      '5': ZERO_HINT, '6': PAD_HINT, '8': CLAST_HINT, 'end': CBC1_ENC_END})


ECB_ENC_PRE = CLOSURE_PRE + '''
        let ghost e = cipher.enc_fn();
        let ghost m0 = buf0.in_val();
'''
AFTER_ECB_ENC = '''
        let ghost cs = ecb_map(e, ps0);
        proof {
            assert(aviews(blocks.out_cur()) =~= cs);
        }
'''
ECB_BLOCK_HINT = '''
        assert(block@ =~= t0 + cs[nb - 1].skip(dd));
'''
ECB_CLAST_HINT = '''
        assert(block@ == e(t0 + cs[nb - 1].skip(dd)));
'''


def ecb_uniq(variant):
    return UNIQ % ('ecb_cs_enc(%d, e, bl, ps, t)' % variant)


def ecb_early(variant):
    return '''
            proof {
                assert(tail.out_cur() =~= Seq::<u8>::empty());
                assert(buf.out_cur() =~= flatg(cs));
''' + ecb_uniq(variant) + '''
            }
'''


ECB1_ENC_END = '''
        proof {
            let c_last = e(t0 + cs[nb - 1].skip(dd));
            let before = flatg(cs) + tail.out_cur();
            flatg_len(cs, bl);
            flatg_len(cs.take(nb - 1), bl);
            assert(cs =~= cs.take(nb - 1).push(cs[nb - 1]));
            flatg_push(cs.take(nb - 1), cs[nb - 1]);
            assert((nb - 1) * bl + bl == nb * bl) by (nonlinear_arith);
            assert(before.take((nb - 1) * bl + dd) =~= flatg(cs.take(nb - 1)) + cs[nb - 1].take(dd));
            assert(buf.out_cur() =~= flatg(cs.take(nb - 1)) + cs[nb - 1].take(dd) + c_last);
            assert(buf.out_cur() == ecb_cs_enc(1, e, bl, ps0, t0));
''' + ecb_uniq(1) + '''
        }
'''


def ecb_steal_end(variant):
    return '''
            let outs = aviews(blocks.out_cur());
            assert(buf.out_cur() == flatg(outs) + tail.out_cur());
            let c_last = e(t0 + cs[nb - 1].skip(dd));
            assert(outs =~= cs.take(nb - 1).push(c_last));
            flatg_push(cs.take(nb - 1), c_last);
            assert(tail.out_cur() =~= cs[nb - 1].take(dd));
            assert(buf.out_cur() =~= cs_arrange(%d, cs, dd as nat, c_last));
''' % variant


ECB2_ENC_END = '''
        proof {
''' + ecb_steal_end(2) + '''
            assert(buf.out_cur() == ecb_cs_enc(2, e, bl, ps0, t0));
''' + ecb_uniq(2) + '''
        }
'''
ECB3_ENC_END = '''
        proof {
            let outs = aviews(blocks.out_cur());
            assert(buf.out_cur() == flatg(outs) + tail.out_cur());
            if dd == 0 {
                assert(tail.out_cur() =~= Seq::<u8>::empty());
                if nb > 1 {
                    assert(outs =~= cs.take(nb - 2).push(cs[nb - 1]).push(cs[nb - 2]));
                    flatg_push(cs.take(nb - 2).push(cs[nb - 1]), cs[nb - 2]);
                    flatg_push(cs.take(nb - 2), cs[nb - 1]);
                } else {
                    assert(outs =~= cs);
                }
                assert(buf.out_cur() =~= cs_arrange(3, cs, 0, e(t0 + cs[nb - 1].skip(dd))));
            } else {
''' + ecb_steal_end(3) + '''
            }
            assert(buf.out_cur() == ecb_cs_enc(3, e, bl, ps0, t0));
''' + ecb_uniq(3) + '''
        }
'''


def ecb_enc_call(variant):
    at = ['#[verifier::loop_isolation(false)]']
    if variant == 1:
        return FnC(props=PG, inherits=True, attrs=at,
                   stmts={'0': ECB_ENC_PRE, '2': AFTER_CHUNKS, '3': AFTER_ECB_ENC, '3.0.0': ecb_early(1),
                          '9': ECB_BLOCK_HINT, '10': ECB_CLAST_HINT + '''
        assert(aviews(blocks.out_cur()) =~= cs);
''', '11': '''
        assert(buf.out_cur() == flatg(cs) + tail.out_cur());
        let ghost before = buf.out_cur();
''', 'end': ECB1_ENC_END.replace('let before = flatg(cs) + tail.out_cur();', '')})
    if variant == 2:
        return FnC(props=PG, inherits=True, attrs=at,
                   stmts={'0': ECB_ENC_PRE, '2': AFTER_CHUNKS, '3': AFTER_ECB_ENC, '3.0.0': ecb_early(2),
                          '9': ECB_BLOCK_HINT, '10': ECB_CLAST_HINT, 'end': ECB2_ENC_END})
    return FnC(props=PG, inherits=True, attrs=at,
               stmts={'0': ECB_ENC_PRE, '2': AFTER_CHUNKS, '3': AFTER_ECB_ENC,
                      '3.1.5': ECB_BLOCK_HINT, '3.1.6': ECB_CLAST_HINT, 'end': ECB3_ENC_END})


# ------------------------------------------------------------------ decrypt closures
DEC_PRE = CLOSURE_PRE + '''
        let ghost iv0 = self.iv@;
        let ghost df = cipher.dec_fn();
        let ghost m0 = buf0.in_val();
        let ghost al = buf0.aliased@;
'''
DEC_UNIQ = '''
            assert forall |ps: Seq<Blk>, t: Seq<u8>| #[trigger] is_chunking(m0, bl, ps, t) implies %s == %s by {
                chunking_unique(m0, bl, ps, t, ps0, t0);
            }
'''
# CBC-CS1 / CBC-CS2: same skeleton; `cs1` selects which of the two middle blocks is deciphered first
def cbc12_dec_call(variant):
    cs1 = variant == 1
    after_cut = '''
        let ghost hb = blocks;               // head blocks handed to cbc_dec
        let ghost nh = hb.out_cur().len() as int;
        proof {
            if dd > 0 { assert(aviews(hb.in_val()) =~= ps0.take(nb - 1)); assert(nh == nb - 1); }
            else { assert(aviews(hb.in_val()) =~= ps0); assert(nh == nb); }
        }
'''
    after_dec = '''
        let ghost head = if dd > 0 { ps0.take(nb - 1) } else { ps0 };
        let ghost hp = cbc_dec_chain(df, iv0, head);
        let ghost prev = if head.len() == 0 { iv0 } else { head[head.len() - 1] };
        proof {
            cbc_p_is_run(df, iv0, head);
            run_len(cbc_dec_step(df), seq![iv0], head);
            assert(aviews(hb.out_fut()) == hp);
            assert(seq![iv@][0] == seq![prev][0]);
        }
'''
    early = '''
            proof {
                assert(tail.out_cur() =~= Seq::<u8>::empty());
                assert(buf.out_cur() =~= flatg(hp));
                assert(buf.out_cur() == cbc_cs_dec(%d, df, iv0, ps0, t0));
''' % variant + DEC_UNIQ % ('buf.out_cur()', 'cbc_cs_dec(%d, df, iv0, ps, t)' % variant) + '''
            }
'''
    before_split = '''
        let ghost mid_g = (nb - 1) * bl;
        let ghost before = buf.out_cur();
        proof {
            assert(before == flatg(aviews(ab.out_fut())) + tail.out_cur());
            assert(ab.out_fut().len() == nb);
            assert(ab.out_fut() =~= hb.out_fut().push(ab.out_fut()[nb - 1]));
            assert(aviews(ab.out_fut()) =~= hp.push(ab.out_fut()[nb - 1]@));
            flatg_push(hp, ab.out_fut()[nb - 1]@);
            assert((nb - 1) * bl + bl == nb * bl) by (nonlinear_arith);
            flatg_len(hp, bl);
            flatg_len(ps0, bl);
            flatg_len(ps0.take(nb - 1), bl);
            assert(ps0 =~= ps0.take(nb - 1).push(ps0[nb - 1]));
            flatg_push(ps0.take(nb - 1), ps0[nb - 1]);
            // the region behind the head blocks still holds the ciphertext, in place and buffer to buffer
            assert(before.take(mid_g) =~= flatg(hp));
            assert(buf.in_val().skip(mid_g) =~= ps0[nb - 1] + t0);
        }
'''
    x = 'ps0[nb - 1] + t0'
    if cs1:
        c_star, c_n = '(%s).take(dd)' % x, '(%s).skip(dd)' % x
    else:
        c_star, c_n = 't0', 'ps0[nb - 1]'
    end = '''
        proof {
            let tailp = cbc_cs_dec_tail(df, prev, c_star, c_n);
            assert(rem.out_cur() =~= tailp);
            assert(buf0.out_fut() =~= flatg(hp) + tailp);
            assert(cs_dec_pieces(%(v)d, ps0, t0) == (head, c_star, c_n));
            assert(buf0.out_fut() == cbc_cs_dec(%(v)d, df, iv0, ps0, t0));
''' % {'c_star': c_star, 'c_n': c_n, 'v': variant} + DEC_UNIQ % ('buf0.out_fut()', 'cbc_cs_dec(%d, df, iv0, ps, t)' % variant) + '''
        }
'''
    steps = {
        '10': '''
        let ghost xx = ps0[nb - 1] + t0;
        let ghost c_star = %(c_star)s;
        let ghost c_n = %(c_n)s;
        let ghost z = df(c_n);
        let ghost c_pen = c_star + z.skip(dd);
        assert(rem.in_val() =~= xx);
        assert(n == dd);
''' % {'c_star': c_star, 'c_n': c_n}}
    if cs1:
        steps.update({
            '11': 'assert(block1@ =~= ps0[nb - 1]);',
            '12': 'assert(block2@ =~= c_n);',
            '13': 'assert(block2@ == z);',
            '14': 'assert(block1@ =~= c_pen);',
            '15': 'assert(block2@ == xor_seq(z, c_pen));',
            '17': 'assert(block1@ == xor_seq(df(c_pen), prev));',
        })
    else:
        steps.update({
            '11': 'assert(block1@ =~= c_n);',
            '12': 'assert(block1@ == z);',
            '13': ZERO_HINT,
            '15': 'assert(block2@.take(dd) =~= c_star);',
            '16': 'assert(block2@ =~= c_pen);',
            '17': 'assert(block1@ == xor_seq(z, c_pen));',
            '19': 'assert(block2@ == xor_seq(df(c_pen), prev));',
        })
    return FnC(props=PG, inherits=True, attrs=['#[verifier::loop_isolation(false)]'],
               stmts=dict({'0': DEC_PRE, '2': AFTER_CHUNKS, '3': after_cut, '4': after_dec, '4.0.0': early, '7': before_split, 'end': end}, **steps))


def cbc3_dec_call():
    pre = CLOSURE_PRE + '''
        let ghost iv0 = self.iv@;
        let ghost df = cipher.dec_fn();
        let ghost m0 = buf0.in_val();
'''
    one_block_a = '''
            let ghost hb1 = blocks;
            proof {
                assert((ll as int) / (bl as int) == 1 && (ll as int) % (bl as int) == 0) by (nonlinear_arith) requires ll == bl, bl > 0;
            }
'''
    one_block_b = '''
            proof {
                let c1 = aviews(hb1.in_val());
                cbc_p_is_run(df, iv0, c1);
                assert(is_chunking(m0, bl, c1, Seq::<u8>::empty()));
                assert(c1.len() == 1);
                assert(aviews(hb1.out_fut()) == cbc_dec_chain(df, iv0, c1));
                assert(buf0.out_fut() =~= flatg(aviews(hb1.out_fut())));
                flatg_len(aviews(hb1.out_fut()), bl);
                assert(buf0.out_fut().len() == ll) by { assert(1 * bl == bl) by (nonlinear_arith); }
                assert(buf0.out_fut() == cbc_cs_dec(3, df, iv0, c1, Seq::<u8>::empty()));
                assert forall |ps: Seq<Blk>, t: Seq<u8>| #[trigger] is_chunking(m0, bl, ps, t) implies buf0.out_fut() == cbc_cs_dec(3, df, iv0, ps, t) by {
                    chunking_unique(m0, bl, ps, t, c1, Seq::<u8>::empty());
                }
            }
'''
    # ll > bl from here on
    arith = '''
        let ghost nq = (ll as int) / (bl as int);
        let ghost dr = (ll as int) % (bl as int);
        proof {
            vstd::arithmetic::div_mod::lemma_fundamental_div_mod(ll as int, bl as int);
            assert(ll == bl * nq + dr);
            assert(bl * nq == nq * bl) by (nonlinear_arith);
            assert(0 <= dr < bl);
            assert(nq >= 1) by (nonlinear_arith) requires ll == nq * bl + dr, ll > bl, dr < bl, bl > 0;
            assert(dr == 0 ==> nq >= 2) by (nonlinear_arith) requires ll == nq * bl + dr, ll > bl, bl > 0;
            div_ceil_of_chunks(nq, dr, bl as int);
        }
'''
    after_main = '''
        let ghost mb = main_blocks as int;
        proof {
            assert(blocks_len == (if dr == 0 { nq } else { nq + 1 }));
            assert(mb == (if dr == 0 { nq - 2 } else { nq - 1 }));
            assert(bs * mb == mb * bl) by (nonlinear_arith) requires bs == bl;
            assert(mb * bl <= nq * bl) by (nonlinear_arith) requires mb <= nq, bl >= 0;
            div_ceil_of_chunks(mb, 0, bl as int);
        }
'''
    after_split = '''
        let ghost midg = mb * bl;
        let ghost tl = m0.skip(midg);
        let ghost tb = tail;
        proof {
            assert(tail.in_val() =~= tl);
            assert(tl.len() == ll - midg);
            assert(nq * bl - mb * bl == (nq - mb) * bl) by (nonlinear_arith);
            assert(2 * bl == bl + bl);
            assert(tl.len() > bl && tl.len() <= 2 * bl) by {
                if dr == 0 { assert((nq - mb) * bl == 2 * bl) by (nonlinear_arith) requires nq - mb == 2; }
                else { assert((nq - mb) * bl == 1 * bl) by (nonlinear_arith) requires nq - mb == 1; }
            }
        }
'''
    after_chunks = '''
        let ghost hb = blocks;
        let ghost hc = aviews(hb.in_val());
        proof {
            assert(hb.out_cur().len() == mb);
            assert(rem.in_val() =~= Seq::<u8>::empty());
            assert(flatg(hc) =~= m0.take(midg));
        }
'''
    after_dec = '''
        let ghost hp = cbc_dec_chain(df, iv0, hc);
        let ghost prev = if hc.len() == 0 { iv0 } else { hc[hc.len() - 1] };
        proof {
            cbc_p_is_run(df, iv0, hc);
            run_len(cbc_dec_step(df), seq![iv0], hc);
            assert(aviews(hb.out_fut()) == hp);
            assert(seq![iv@][0] == seq![prev][0]);
        }
'''
    steps = {
        '12': '''
        let ghost dn = tl.len() - bl;
        let ghost c_n = tl.take(bl as int);
        let ghost c_star = tl.skip(bl as int);
        let ghost z = df(c_n);
        let ghost c_pen = c_star + z.skip(dn);
        assert(n == dn);
''',
        '13': 'assert(block1@ =~= c_n);',
        '14': 'assert(block1@ == z);',
        '15': ZERO_HINT,
        '17': 'assert(block2@.take(dn) =~= c_star);',
        '18': 'assert(block2@ =~= c_pen);',
        '19': 'assert(block1@ == xor_seq(z, c_pen));',
        '21': 'assert(block2@ == xor_seq(df(c_pen), prev));',
    }
    end = '''
        proof {
            let tailp = cbc_cs_dec_tail(df, prev, c_star, c_n);
            assert(tail.out_cur() =~= tailp);
            flatg_len(hp, bl);
            assert(buf0.out_fut() =~= flatg(hp) + tailp);
            assert forall |ps: Seq<Blk>, t: Seq<u8>| #[trigger] is_chunking(m0, bl, ps, t) implies buf0.out_fut() == cbc_cs_dec(3, df, iv0, ps, t) by {
                chunking_len(m0, bl, ps, t);
                assert(ps.len() == nq && t.len() == dr);
                flatg_len(ps, bl);
                flatg_take(ps, mb, bl);
                // the head blocks the code decrypted are the first mb blocks of ps
                assert(m0.take(midg) =~= flatg(ps).take(midg));
                assert forall |i: int| 0 <= i < ps.take(mb).len() implies (#[trigger] ps.take(mb)[i]).len() == bl by { assert(ps.take(mb)[i] == ps[i]); }
                flatg_unique(hc, Seq::<u8>::empty(), ps.take(mb), Seq::<u8>::empty(), bl);
                assert(hc == ps.take(mb));
                assert(tl =~= flatg(ps).skip(midg) + t);
                if dr == 0 {
                    assert(t =~= Seq::<u8>::empty());
                    assert(ps.skip(mb) =~= seq![ps[nq - 2], ps[nq - 1]]);
                    assert(seq![ps[nq - 2], ps[nq - 1]].drop_last() =~= seq![ps[nq - 2]]);
                    flatg_one(seq![ps[nq - 2]]);
                    assert(flatg(ps.skip(mb)) =~= ps[nq - 2] + ps[nq - 1]);
                    assert(c_n =~= ps[nq - 2]);
                    assert(c_star =~= ps[nq - 1]);
                    assert(cs_dec_pieces(3, ps, t) == (ps.take(nq - 2), ps[nq - 1], ps[nq - 2]));
                } else {
                    assert(ps.skip(mb) =~= seq![ps[nq - 1]]);
                    flatg_one(seq![ps[nq - 1]]);
                    assert(c_n =~= ps[nq - 1]);
                    assert(c_star =~= t);
                    assert(cs_dec_pieces(3, ps, t) == (ps.take(nq - 1), t, ps[nq - 1]));
                }
            }
        }
'''
    return FnC(props=PG, inherits=True, attrs=['#[verifier::loop_isolation(false)]'],
               stmts=dict({'0': pre, '2.0.1': one_block_a, '2.0.2': one_block_b, '3': arith, '5': after_main, '6': after_split,
                           '7': after_chunks, '11': after_dec, 'end': end}, **steps))


ECB_DEC_PRE = CLOSURE_PRE + '''
        let ghost df = cipher.dec_fn();
        let ghost m0 = buf0.in_val();
'''


def ecb_dec_uniq(variant, lhs):
    return DEC_UNIQ % (lhs, 'ecb_cs_dec(%d, df, ps, t)' % variant)


def ecb1_dec_call():
    after_cut = '''
        let ghost hb = blocks;
        let ghost nh = hb.out_cur().len() as int;
        proof {
            if dd > 0 { assert(aviews(hb.in_val()) =~= ps0.take(nb - 1)); assert(nh == nb - 1); }
            else { assert(aviews(hb.in_val()) =~= ps0); assert(nh == nb); }
        }
'''
    after_dec = '''
        let ghost head = if dd > 0 { ps0.take(nb - 1) } else { ps0 };
        let ghost hp = ecb_map(df, head);
        proof { assert(aviews(hb.out_fut()) =~= hp); }
'''
    early = '''
            proof {
                assert(tail.out_cur() =~= Seq::<u8>::empty());
                assert(buf.out_cur() =~= flatg(hp));
                assert(buf.out_cur() == ecb_cs_dec(1, df, ps0, t0));
''' + ecb_dec_uniq(1, 'buf.out_cur()') + '''
            }
'''
    before_split = '''
        let ghost mid_g = (nb - 1) * bl;
        let ghost before = buf.out_cur();
        proof {
            assert(before == flatg(aviews(ab.out_fut())) + tail.out_cur());
            assert(ab.out_fut().len() == nb);
            assert(ab.out_fut() =~= hb.out_fut().push(ab.out_fut()[nb - 1]));
            assert(aviews(ab.out_fut()) =~= hp.push(ab.out_fut()[nb - 1]@));
            flatg_push(hp, ab.out_fut()[nb - 1]@);
            assert((nb - 1) * bl + bl == nb * bl) by (nonlinear_arith);
            flatg_len(hp, bl);
            flatg_len(ps0, bl);
            flatg_len(ps0.take(nb - 1), bl);
            assert(ps0 =~= ps0.take(nb - 1).push(ps0[nb - 1]));
            flatg_push(ps0.take(nb - 1), ps0[nb - 1]);
            assert(before.take(mid_g) =~= flatg(hp));
            assert(buf.in_val().skip(mid_g) =~= ps0[nb - 1] + t0);
        }
'''
    steps = {
        '10': '''
        let ghost xx = ps0[nb - 1] + t0;
        let ghost c_star = xx.take(dd);
        let ghost c_n = xx.skip(dd);
        let ghost z = df(c_n);
        let ghost c_pen = c_star + z.skip(dd);
        assert(rem.in_val() =~= xx);
        assert(n == dd);
''',
        '11': 'assert(block1@ =~= ps0[nb - 1]);',
        '12': 'assert(block2@ =~= c_n);',
        '13': 'assert(block2@ == z);',
        '14': 'assert(block1@ =~= c_pen);',
        '15': 'assert(block1@ == df(c_pen));',
    }
    end = '''
        proof {
            let tailp = ecb_cs_dec_tail(df, c_star, c_n);
            assert(rem.out_cur() =~= tailp);
            assert(buf0.out_fut() =~= flatg(hp) + tailp);
            assert(cs_dec_pieces(1, ps0, t0) == (head, c_star, c_n));
            assert(buf0.out_fut() == ecb_cs_dec(1, df, ps0, t0));
''' + ecb_dec_uniq(1, 'buf0.out_fut()') + '''
        }
'''
    return FnC(props=PG, inherits=True, attrs=['#[verifier::loop_isolation(false)]'],
               stmts=dict({'0': ECB_DEC_PRE, '2': AFTER_CHUNKS, '3': after_cut, '4': after_dec, '4.0.0': early, '7': before_split, 'end': end}, **steps))


AFTER_ECB_DEC = '''
        let ghost zs = ecb_map(df, ps0);
        proof { assert(aviews(blocks.out_cur()) =~= zs); }
'''


def ecb23_steal(variant, prefix):
    # statement addresses differ: CS2 is straight-line (prefix ''), CS3 sits in the else branch (prefix '3.1.')
    base = {'': 4, '3.1.': 0}[prefix]
    a = lambda k: '%s%d' % (prefix, base + k)
    return {
        a(2): '''
        let ghost c_n = ps0[nb - 1];
        let ghost z = df(c_n);
        let ghost c_pen = t0 + z.skip(dd);
''' + ZERO_HINT,
        a(5): 'assert(block@ =~= c_pen);',
        a(7): 'assert(block@ == df(c_pen));',
    }


def ecb_dec_steal_end(variant):
    return '''
            let z = df(ps0[nb - 1]);
            let c_pen = t0 + z.skip(dd);
            let outs = aviews(blocks.out_cur());
            assert(buf.out_cur() == flatg(outs) + tail.out_cur());
            assert(outs =~= zs.take(nb - 1).push(df(c_pen)));
            flatg_push(zs.take(nb - 1), df(c_pen));
            assert(tail.out_cur() =~= z.take(dd));
            assert(zs.take(nb - 1) =~= ecb_map(df, ps0.take(nb - 1)));
            assert(cs_dec_pieces(%d, ps0, t0) == (ps0.take(nb - 1), t0, ps0[nb - 1]));
            assert(buf.out_cur() =~= flatg(ecb_map(df, ps0.take(nb - 1))) + ecb_cs_dec_tail(df, t0, ps0[nb - 1]));
''' % variant


def ecb2_dec_call():
    early = '''
            proof {
                assert(tail.out_cur() =~= Seq::<u8>::empty());
                assert(buf.out_cur() =~= flatg(zs));
                assert(buf.out_cur() == ecb_cs_dec(2, df, ps0, t0));
''' + ecb_dec_uniq(2, 'buf.out_cur()') + '''
            }
'''
    end = '''
        proof {
''' + ecb_dec_steal_end(2) + '''
            assert(buf.out_cur() == ecb_cs_dec(2, df, ps0, t0));
''' + ecb_dec_uniq(2, 'buf.out_cur()') + '''
        }
'''
    return FnC(props=PG, inherits=True, attrs=['#[verifier::loop_isolation(false)]'],
               stmts=dict({'0': ECB_DEC_PRE, '2': AFTER_CHUNKS, '3': AFTER_ECB_DEC, '3.0.0': early, 'end': end}, **ecb23_steal(2, '')))


def ecb3_dec_call():
    end = '''
        proof {
            let outs = aviews(blocks.out_cur());
            assert(buf.out_cur() == flatg(outs) + tail.out_cur());
            if dd == 0 {
                assert(tail.out_cur() =~= Seq::<u8>::empty());
                if nb > 1 {
                    assert(outs =~= zs.take(nb - 2).push(zs[nb - 1]).push(zs[nb - 2]));
                    flatg_push(zs.take(nb - 2).push(zs[nb - 1]), zs[nb - 2]);
                    flatg_push(zs.take(nb - 2), zs[nb - 1]);
                    assert(zs.take(nb - 2) =~= ecb_map(df, ps0.take(nb - 2)));
                    let zz = df(ps0[nb - 2]);
                    assert(ps0[nb - 1] + zz.skip(bl as int) =~= ps0[nb - 1]);
                    assert(zz.take(bl as int) =~= zz);
                    assert(cs_dec_pieces(3, ps0, t0) == (ps0.take(nb - 2), ps0[nb - 1], ps0[nb - 2]));
                    assert(ecb_cs_dec_tail(df, ps0[nb - 1], ps0[nb - 2]) =~= zs[nb - 1] + zs[nb - 2]);
                    assert(buf.out_cur() =~= flatg(ecb_map(df, ps0.take(nb - 2))) + ecb_cs_dec_tail(df, ps0[nb - 1], ps0[nb - 2]));
                } else {
                    assert(outs =~= zs);
                }
            } else {
''' + ecb_dec_steal_end(3) + '''
            }
            assert(buf.out_cur() == ecb_cs_dec(3, df, ps0, t0));
''' + ecb_dec_uniq(3, 'buf.out_cur()') + '''
        }
'''
    return FnC(props=PG, inherits=True, attrs=['#[verifier::loop_isolation(false)]'],
               stmts=dict({'0': ECB_DEC_PRE, '2': AFTER_CHUNKS, '3': AFTER_ECB_DEC, 'end': end}, **ecb23_steal(3, '3.1.')))


def variant_mod(fname, obj, cbc, variant, enc_call=None, dec_call=None):
    modname = 'cts_' + fname
    b = 'C::BlockSize::USIZE as nat'
    iv_c = 'self.iv@' if cbc else None
    enc_members = '''
    open spec fn min_len(&self) -> nat { %s }
    open spec fn enc_ok(&self, m: Seq<u8>, out: Seq<u8>) -> bool {
        out.len() == m.len() && (%s)
    }
''' % (b, enc_ok_expr(cbc, variant, 'self.cipher.enc_fn()', 'self.iv@', 'm', 'out', b))
    dec_members = '''
    open spec fn min_len(&self) -> nat { %s }
    open spec fn dec_ok(&self, m: Seq<u8>, out: Seq<u8>) -> bool {
        out.len() == m.len() && (%s)
    }
''' % (b, dec_ok_expr(cbc, variant, 'self.cipher.dec_fn()', 'self.iv@', 'm', 'out', b) if dec_call else 'true')
    clo_enc_members = '''
    open spec fn pre_c(&self) -> bool { self.buf.wf() && self.buf.out_cur().len() >= BS::USIZE }
    #[verifier::prophetic]
    open spec fn post_c(&self, enc: spec_fn(Blk) -> Blk) -> bool {
        {
            &&& self.buf.out_fut().len() == self.buf.out_cur().len()
            &&& (%s)
        }
    }
''' % enc_ok_expr(cbc, variant, 'enc', 'self.iv@', 'self.buf.in_val()', 'self.buf.out_fut()', 'BS::USIZE as nat')
    clo_dec_members = '''
    open spec fn pre_c(&self) -> bool { self.buf.wf() && self.buf.out_cur().len() >= BS::USIZE }
    #[verifier::prophetic]
    open spec fn post_c(&self, dec: spec_fn(Blk) -> Blk) -> bool {
        &&& self.buf.out_fut().len() == self.buf.out_cur().len()
        &&& (%s)
    }
''' % (dec_ok_expr(cbc, variant, 'dec', 'self.iv@', 'self.buf.in_val()', 'self.buf.out_fut()', 'BS::USIZE as nat') if dec_call else 'true')
    items = [
        Sel('struct ' + obj),
        Sel('impl InnerUser for ' + obj),
        Sel('impl IvSizeUser for ' + obj),
    ]
    if cbc:
        items.append(Sel('impl InnerIvInit for ' + obj, fns={'inner_iv_init': FnC(ret='r', props=('C05', 'C14'), ensures=[
            ('iv', ('C05', 'C14'), 'r.iv@ == iv@ && r.cipher == cipher')])}))
    else:
        items.append(Sel('impl InnerInit for ' + obj, fns={'inner_init': FnC(ret='r', props=('C05', 'C14'), ensures=[
            ('cipher', ('C05', 'C14'), 'r.cipher == cipher')])}))
    items += [
        Sel('impl Encrypt for ' + obj, members=enc_members, fns={'encrypt_inout': FnC(props=PG, inherits=True,
            note='length gate; hands the buffer to the closure')}),
        Sel('impl Decrypt for ' + obj, members=dec_members, fns={'decrypt_inout': FnC(props=PG, inherits=True,
            note='length gate; hands the buffer to the closure')}),
        Sel('struct Closure'),
        Sel('impl BlockSizeUser for Closure'),
        Sel('impl BlockCipherEncClosure for Closure', members=clo_enc_members, fns={'call': enc_call or FnC(props=PG, inherits=True)}),
        Sel('impl BlockCipherDecClosure for Closure', members=clo_dec_members, fns={'call': dec_call or FnC(props=PG, external_body=True, kani=('cts_*dec*',), note='decrypt closure: not yet under a Verus contract; behaviour checked by the cts_*dec* harnesses against the NIST reference (bounded: b in {2,3}, every length <= 3b+1, in place and buffer to buffer)')}),
    ]
    uses = 'use super as cipher; use super::cts_lib::{Encrypt, Decrypt, Error, cbc_dec, cbc_enc, ecb_dec, ecb_enc, xor};'
    return Mod(modname, 'cts/src/%s.rs' % fname, uses=uses, items=items)


def unit():
    return Unit('cts', prelude=K.PRELUDE_BLOCK, spec=['steps.rs', 'cts.rs'], mods=K.DEPS() + [lib_mod(),
                      variant_mod('cbc_cs1', 'CbcCs1', True, 1, enc_call=cbc_enc_call(1), dec_call=cbc12_dec_call(1)),
                      variant_mod('cbc_cs2', 'CbcCs2', True, 2, enc_call=cbc_enc_call(2), dec_call=cbc12_dec_call(2)),
                      variant_mod('cbc_cs3', 'CbcCs3', True, 3, enc_call=cbc_enc_call(3), dec_call=cbc3_dec_call()),
                      variant_mod('ecb_cs1', 'EcbCs1', False, 1, enc_call=ecb_enc_call(1), dec_call=ecb1_dec_call()),
                      variant_mod('ecb_cs2', 'EcbCs2', False, 2, enc_call=ecb_enc_call(2), dec_call=ecb2_dec_call()),
                      variant_mod('ecb_cs3', 'EcbCs3', False, 3, enc_call=ecb_enc_call(3), dec_call=ecb3_dec_call())])
