"""Contracts for the `ctr` crate: six flavours from one template (C04; C10, C11, C16 repo side)."""
from vf.extract import FnC, Sel, Mod
from vf.unit import Unit, Lemma
from contracts import common as K

P = ('C04', 'C01', 'C07', 'C08', 'C12', 'C14', 'C15', 'C16', 'C09', 'C10')

# ghost members and contracts added to the repo's own trait declaration (ensures on impls of a generic
# trait trip type inference in this Verus, DESIGN A.5)
TRAIT_MEMBERS = '''
    // abstract view of a CtrNonce: the IV block it was built from, and the block position
    spec fn base(cn: &Self::CtrNonce) -> Seq<u8>;
    spec fn pos(cn: &Self::CtrNonce) -> int;
    spec fn wbytes() -> nat;          // counter width in bytes
    spec fn big_endian() -> bool;
    spec fn backend_val(v: Self::Backend) -> int;
    proof fn lemma_backend_val(v: Self::Backend) ensures Self::backend_val(v) == <Self::Backend as StreamCipherCounter>::cval(v),
        0 <= Self::backend_val(v) < pow256(Self::wbytes());
    spec fn wf(cn: &Self::CtrNonce) -> bool;
    proof fn lemma_pos_range(cn: &Self::CtrNonce) ensures 0 <= Self::pos(cn) < pow256(Self::wbytes());
'''


# call-site derived: CtrCore instantiates B with C::BlockSize, a `BlockSizes` type (1..=255 bytes)
NONEMPTY = 'B::USIZE >= 1'


def trait_fns():
    return {
        'remaining': FnC(ret='r', props=('C10', 'C11', 'C13'), ensures=[
            ('exact', ('C10', 'C11'), 'r is Some ==> r->Some_0 as int == pow256(Self::wbytes()) - 1 - Self::pos(cn)'),
            ('none_only_if_unrepresentable', ('C10', 'C11'), 'r is None ==> pow256(Self::wbytes()) - 1 - Self::pos(cn) > usize::MAX')]),
        'next_block': FnC(ret='r', props=P + ('C11',), requires=[NONEMPTY], ensures=[
            ('out', P, 'r@ == ctr_layout(Self::base(old(cn)), Self::pos(old(cn)), Self::wbytes(), Self::big_endian())'),
            ('advance', P + ('C11', 'C10'), 'Self::pos(final(cn)) == (Self::pos(old(cn)) + 1) % pow256(Self::wbytes())'),
            ('base_kept', P + ('C10',), 'Self::base(final(cn)) == Self::base(old(cn))')]),
        'current_block': FnC(ret='r', props=P + ('C09',), requires=[NONEMPTY], ensures=[
            ('layout', P + ('C09',), 'r@ == ctr_layout(<Self as CtrFlavor<B>>::base(cn), Self::pos(cn), Self::wbytes(), Self::big_endian())')]),
        'from_nonce': FnC(ret='r', props=P + ('C09',), ensures=[
            ('base', P + ('C09',), '<Self as CtrFlavor<B>>::base(&r) == block@'),
            ('pos0', P + ('C09',), 'Self::pos(&r) == 0')]),
        'set_from_backend': FnC(props=('C10',), ensures=[
            ('pos', ('C10',), 'Self::pos(final(cn)) == Self::backend_val(v)'),
            ('base_kept', ('C10',), 'Self::base(final(cn)) == Self::base(old(cn))')]),
        'as_backend': FnC(ret='r', props=('C10',), ensures=[
            ('pos', ('C10',), 'Self::backend_val(r) == Self::pos(cn)')]),
    }


def flavor_members(cs, ty, be):
    idx = 'cn.nonce@.len() - 1' if be else '0'
    enc = 'be_bytes' if be else 'le_bytes'
    return '''
    open spec fn base(cn: &Self::CtrNonce) -> Seq<u8> {
        Seq::new((cn.nonce@.len() * %(cs)d) as nat, |j: int|
            if j / %(cs)d == %(idx)s { %(enc)s(cn.nonce@[j / %(cs)d] as int, %(cs)d)[j %% %(cs)d] } else { ne_bytes(cn.nonce@[j / %(cs)d] as int, %(cs)d)[j %% %(cs)d] })
    }
    open spec fn pos(cn: &Self::CtrNonce) -> int { cn.ctr as int }
    open spec fn wbytes() -> nat { %(cs)d }
    open spec fn big_endian() -> bool { %(be)s }
    open spec fn backend_val(v: %(ty)s) -> int { v as int }
    proof fn lemma_backend_val(v: %(ty)s) { pow256_values(); }
    open spec fn wf(cn: &Self::CtrNonce) -> bool { true }
    proof fn lemma_pos_range(cn: &Self::CtrNonce) { pow256_values(); }
''' % {'cs': cs, 'idx': idx, 'enc': enc, 'be': 'true' if be else 'false', 'ty': ty}


def flavor_fns(cs, ty, be):
    d = {'cs': cs, 'ty': ty, 'enc': 'be_bytes' if be else 'le_bytes', 'val': 'be_val' if be else 'le_val',
         'c': '(n - 1)' if be else '0', 'be': 'true' if be else 'false',
         'axu': {4: 'axiom_u4', 8: 'axiom_u8', 16: 'axiom_u16'}[cs],
         'enc_of_val': 'be_bytes_of_val' if be else 'le_bytes_of_val',
         'val_of_enc': 'be_val_of_bytes' if be else 'le_val_of_bytes',
         'enc_len': 'be_bytes_len' if be else 'le_bytes_len'}
    pre = '''
        broadcast use Array::axiom_len, %(axu)s;
        proof { <B as PartialDiv<ChunkSize>>::partial_div_exact(); pow256_values(); }
        let ghost n = Chunks::<B>::USIZE as int;
''' % d
    word = 'if k == %(c)s { %(enc)s(((cn.ctr as int) + (cn.nonce@[k] as int)) %% pow256(%(cs)d), %(cs)d) } else { ne_bytes(cn.nonce@[k] as int, %(cs)d) }' % d
    cur_inv = '''
            invariant
                n == Chunks::<B>::USIZE, n * %(cs)d == B::USIZE, CS == %(cs)d,
                block@.len() == B::USIZE, cn.nonce@.len() == n,
                forall |k: int| 0 <= k < i ==> #[trigger] block@.subrange(%(cs)d * k, %(cs)d * k + %(cs)d) == (%(word)s),
''' % dict(d, word=word)
    cur_body_pre = 'let ghost b0 = block@;'
    cur_body_post = '''
            proof {
                pow256_values();
                %(enc_len)s(((cn.ctr as int) + (cn.nonce@[i as int] as int)) %% pow256(%(cs)d), %(cs)d);
                ne_bytes_len(cn.nonce@[i as int] as int, %(cs)d);
                mod_add_wrap(cn.ctr as int, cn.nonce@[i as int] as int, pow256(%(cs)d));
                assert(block@ =~= b0.take(%(cs)d * i as int) + (t@ + b0.skip(%(cs)d * i as int).skip(%(cs)d)));
                assert(block@.subrange(%(cs)d * i as int, %(cs)d * i as int + %(cs)d) =~= t@);
                assert forall |k: int| 0 <= k < i implies
                    #[trigger] block@.subrange(%(cs)d * k, %(cs)d * k + %(cs)d) == (%(word)s) by {
                    assert(block@.subrange(%(cs)d * k, %(cs)d * k + %(cs)d) =~= b0.subrange(%(cs)d * k, %(cs)d * k + %(cs)d));
                }
            }
''' % dict(d, word=word)
    # final step: chunk characterisation ==> byte-level layout of the property statement
    if be:
        cur_end = '''
        proof {
            let base = <Self as CtrFlavor<B>>::base(cn); let x = cn.ctr as int; let m = pow256(%(cs)d); let len = B::USIZE as int;
            let f = cn.nonce@[n - 1] as int;
            let fld = base.skip(len - %(cs)d);
            be_bytes_len(f, %(cs)d);
            assert(fld =~= be_bytes(f, %(cs)d)) by {
                assert forall |j: int| 0 <= j < %(cs)d implies fld[j] == be_bytes(f, %(cs)d)[j] by {
                    assert((len - %(cs)d + j) / %(cs)d == n - 1 && (len - %(cs)d + j) %% %(cs)d == j);
                }
            }
            be_val_of_bytes(f, %(cs)d);
            let ctrb = be_bytes((f + x) %% m, %(cs)d);
            be_bytes_len((f + x) %% m, %(cs)d);
            let lay = ctr_layout(base, x, %(cs)d, true);
            assert(lay =~= base.take(len - %(cs)d) + ctrb);
            assert forall |j: int| 0 <= j < len implies block@[j] == lay[j] by {
                let k = j / %(cs)d;
                assert(0 <= k < n && j == %(cs)d * k + j %% %(cs)d);
                let sub = block@.subrange(%(cs)d * k, %(cs)d * k + %(cs)d);
                assert(sub[j %% %(cs)d] == block@[j]);
                if k == n - 1 { assert(x + f == f + x); assert(j - (len - %(cs)d) == j %% %(cs)d); } else { ne_bytes_len(cn.nonce@[k] as int, %(cs)d); }
            }
            assert(block@ =~= lay);
        }
''' % d
    else:
        cur_end = '''
        proof {
            let base = <Self as CtrFlavor<B>>::base(cn); let x = cn.ctr as int; let m = pow256(%(cs)d); let len = B::USIZE as int;
            let f = cn.nonce@[0] as int;
            let fld = base.take(%(cs)d);
            le_bytes_len(f, %(cs)d);
            assert(fld =~= le_bytes(f, %(cs)d)) by {
                assert forall |j: int| 0 <= j < %(cs)d implies fld[j] == le_bytes(f, %(cs)d)[j] by {
                    assert(j / %(cs)d == 0 && j %% %(cs)d == j);
                }
            }
            le_val_of_bytes(f, %(cs)d);
            let ctrb = le_bytes((f + x) %% m, %(cs)d);
            le_bytes_len((f + x) %% m, %(cs)d);
            let lay = ctr_layout(base, x, %(cs)d, false);
            assert(lay =~= ctrb + base.skip(%(cs)d));
            assert forall |j: int| 0 <= j < len implies block@[j] == lay[j] by {
                let k = j / %(cs)d;
                assert(0 <= k < n && j == %(cs)d * k + j %% %(cs)d);
                let sub = block@.subrange(%(cs)d * k, %(cs)d * k + %(cs)d);
                assert(sub[j %% %(cs)d] == block@[j]);
                if k == 0 { assert(x + f == f + x); } else { ne_bytes_len(cn.nonce@[k] as int, %(cs)d); }
            }
            assert(block@ =~= lay);
        }
''' % d
    from_inv = '''
            invariant
                n == Chunks::<B>::USIZE, n * %(cs)d == B::USIZE, CS == %(cs)d,
                block@.len() == B::USIZE, nonce@.len() == n,
                forall |k: int| 0 <= k < i ==> #[trigger] block@.subrange(%(cs)d * k, %(cs)d * k + %(cs)d) ==
                    (if k == %(c)s { %(enc)s(nonce@[k] as int, %(cs)d) } else { ne_bytes(nonce@[k] as int, %(cs)d) }),
''' % d
    from_body_post = '''
            proof {
                %(enc_of_val)s(block@.subrange(%(cs)d * i as int, %(cs)d * i as int + %(cs)d));
                assert(block@.skip(%(cs)d * i as int).take(%(cs)d) =~= block@.subrange(%(cs)d * i as int, %(cs)d * i as int + %(cs)d));
            }
''' % d
    from_end = '''
        proof {
            let r = Self::CtrNonce { ctr, nonce };
            let len = B::USIZE as int;
            assert forall |j: int| 0 <= j < len implies <Self as CtrFlavor<B>>::base(&r)[j] == block@[j] by {
                let k = j / %(cs)d;
                assert(0 <= k < n && j == %(cs)d * k + j %% %(cs)d);
                let sub = block@.subrange(%(cs)d * k, %(cs)d * k + %(cs)d);
                assert(sub[j %% %(cs)d] == block@[j]);
            }
            assert(<Self as CtrFlavor<B>>::base(&r) =~= block@);
        }
''' % d
    return {
        'remaining': FnC(props=('C10', 'C11', 'C13'), inherits=True, stmts={'0': 'proof { pow256_values(); }'}),
        'current_block': FnC(props=P + ('C09',), inherits=True,
                             stmts={'0': pre, '1.0.1': cur_body_pre, '1.0.end': cur_body_post, '2': cur_end},
                             loops={0: cur_inv}),
        'next_block': FnC(props=P + ('C11',), inherits=True,
                          stmts={'0': 'proof { pow256_values(); mod_add_wrap(cn.ctr as int, 1, pow256(%(cs)d)); }' % d}),
        'from_nonce': FnC(props=P + ('C09',), inherits=True,
                          stmts={'0': pre, '1.0.0': from_body_post, '3': from_end}, loops={0: from_inv}),
        'as_backend': FnC(props=('C10',), inherits=True),
        'set_from_backend': FnC(props=('C10',), inherits=True),
    }


def flavor_mod(bits, cs, ty):
    name = 'ctr%d' % bits
    nonce = 'CtrNonce%d' % bits
    clone = '''
// derive(Clone) is dropped by the extractor (no Verus spec for derived Clone of a non-Copy type);
// assumed: the derived impl copies both fields (rustc's derive; see C16 for the Kani check)
impl<N: ArraySize> Clone for %s<N> {
    #[verifier::external_body]
    fn clone(&self) -> (r: Self) ensures r == *self { unimplemented!() }
}
''' % nonce
    items = [
        Sel('type ChunkSize'), Sel('type Chunks'), Sel('const CS'),
        Sel('struct ' + nonce),
        Sel('impl Debug for ' + nonce, fns={'fmt': K.fmt_fn()}),
        Sel('impl Drop for ' + nonce, fns={'drop': K.drop_fn(['ctr', 'nonce'])}),
    ]
    for be in (True, False):
        fl = 'Ctr%d%s' % (bits, 'BE' if be else 'LE')
        items += [Sel('enum ' + fl),
                  Sel('impl CtrFlavor for ' + fl, members=flavor_members(cs, ty, be), fns=flavor_fns(cs, ty, be),
                      rest_props=P)]
    return Mod(name, 'ctr/src/flavors/%s.rs' % name, uses='use super::ctr_flavors::CtrFlavor;', items=items, text_before=clone)


FQ = '<F as CtrFlavor<%s>>'


def core_mod():
    fc = FQ % 'C::BlockSize'     # in impls on CtrCore<C, F>
    fb = FQ % 'B::BlockSize'     # in impls on Backend<F, B>
    kabs_core = 'KAbs { base: %s::base(&self.ctr_nonce), pos: %s::pos(&self.ctr_nonce) }' % (fc, fc)
    kstep_core = 'ctr_ks(self.cipher.enc_fn(), %s::wbytes(), %s::big_endian())' % (fc, fc)
    PB = P + ('C12',)
    frame = [('frame_state', ('C04', 'C07'), 'mut_ref_future(final(self).ctr_nonce) == mut_ref_future(old(self).ctr_nonce)'),
             ('frame_cipher', ('C04', 'C07'), 'final(self).backend == old(self).backend')]
    items = [
        Sel('struct CtrCore'),
        Sel('impl BlockSizeUser for CtrCore'),
        Sel('struct Closure', inside='process_with_backend'),
        Sel('impl BlockSizeUser for Closure', inside='process_with_backend'),
        Sel('impl BlockCipherEncClosure for Closure', inside='process_with_backend', members='''
    open spec fn pre_c(&self) -> bool { self.f.kpre() }
    #[verifier::prophetic]
    open spec fn post_c(&self, enc: spec_fn(Blk) -> Blk) -> bool {
        self.f.kpost(ctr_ks(enc, %(f)s::wbytes(), %(f)s::big_endian()),
            KAbs { base: %(f)s::base(&*self.ctr_nonce), pos: %(f)s::pos(&*self.ctr_nonce) },
            KAbs { base: %(f)s::base(&mut_ref_future(self.ctr_nonce)), pos: %(f)s::pos(&mut_ref_future(self.ctr_nonce)) })
        && ks_reach(ctr_ks(enc, %(f)s::wbytes(), %(f)s::big_endian()),
            KAbs { base: %(f)s::base(&*self.ctr_nonce), pos: %(f)s::pos(&*self.ctr_nonce) },
            KAbs { base: %(f)s::base(&mut_ref_future(self.ctr_nonce)), pos: %(f)s::pos(&mut_ref_future(self.ctr_nonce)) })
    }
''' % {'f': FQ % 'BS'}, fns={'call': FnC(props=('C07', 'C04'), inherits=True, note='plumbing')}),
        Sel('impl StreamCipherCore for CtrCore', members='''
    open spec fn kabs(&self) -> KAbs { %s }
    open spec fn kstep(&self) -> KStep { %s }
    open spec fn klimit(&self) -> Option<int> { Some(pow256(%s::wbytes()) - 1 - %s::pos(&self.ctr_nonce)) }
    open spec fn korigin(&self) -> KAbs { KAbs { base: %s::base(&self.ctr_nonce), pos: 0 } }
''' % (kabs_core, kstep_core, fc, fc, fc), fns={
            'remaining_blocks': FnC(props=('C10', 'C11', 'C13'), inherits=True),
            'process_with_backend': FnC(props=('C07', 'C04', 'C10'), inherits=True, note='plumbing', stmts={'end': '''
        proof { ctr_reach_base(old(self).cipher.enc_fn(), %s::wbytes(), %s::big_endian(), old(self).kabs(), self.kabs()); }
''' % (fc, fc)})}),
        Sel('impl StreamCipherSeekCore for CtrCore', members='''
    open spec fn counter_val(c: F::Backend) -> int { %(f)s::backend_val(c) }
    proof fn lemma_counter_val(c: F::Backend) { %(f)s::lemma_backend_val(c); }
    open spec fn block_pos(&self) -> int { %(f)s::pos(&self.ctr_nonce) }
    open spec fn pos_modulus() -> int { pow256(%(f)s::wbytes()) }
    proof fn lemma_pos_coherent(&self) {
        %(f)s::lemma_pos_range(&self.ctr_nonce);
        mod_add_wrap(0, %(f)s::pos(&self.ctr_nonce), pow256(%(f)s::wbytes()));
    }
    proof fn lemma_step_law(&self) {}
''' % {'f': fc}, fns={
            'get_block_pos': FnC(props=('C10',), inherits=True),
            'set_block_pos': FnC(props=('C10',), inherits=True, ensures=[('frame_cipher', ('C10',), 'final(self).cipher == old(self).cipher')]),
        }),
        Sel('impl InnerUser for CtrCore'),
        Sel('impl IvSizeUser for CtrCore'),
        Sel('impl InnerIvInit for CtrCore', fns={'inner_iv_init': FnC(ret='r', props=('C04', 'C09'), ensures=[
            ('base', ('C04', 'C09'), '%s::base(&r.ctr_nonce) == iv@ && %s::pos(&r.ctr_nonce) == 0' % (fc, fc)),
            ('cipher', ('C09', 'C14'), 'r.cipher == cipher')])}),
        Sel('impl IvState for CtrCore', fns={'iv_state': FnC(ret='r', props=('C09', 'C04'), ensures=[
            ('state', ('C09',), 'r@ == ctr_layout(%s::base(&self.ctr_nonce), %s::pos(&self.ctr_nonce), %s::wbytes(), %s::big_endian())' % (fc, fc, fc, fc))],
            stmts={'0': 'proof { <C::BlockSize as BlockSizes>::block_size_bounds(); }'})}),
        Sel('impl AlgorithmName for CtrCore', members=K.alg_name_members, fns={'write_alg_name': K.fmt_fn()}),
        Sel('impl Clone for CtrCore', fns={'clone': FnC(ret='r', props=('C16',), ensures=[
            ('copy', ('C16',), 'cloned(self.ctr_nonce, r.ctr_nonce) && cloned(self.cipher, r.cipher)')])}),
        Sel('impl Debug for CtrCore', fns={'fmt': K.fmt_fn()}),
        Sel('struct Backend'),
        Sel('impl BlockSizeUser for Backend'),
        Sel('impl ParBlocksSizeUser for Backend'),
        Sel('impl StreamCipherBackend for Backend', rest_props=PB, members='''
    open spec fn kabs(&self) -> KAbs { KAbs { base: %(f)s::base(&*self.ctr_nonce), pos: %(f)s::pos(&*self.ctr_nonce) } }
    #[verifier::prophetic]
    open spec fn kabs_fut(&self) -> KAbs { KAbs { base: %(f)s::base(&mut_ref_future(self.ctr_nonce)), pos: %(f)s::pos(&mut_ref_future(self.ctr_nonce)) } }
    open spec fn kstep(&self) -> KStep { ctr_ks(self.backend.enc_fn(), %(f)s::wbytes(), %(f)s::big_endian()) }
''' % {'f': fb}, fns={
            'gen_ks_block': FnC(props=PB, inherits=True, ensures=[
                ('out', PB, 'final(block)@ == old(self).backend.enc_fn()(ctr_layout(%(f)s::base(&*old(self).ctr_nonce), %(f)s::pos(&*old(self).ctr_nonce), %(f)s::wbytes(), %(f)s::big_endian()))' % {'f': fb}),
                ('advance', PB + ('C09', 'C10', 'C11'), '%(f)s::pos(&*final(self).ctr_nonce) == (%(f)s::pos(&*old(self).ctr_nonce) + 1) %% pow256(%(f)s::wbytes())' % {'f': fb}),
                ('base_kept', PB + ('C10',), '%(f)s::base(&*final(self).ctr_nonce) == %(f)s::base(&*old(self).ctr_nonce)' % {'f': fb}),
            ] + frame, stmts={'0': 'proof { <B::BlockSize as BlockSizes>::block_size_bounds(); }'}),
            'gen_par_ks_blocks': FnC(props=PB, inherits=True, attrs=['#[verifier::loop_isolation(false)]'], ensures=[
                ('out', PB, '''forall |j: int| 0 <= j < B::ParBlocksSize::USIZE ==>
                (#[trigger] final(blocks)@[j])@ == old(self).backend.enc_fn()(ctr_layout(%(f)s::base(&*old(self).ctr_nonce),
                    (%(f)s::pos(&*old(self).ctr_nonce) + j) %% pow256(%(f)s::wbytes()), %(f)s::wbytes(), %(f)s::big_endian()))''' % {'f': fb}),
                ('advance', PB + ('C09', 'C10', 'C11'), '%(f)s::pos(&*final(self).ctr_nonce) == (%(f)s::pos(&*old(self).ctr_nonce) + B::ParBlocksSize::USIZE) %% pow256(%(f)s::wbytes())' % {'f': fb}),
                ('base_kept', PB + ('C10',), '%(f)s::base(&*final(self).ctr_nonce) == %(f)s::base(&*old(self).ctr_nonce)' % {'f': fb}),
            ] + frame, iters={0: 'it'}, stmts={'0': '''
        broadcast use Array::axiom_len;
        proof { <B::BlockSize as BlockSizes>::block_size_bounds(); %(f)s::lemma_pos_range(&*self.ctr_nonce); }
        let ghost p0 = %(f)s::pos(&*self.ctr_nonce);
        let ghost base0 = %(f)s::base(&*self.ctr_nonce);
        let ghost m = pow256(%(f)s::wbytes());
        let ghost w = B::ParBlocksSize::USIZE as int;
        let ghost wb = %(f)s::wbytes();
        let ghost be = %(f)s::big_endian();
        proof { mod_add_wrap(p0, 0, m); }
''' % {'f': fb}, '1.0.0': 'proof { mod_succ(p0 + it.index@, m); }', '2': '''
        assert(forall |j: int| 0 <= j < w ==> (#[trigger] tmp@[j])@ == ctr_layout(base0, (p0 + j) % m, wb, be));
''', 'end': '''
        proof {
            let ys = views(final(blocks)@);
            let states = |i: int| KAbs { base: base0, pos: (p0 + i) % m };
            assert(states(0) == old(self).kabs());
            assert forall |i: int| 0 <= i < w implies #[trigger] old(self).kstep()(states(i)) == (states(i + 1), ys[i]) by {
                mod_succ(p0 + i, m);
                assert(ys[i] == final(blocks)@[i]@);
            }
            ks_run_by_states(old(self).kstep(), old(self).kabs(), w as nat, states, ys);
        }
'''}, loops={0: '''
            invariant
                it.history@.len() == it.index@, it.index@ <= w,
                it.history@ + aim_remaining(&it.iter) == aim_remaining(&it.snapshot@),
                aim_remaining(&it.snapshot@).len() == w,
                m > 0, 0 <= p0 < m,
                %(f)s::pos(&*self.ctr_nonce) == (p0 + it.index@) %% m,
                %(f)s::base(&*self.ctr_nonce) == base0,
                mut_ref_future(self.ctr_nonce) == mut_ref_future(old(self).ctr_nonce),
                self.backend == old(self).backend,
                forall |j: int| 0 <= j < it.index@ ==> (#[trigger] fut_of(it.history@[j]))@ == ctr_layout(base0, (p0 + j) %% m, wb, be),
                forall |j: int| 0 <= j < it.index@ ==> fut_of(#[trigger] aim_remaining(&it.snapshot@)[j])@ == ctr_layout(base0, (p0 + j) %% m, wb, be),
''' % {'f': fb}, }, ),
        }),
    ]
    # the loop body needs mod_succ for the position it just advanced
    return Mod('ctr_core', 'ctr/src/ctr_core.rs', uses='use super::ctr_flavors::CtrFlavor;', items=items)


def unit():
    flavors = Mod('ctr_flavors', 'ctr/src/flavors.rs', items=[
        Sel('trait CtrFlavor', members=TRAIT_MEMBERS, fns=trait_fns())])
    # the public byte-level types: the dependency's buffering wrapper (contracts in unit `deps`) over CtrCore
    lib = Mod('ctr_lib', 'ctr/src/lib.rs', uses='''use super::ctr_core::CtrCore;
pub mod flavors { pub use super::super::ctr32::*; pub use super::super::ctr64::*; pub use super::super::ctr128::*; }''',
              items=[Sel('type Ctr128BE'), Sel('type Ctr128LE'), Sel('type Ctr64BE'), Sel('type Ctr64LE'), Sel('type Ctr32BE'), Sel('type Ctr32LE')])
    mods = [flavors, flavor_mod(32, 4, 'u32'), flavor_mod(64, 8, 'u64'), flavor_mod(128, 16, 'u128'), core_mod(), lib]
    return Unit('ctr', prelude=K.PRELUDE_BLOCK, spec=['steps.rs', 'ctr.rs', 'wrapper_defs.rs'], mods=K.DEPS(wrapper=True) + mods)
