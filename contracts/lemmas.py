"""The pure lemma library: statements over the transducer specs, proved once by Verus."""
from vf.unit import Unit, Lemma
from contracts import common as K

LEMMAS = [
    # prelude (generic fold)
    Lemma('run_one', ('C07',), 'run over one block is one step'),
    Lemma('run_len', ('C01', 'C07'), '|run(step,s,xs).out| == |xs| (length preservation)'),
    Lemma('run_concat', ('C07', 'C08'), 'run(step,s,a++b) == run(step,s,a) then run(step,_,b): any batching gives the same output and state'),
    Lemma('run_by_states', ('C07',), 'a parallel body that matches the per-index states computes run'),
    Lemma('ks_run_concat', ('C07', 'C08'), 'keystream generation is independent of how many blocks are requested per call'),
    Lemma('ks_run_by_states', ('C07',), 'parallel keystream bodies compute ks_run'),
    Lemma('ks_run_len', ('C01',), 'n keystream blocks are produced for n requested'),
    Lemma('xor_cancel', ('C01',), '(a^b)^b == a'),
    Lemma('xor_comm', ('C02',), 'a^b == b^a'),
    Lemma('le_val_of_bytes', ('C04', 'C06', 'C09'), 'le_val(le_bytes(x,n)) == x'),
    Lemma('le_bytes_of_val', ('C04', 'C06'), 'le_bytes(le_val(b),|b|) == b'),
    Lemma('be_val_of_bytes', ('C04',), 'be_val(be_bytes(x,n)) == x'),
    Lemma('be_bytes_of_val', ('C04',), 'be_bytes(be_val(b),|b|) == b'),
    Lemma('mod_add_wrap', ('C04', 'C11'), 'wrapping addition is addition mod m'),
    Lemma('mod_sub_wrap', ('C10', 'C11'), 'wrapping subtraction is subtraction mod m'),
    Lemma('mod_succ', ('C04', 'C06'), '((x mod m)+1) mod m == (x+1) mod m'),
    # spec/lemmas.rs
    Lemma('lemma_roundtrip', ('C01', 'C09'), 'step-wise inverse transducers are inverse on whole messages and end in equal states'),
    Lemma('lemma_cbc_roundtrip', ('C01', 'C09'), 'CBC: dec(enc(m)) == m, equal final states (hyp. D∘E = id)'),
    Lemma('lemma_pcbc_roundtrip', ('C01', 'C09'), 'PCBC round trip'),
    Lemma('lemma_ige_roundtrip', ('C01', 'C09'), 'IGE round trip'),
    Lemma('lemma_cfb_roundtrip', ('C01', 'C09'), 'CFB round trip (E only)'),
    Lemma('lemma_cfb8_roundtrip', ('C01', 'C09'), 'CFB-8 round trip (E only)'),
    Lemma('lemma_ofb_roundtrip', ('C01', 'C09'), 'OFB round trip'),
    Lemma('lemma_keystream_involution', ('C01', 'C06'), 'CTR / BelT-CTR / OFB-stream: applying the keystream twice is the identity'),
    Lemma('lemma_run_split', ('C07', 'C08'), 'any cut point gives the same result'),
    Lemma('lemma_run_prefix', ('C08',), 'one-shot CFB / CFB-8 are prefix preserving'),
    Lemma('lemma_run_causal', ('C15',), 'no output block depends on later input'),
    Lemma('lemma_cfb_buf_concat', ('C08',), 'buffered CFB: any byte split gives the same bytes and state'),
    Lemma('lemma_cfb_resume', ('C09',), 'CFB: init(export(state)) == state (hyp. E∘D = id)'),
    Lemma('lemma_cfb_public_state', ('C09',), 'CFB: exported value is the last ciphertext block (hyp. D∘E = id)'),
    Lemma('lemma_ctr_layout_resume', ('C09', 'C04'), 'CTR: layout(layout(IV,i),j) == layout(IV,i+j): the exported counter block resumes the keystream'),
    Lemma('lemma_belt_resume', ('C09',), 'BelT-CTR: init(export(s)) == s'),
    Lemma('lemma_ofb_block_is_stream', ('C14',), 'OFB block step == XOR with the keystream-core step'),
    Lemma('lemma_cbc_cs_whole_blocks', ('C14', 'C05'), 'CBC-CS1/CS2 on k*b bytes == plain CBC; CS3 == plain CBC with the last two blocks exchanged; one block: plain'),
    Lemma('lemma_ecb_cs_whole_blocks', ('C14', 'C05'), 'ECB-CS1/CS2 on k*b bytes == raw block encryption; CS3 with the exchange'),
    Lemma('lemma_cfb_buf_block', ('C14', 'C08'), 'buffered CFB over one whole block from a block boundary == the block-level CFB step (output and next keystream)'),
    Lemma('lemma_cfb_buf_prefix', ('C14', 'C08'), 'induction behind lemma_cfb_buf_block'),
    Lemma('lemma_cbc_cs_tail_inverts', ('C01', 'C05'), 'CBC-CSk: un-stealing the last two pieces returns the last two plaintext pieces (D∘E = id)'),
    Lemma('lemma_ecb_cs_tail_inverts', ('C01', 'C05'), 'ECB-CSk: un-stealing the last two pieces returns the last two plaintext pieces'),
    Lemma('lemma_xor_zero_pad', ('C05',), 'zero padding XOR algebra'),
    Lemma('chunking_unique', ('C05',), 'a message has exactly one cut into full blocks and a shorter tail'),
    Lemma('flatg_unique', ('C05',), 'uniqueness of block decomposition'),
    Lemma('flatg_cbc_dec', ('C05', 'C07'), 'chunk-wise CBC decryption == flat CBC decryption (repo-side parallel chunking)'),
    Lemma('flatg_rel', ('C05', 'C07'), 'chunk-wise ECB == flat ECB'),
    Lemma('cbc_c_is_run', ('C05',), 'index form of the CBC chain == run(cbc_enc_step)'),
    Lemma('cbc_p_is_run', ('C05',), 'index form of CBC decryption == run(cbc_dec_step)'),
    Lemma('lemma_cbc_dec_propagation', ('C15',), 'CBC: same bits flipped in block j+1, re-synchronised after it'),
    Lemma('lemma_cfb_dec_propagation', ('C15',), 'CFB: same bits flipped in block j, re-synchronised after j+1'),
    Lemma('lemma_keystream_flip', ('C15',), 'CTR/OFB/BelT: only the same bit positions flip'),
    Lemma('lemma_pcbc_dec_state_diff', ('C15',), 'PCBC: the changed block changes the state every later block uses'),
    Lemma('lemma_cfb8_register_shift', ('C15',), 'CFB-8 register shifts the altered byte out after b bytes'),
]


def unit():
    return Unit('lemmas', prelude=K.PRELUDE_BLOCK, spec=['steps.rs', 'ctr.rs', 'cts.rs', 'lemmas.rs'], mods=K.DEPS(), lemmas=LEMMAS)
