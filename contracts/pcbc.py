"""Contracts for the `pcbc` crate."""
from vf.extract import FnC, Sel, Mod
from vf.unit import Unit, Lemma
from contracts import common as K

P_REC = ('C02', 'C01', 'C07', 'C12', 'C15', 'C16', 'C09')

COMM = '''
        proof { broadcast use Array::axiom_len; xor_comm(x0, block.out_fut()@); }
'''


def unit():
    lib = Mod('pcbc_lib', 'pcbc/src/lib.rs', items=[Sel('fn xor', fns={'xor': K.xor_fn(props=P_REC)})])
    dec = K.std_block_mode_mod(
        'pcbc', 'dec', 'pcbc/src/decrypt.rs', 'pcbc_dec_step', uses='use super::pcbc_lib::xor;',
        init_fns=K.init_plain(('C09', 'C02')), state_fns=K.state_plain(), props_rec=P_REC,
        backend_fns={'decrypt_block': FnC(props=P_REC, inherits=True, ensures=[
            ('out', P_REC, 'block.out_fut()@ == xor_seq(old(self).cipher_backend.dec_fn()(block.in_val()@), old(self).iv@)'),
            ('state', P_REC + ('C09', 'C15'), 'final(self).iv@ == xor_seq(block.in_val()@, block.out_fut()@)'),
        ] + K.frame_iv_backend(), stmts={'0': 'let ghost x0 = block.in_val()@;', 'end': COMM + K.BACKEND_PROOF_1})})
    enc = K.std_block_mode_mod(
        'pcbc', 'enc', 'pcbc/src/encrypt.rs', 'pcbc_enc_step', uses='use super::pcbc_lib::xor;', cipher_field='backend',
        init_fns=K.init_plain(('C09', 'C02')), state_fns=K.state_plain(), props_rec=P_REC,
        backend_fns={'encrypt_block': FnC(props=P_REC, inherits=True, ensures=[
            ('out', P_REC, 'block.out_fut()@ == old(self).backend.enc_fn()(xor_seq(block.in_val()@, old(self).iv@))'),
            ('state', P_REC + ('C09',), 'final(self).iv@ == xor_seq(block.in_val()@, block.out_fut()@)'),
        ] + K.frame_iv_backend('backend'), stmts={'0': 'let ghost x0 = block.in_val()@;', 'end': K.BACKEND_PROOF_1})})
    return Unit('pcbc', prelude=K.PRELUDE_BLOCK, spec=['steps.rs'], mods=K.DEPS() + [lib, dec, enc])
