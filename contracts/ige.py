"""Contracts for the `ige` crate."""
from vf.extract import FnC, Sel, Mod
from vf.unit import Unit, Lemma
from contracts import common as K

P_REC = ('C02', 'C01', 'C07', 'C12', 'C15', 'C16', 'C09')
XY = ('x', 'y')

INIT = {'inner_iv_init': FnC(ret='r', props=('C09', 'C02', 'C13'), ensures=[
    ('iv_split', ('C09', 'C02'), 'r.y@ == iv@.take(C::BlockSize::USIZE as int) && r.x@ == iv@.skip(C::BlockSize::USIZE as int)'),
    ('cipher', ('C09', 'C14'), 'r.cipher == cipher')],
    stmts={'0': 'proof { axiom_sum::<C::BlockSize, C::BlockSize>(); } broadcast use Array::axiom_len;'})}
STATE = {'iv_state': FnC(ret='r', props=('C09',), ensures=[('state', ('C09',), 'r@ == self.y@ + self.x@')])}


def unit():
    lib = Mod('ige_lib', 'ige/src/lib.rs', items=[
        Sel('type BlockSize'), Sel('type IgeIvSize'), Sel('fn xor', fns={'xor': K.xor_fn(props=P_REC)})])
    uses = 'use super::ige_lib::{xor, IgeIvSize}; use core::ops::Add;'
    dec = K.std_block_mode_mod(
        'ige', 'dec', 'ige/src/decrypt.rs', 'ige_dec_step', uses=uses, iv_fields=XY,
        init_fns=INIT, state_fns=STATE, props_rec=P_REC,
        backend_fns={'decrypt_block': FnC(props=P_REC, inherits=True, ensures=[
            ('out', P_REC, 'block.out_fut()@ == xor_seq(old(self).cipher_backend.dec_fn()(xor_seq(block.in_val()@, old(self).x@)), old(self).y@)'),
            ('state', P_REC + ('C09', 'C15'), 'final(self).x@ == block.out_fut()@ && final(self).y@ == block.in_val()@'),
        ] + K.frame_iv_backend(iv_fields=XY), stmts={'0': 'let ghost x0 = block.in_val()@;', 'end': K.BACKEND_PROOF_1})})
    enc = K.std_block_mode_mod(
        'ige', 'enc', 'ige/src/encrypt.rs', 'ige_enc_step', uses=uses, iv_fields=XY,
        init_fns=INIT, state_fns=STATE, props_rec=P_REC,
        backend_fns={'encrypt_block': FnC(props=P_REC, inherits=True, ensures=[
            ('out', P_REC, 'block.out_fut()@ == xor_seq(old(self).cipher_backend.enc_fn()(xor_seq(block.in_val()@, old(self).y@)), old(self).x@)'),
            ('state', P_REC + ('C09',), 'final(self).x@ == block.in_val()@ && final(self).y@ == block.out_fut()@'),
        ] + K.frame_iv_backend(iv_fields=XY), stmts={'0': 'let ghost x0 = block.in_val()@;', 'end': K.BACKEND_PROOF_1})})
    return Unit('ige', prelude=K.PRELUDE_BLOCK, spec=['steps.rs'], mods=K.DEPS() + [lib, dec, enc])
