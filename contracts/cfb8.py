"""Contracts for the `cfb8` crate."""
from vf.extract import FnC, Sel, Mod
from vf.unit import Unit, Lemma
from contracts import common as K

P_REC = ('C03', 'C01', 'C07', 'C12', 'C08', 'C15', 'C16', 'C09')

SHIFT_INV = '''
            invariant
                n == BS::USIZE, n >= 1, self.iv@.len() == n, iv0.len() == n, 0 <= i <= n - 1,
                forall |j: int| 0 <= j < i ==> #[trigger] self.iv@[j] == iv0[j + 1],
                forall |j: int| i <= j < n ==> #[trigger] self.iv@[j] == iv0[j],
                mut_ref_future(self.iv) == mut_ref_future(old(self).iv),
                self.backend == old(self).backend,
'''

PRE = '''
        broadcast use Array::axiom_len, axiom_u1;
        proof { BS::block_size_bounds(); }
        let ghost x0 = block.in_val()@;
        let ghost iv0 = self.iv@;
        let ghost e = self.backend.enc_fn();
'''

END = '''
        proof {
            assert(self.iv@ =~= iv0.skip(1).push(%s));
            run_one(old(self).step(), old(self).abs(), x0);
            assert(block.out_fut()@ =~= seq![x0[0] ^ e(iv0)[0]]);
            assert(self.abs() =~= old(self).step()(old(self).abs(), x0).0);
        }
'''


def fns(enc):
    name = 'encrypt_block' if enc else 'decrypt_block'
    # the ciphertext byte: output when encrypting, input when decrypting
    stm = {'0': PRE, 'end': END % ('block.out_fut()@[0]' if enc else 'x0[0]')}
    return {name: FnC(props=P_REC, inherits=True, ensures=[
        ('out', P_REC, 'block.out_fut()@[0] == block.in_val()@[0] ^ old(self).backend.enc_fn()(old(self).iv@)[0]'),
        ('state', P_REC + ('C09', 'C15'), 'final(self).iv@ == old(self).iv@.skip(1).push(%s)' % (
            'block.out_fut()@[0]' if enc else 'block.in_val()@[0]')),
    ] + K.frame_iv_backend('backend'), stmts=stm, loops={0: SHIFT_INV})}


def unit():
    dec = K.std_block_mode_mod(
        'cfb8', 'dec', 'cfb8/src/decrypt.rs', 'cfb8_dec_step', cipher_kind='enc', cipher_field='backend',
        init_fns=K.init_plain(('C09', 'C03')), state_fns=K.state_plain(), props_rec=P_REC, backend_fns=fns(False), extra_items=[Sel('impl AsyncStreamCipher for Decryptor')])
    enc = K.std_block_mode_mod(
        'cfb8', 'enc', 'cfb8/src/encrypt.rs', 'cfb8_enc_step', cipher_field='backend',
        init_fns=K.init_plain(('C09', 'C03')), state_fns=K.state_plain(), props_rec=P_REC, backend_fns=fns(True), extra_items=[Sel('impl AsyncStreamCipher for Encryptor')])
    return Unit('cfb8', prelude=K.PRELUDE_BLOCK, spec=['steps.rs', 'wrapper_defs.rs'], mods=K.DEPS(wrapper=True) + [dec, enc])
