"""Contracts on the pinned `cipher` crate's block-mode traits and drivers (extracted from the cargo
registry at the version of /repo/Cargo.lock): BlockMode{Enc,Dec}Backend with their default methods,
the rank-2 closure traits, BlockMode{Encrypt,Decrypt} with their default methods, and the BlockCtx /
BlocksCtx drivers of src/block/ctx.rs.  These were assumed contracts (D1, D2) in the design; here they
are verified text.  The cipher side (BlockCipher*Backend, BlockCipher{Encrypt,Decrypt}) stays assumed."""
from vf.extract import FnC, Sel, Mod

P = ('C07', 'C01', 'C02', 'C03', 'C12')

BACKEND_MEMBERS = '''
    // abstract chaining state, its final value behind the &mut fields, and the transducer step
    spec fn abs(&self) -> Abs;
    #[verifier::prophetic]
    spec fn abs_fut(&self) -> Abs;
    spec fn step(&self) -> Step;
'''
FRAME = ['final(self).step() == old(self).step()', 'final(self).abs_fut() == old(self).abs_fut()']


def frame_clauses():
    return [('step_kept', P, FRAME[0]), ('state_ref_kept', P, FRAME[1])]


def backend_trait(enc):
    v = 'encrypt' if enc else 'decrypt'
    par_pre = '''
        broadcast use Array::axiom_len;
        let ghost step0 = self.step();
        let ghost abs0 = self.abs();
        let ghost in0 = blocks.in_val()@;
        let ghost b0 = blocks;
'''
    par_inv = '''
            invariant
                self.step() == step0, self.abs_fut() == old(self).abs_fut(),
                in0.len() == Self::ParBlocksSize::USIZE, blocks.out@.len() == in0.len(),
                mut_ref_future(blocks.out) == mut_ref_future(b0.out), blocks.inp == b0.inp, blocks.aliased == b0.aliased,
                forall |j: int| i <= j < in0.len() ==> #[trigger] blocks.in_val()@[j] == in0[j],
                (self.abs(), views(blocks.out@.take(i as int))) == run(step0, abs0, views(in0.take(i as int))),
'''
    par_body = '''
            let ghost o1 = blocks.out@;
'''
    par_body_end = '''
            proof {
                let xs = views(in0.take(i as int));
                run_concat(step0, abs0, xs, seq![in0[i as int]@]);
                assert(views(in0.take(i + 1)) =~= xs + seq![in0[i as int]@]);
                assert(views(blocks.out@.take(i + 1)) =~= views(o1.take(i as int)) + seq![blocks.out@[i as int]@]);
            }
'''
    par_end = '''
        proof {
            assert(in0.take(in0.len() as int) =~= in0);
            assert(blocks.out@.take(in0.len() as int) =~= blocks.out@);
        }
'''
    tail_pre = '''
        let ghost step0 = self.step();
        let ghost abs0 = self.abs();
        let ghost n = blocks.out_cur().len();
        let ghost gb = blocks;
        let ghost insv = aviews(blocks.in_val());
'''
    tail_inv = '''
            invariant
                it.history@.len() == it.index@, it.index@ <= n,
                it.history@ + iob_remaining(&it.iter) == iob_remaining(&it.snapshot@),
                iob_remaining(&it.snapshot@).len() == n,
                self.step() == step0, self.abs_fut() == old(self).abs_fut(),
                (self.abs(), aviews(gb.out_fut()).take(it.index@ as int)) == run(step0, abs0, insv.take(it.index@ as int)),
'''
    tail_body = '''
            let ghost k = it.index@ as int;
            let ghost ob = block;
'''
    tail_body_end = '''
            proof {
                run_concat(step0, abs0, insv.take(k), seq![ob.in_val()@]);
                assert(insv.take(k + 1) =~= insv.take(k) + seq![ob.in_val()@]);
                assert(aviews(gb.out_fut()).take(k + 1) =~= aviews(gb.out_fut()).take(k) + seq![ob.out_fut()@]);
            }
'''
    tail_end = '''
        proof {
            assert(insv.take(n as int) =~= insv);
            assert(aviews(gb.out_fut()).take(n as int) =~= aviews(gb.out_fut()));
        }
'''
    fns = {
        v + '_block': FnC(props=P, ensures=frame_clauses() + [
            ('one_step', P, '(final(self).abs(), seq![block.out_fut()@]) == run(old(self).step(), old(self).abs(), seq![block.in_val()@])')]),
        # call-site derived: BlocksCtx::call takes the parallel path only if ParBlocksSize > 1
        v + '_par_blocks': FnC(props=P, requires=['Self::ParBlocksSize::USIZE > 1'], ensures=frame_clauses() + [
            ('run', P, '(final(self).abs(), views(blocks.out_fut()@)) == run(old(self).step(), old(self).abs(), views(blocks.in_val()@))')],
            stmts={'0': par_pre, '0.0.0': par_body, '0.0.end': par_body_end, 'end': par_end}, loops={0: par_inv}),
        # the `assert!(blocks.len() < ParBlocksSize)` of the dependency is an obligation at its call site (BlocksCtx)
        v + '_tail_blocks': FnC(props=P, attrs=['#[verifier::loop_isolation(false)]'],
                                requires=['blocks.wf()', 'blocks.out_cur().len() < Self::ParBlocksSize::USIZE'],
                                ensures=frame_clauses() + [
            ('run', P, '(final(self).abs(), aviews(blocks.out_fut())) == run(old(self).step(), old(self).abs(), aviews(blocks.in_val()))'),
            ('len', P, 'blocks.out_fut().len() == blocks.out_cur().len()')],
            iters={0: 'it'}, stmts={'0': tail_pre, '2.0.0': tail_body, '2.0.end': tail_body_end, 'end': tail_end}, loops={0: tail_inv}),
        v + '_block_inplace': FnC(props=P, ensures=frame_clauses() + [
            ('one_step', P, '(final(self).abs(), seq![final(block)@]) == run(old(self).step(), old(self).abs(), seq![old(block)@])')]),
        v + '_par_blocks_inplace': FnC(props=P, requires=['Self::ParBlocksSize::USIZE > 1'], ensures=frame_clauses() + [
            ('run', P, '(final(self).abs(), views(final(blocks)@)) == run(old(self).step(), old(self).abs(), views(old(blocks)@))')]),
        v + '_tail_blocks_inplace': FnC(props=P, requires=['old(blocks)@.len() < Self::ParBlocksSize::USIZE'], ensures=frame_clauses() + [
            ('run', P, '(final(self).abs(), aviews(final(blocks)@)) == run(old(self).step(), old(self).abs(), aviews(old(blocks)@))')]),
    }
    return Sel('trait BlockMode%sBackend' % ('Enc' if enc else 'Dec'), members=BACKEND_MEMBERS, fns=fns)


def closure_trait(enc):
    e = 'Enc' if enc else 'Dec'
    return Sel('trait BlockMode%sClosure' % e, members='''
    // what the closure needs from its caller (well-formed buffers) and what it guarantees about the backend it ran on
    spec fn pre(&self) -> bool;
    #[verifier::prophetic]
    spec fn post(&self, step: Step, a0: Abs, a1: Abs) -> bool;
''', fns={'call': FnC(props=P, requires=['self.pre()'], ensures=[
        ('post', P, 'self.post(old(backend).step(), old(backend).abs(), final(backend).abs())'),
        ('step_kept', P, 'final(backend).step() == old(backend).step()'),
        ('state_ref_kept', P, 'final(backend).abs_fut() == old(backend).abs_fut()')])})


def mode_trait(enc):
    v = 'encrypt' if enc else 'decrypt'
    e = 'Enc' if enc else 'Dec'
    R1 = '(final(self).abs(), seq![%s]) == run(old(self).step(), old(self).abs(), seq![%s])'
    fns = {
        v + '_with_backend': FnC(props=P, requires=['f.pre()'], ensures=[
            ('post', P, 'f.post(old(self).step(), old(self).abs(), final(self).abs())'),
            ('step_kept', P, 'final(self).step() == old(self).step()')]),
        v + '_block_inout': FnC(props=P, ensures=[('run', P, R1 % ('block.out_fut()@', 'block.in_val()@')), ('step_kept', P, 'final(self).step() == old(self).step()')]),
        v + '_blocks_inout': FnC(props=P, requires=['blocks.wf()'], ensures=[
            ('run', P, '(final(self).abs(), aviews(blocks.out_fut())) == run(old(self).step(), old(self).abs(), aviews(blocks.in_val()))'),
            ('step_kept', P, 'final(self).step() == old(self).step()')]),
        v + '_block': FnC(props=P, ensures=[('run', P, R1 % ('final(block)@', 'old(block)@')), ('step_kept', P, 'final(self).step() == old(self).step()')]),
        v + '_block_b2b': FnC(props=P, ensures=[('run', P, R1 % ('final(out_block)@', 'in_block@')), ('step_kept', P, 'final(self).step() == old(self).step()')]),
        v + '_blocks': FnC(props=P, ensures=[
            ('run', P, '(final(self).abs(), aviews(final(blocks)@)) == run(old(self).step(), old(self).abs(), aviews(old(blocks)@))'),
            ('step_kept', P, 'final(self).step() == old(self).step()')]),
        v + '_blocks_b2b': FnC(ret='r', external_body=True, props=P, kani=('*_b2b',), ensures=[
            ('reject_unequal', ('C13',), 'in_blocks@.len() != old(out_blocks)@.len() ==> r is Err && final(out_blocks)@ == old(out_blocks)@ && final(self).abs() == old(self).abs()'),
            ('run', P, 'in_blocks@.len() == old(out_blocks)@.len() ==> r is Ok && (final(self).abs(), aviews(final(out_blocks)@)) == run(old(self).step(), old(self).abs(), aviews(in_blocks@))'),
            ('step_kept', P, 'final(self).step() == old(self).step()')],
            note='`InOutBuf::new(..).map(|blocks| self.encrypt_with_backend(..))`: closure capturing &mut self is outside this Verus; assumed, exercised by the *_b2b harnesses'),
    }
    padded = ['%s_padded_inout' % v, '%s_padded' % v, '%s_padded_b2b' % v, '%s_padded_vec' % v]
    if not enc:
        BSZ = '<Self as BlockSizeUser>::BlockSize::USIZE'
        PD = ('C13', 'C01')
        UNP = '''exists |blocks: Seq<Blk>| flatg(blocks) == %(inp)s
                && (forall |i: int| 0 <= i < blocks.len() ==> (#[trigger] blocks[i]).len() == ''' + BSZ + ''')
                && (r is Ok <==> P::unpad_spec(run(self.step(), self.abs(), blocks).1) is Some)
                && (r is Ok ==> r->Ok_0@ == P::unpad_spec(run(self.step(), self.abs(), blocks).1)->Some_0)'''
        fns['decrypt_padded_inout'] = FnC(ret='r', props=PD, requires=['data.wf()'], ensures=[
            ('len', PD, 'data.out_fut().len() == data.out_cur().len()'),
            ('reject_partial', ('C13',), 'data.out_cur().len() % (' + BSZ + ' as nat) != 0 ==> r is Err && data.out_fut() == data.out_cur()'),
            ('unpad_of_decryption', PD, 'data.out_cur().len() % (' + BSZ + ' as nat) == 0 ==> ' + (UNP % {'inp': 'data.in_val()'}))],
            stmts={'0': '''
        broadcast use Array::axiom_len;
        proof { <Self as BlockSizeUser>::BlockSize::block_size_bounds(); }
        let ghost st0 = self.step();
        let ghost a0 = self.abs();
        let ghost d0 = data;
''', '2': '''
        let ghost gb = blocks;
        let ghost gt = tail;
''', '4': '''
        proof {
            assert(gt.out_cur() =~= Seq::<u8>::empty());
            assert(gt.in_val() =~= Seq::<u8>::empty());
            assert(d0.out_cur().len() % (''' + BSZ + ''' as nat) == 0);
            flatg_len(aviews(gb.out_fut()), ''' + BSZ + ''' as nat);
            flatg_len(aviews(gb.out_cur()), ''' + BSZ + ''' as nat);
            assert(gt.out_fut() =~= Seq::<u8>::empty());
        }
'''}, note='')
        fns['decrypt_padded'] = FnC(ret='r', props=PD, ensures=[
            ('len', PD, 'final(buf)@.len() == old(buf)@.len()'),
            ('reject_partial', ('C13',), 'old(buf)@.len() % (' + BSZ + ' as nat) != 0 ==> r is Err && final(buf)@ == old(buf)@'),
            ('unpad_of_decryption', PD, 'old(buf)@.len() % (' + BSZ + ' as nat) == 0 ==> ' + (UNP % {'inp': 'old(buf)@'}))])
        fns['decrypt_padded_b2b'] = FnC(ret='r', props=PD, ensures=[
            ('len', PD, 'final(out_buf)@.len() == old(out_buf)@.len()'),
            ('reject_small_output', ('C13',), 'old(out_buf)@.len() < in_buf@.len() ==> r is Err && final(out_buf)@ == old(out_buf)@'),
            ('reject_partial', ('C13',), 'in_buf@.len() % (' + BSZ + ' as nat) != 0 ==> r is Err && final(out_buf)@ == old(out_buf)@'),
            ('unpad_of_decryption', PD, 'old(out_buf)@.len() >= in_buf@.len() && in_buf@.len() % (' + BSZ + ' as nat) == 0 ==> ' + (UNP % {'inp': 'in_buf@'}))])
        padded = ['decrypt_padded_vec']
    return Sel('trait BlockMode%srypt' % ('Enc' if enc else 'Dec'), members='''
    spec fn abs(&self) -> Abs;
    spec fn step(&self) -> Step;
''', fns=fns, drop_fns=padded)


BLOCKS_PRE = '''
        broadcast use Array::axiom_len;
        let ghost gs = self.blocks;
        let ghost step0 = backend.step();
        let ghost a0 = backend.abs();
        let ghost w = B::ParBlocksSize::USIZE as int;
        let ghost insv = aviews(gs.in_val());
'''
BLOCKS_CHUNKED_A = '''
            let ghost pb = chunks;
            let ghost tb = tail;
            let ghost np = chunks.out_cur().len();
            let ghost cin = aviews(flatg(aviews(pb.in_val())));
            proof {
                assert(tail.out_cur().len() < w) by {
                    vstd::arithmetic::div_mod::lemma_mod_bound(gs.out_cur().len() as int, w);
                }
            }
'''
BLOCKS_LOOP_INV = '''
                invariant
                    it1.history@.len() == it1.index@, it1.index@ <= np,
                    it1.history@ + iob_remaining(&it1.iter) == iob_remaining(&it1.snapshot@),
                    iob_remaining(&it1.snapshot@).len() == np,
                    pb.out_cur().len() == np, w > 1,
                    backend.step() == step0, backend.abs_fut() == old(backend).abs_fut(),
                    (backend.abs(), aviews(flatg(aviews(pb.out_fut().take(it1.index@ as int))))) ==
                        run(step0, a0, aviews(flatg(aviews(pb.in_val().take(it1.index@ as int))))),
'''
BLOCKS_LOOP_BODY = '''
                let ghost k = it1.index@ as int;
                let ghost ck = chunk;
'''
BLOCKS_LOOP_BODY_END = '''
                proof {
                    let xi = aviews(flatg(aviews(pb.in_val().take(k))));
                    let xo = aviews(flatg(aviews(pb.out_fut().take(k))));
                    run_concat(step0, a0, xi, views(ck.in_val()@));
                    assert(pb.in_val().take(k + 1) =~= pb.in_val().take(k).push(pb.in_val()[k]));
                    assert(pb.out_fut().take(k + 1) =~= pb.out_fut().take(k).push(pb.out_fut()[k]));
                    assert(aviews(pb.in_val().take(k + 1)) =~= aviews(pb.in_val().take(k)).push(pb.in_val()[k]@));
                    assert(aviews(pb.out_fut().take(k + 1)) =~= aviews(pb.out_fut().take(k)).push(pb.out_fut()[k]@));
                    flatg_push(aviews(pb.in_val().take(k)), pb.in_val()[k]@);
                    flatg_push(aviews(pb.out_fut().take(k)), pb.out_fut()[k]@);
                    assert(aviews(flatg(aviews(pb.in_val().take(k + 1)))) =~= xi + views(ck.in_val()@));
                    assert(aviews(flatg(aviews(pb.out_fut().take(k + 1)))) =~= xo + views(ck.out_fut()@));
                }
'''
BLOCKS_CHUNKED_END = '''
            proof {
                assert(pb.in_val().take(np as int) =~= pb.in_val());
                assert(pb.out_fut().take(np as int) =~= pb.out_fut());
                let xi = aviews(flatg(aviews(pb.in_val())));
                let xo = aviews(flatg(aviews(pb.out_fut())));
                run_concat(step0, a0, xi, aviews(tb.in_val()));
                assert(insv =~= xi + aviews(tb.in_val()));
                assert(aviews(gs.out_fut()) =~= xo + aviews(tb.out_fut()));
                assert((backend.abs(), aviews(gs.out_fut())) == run(step0, a0, insv));
                flatg_len(aviews(pb.out_fut()), w as nat);
                flatg_len(aviews(pb.out_cur()), w as nat);
                assert(gs.out_fut().len() == gs.out_cur().len());
            }
'''
SINGLE_INV = '''
                invariant
                    it.history@.len() == it.index@, it.index@ <= n,
                    it.history@ + iob_remaining(&it.iter) == iob_remaining(&it.snapshot@),
                    iob_remaining(&it.snapshot@).len() == n,
                    backend.step() == step0, backend.abs_fut() == old(backend).abs_fut(),
                    (backend.abs(), aviews(gs.out_fut()).take(it.index@ as int)) == run(step0, a0, insv.take(it.index@ as int)),
'''
SINGLE_PRE = '''
            let ghost n = gs.out_cur().len();
'''
SINGLE_BODY = '''
                let ghost k = it.index@ as int;
                let ghost ob = block;
'''
SINGLE_BODY_END = '''
                proof {
                    run_concat(step0, a0, insv.take(k), seq![ob.in_val()@]);
                    assert(insv.take(k + 1) =~= insv.take(k) + seq![ob.in_val()@]);
                    assert(aviews(gs.out_fut()).take(k + 1) =~= aviews(gs.out_fut()).take(k) + seq![ob.out_fut()@]);
                }
'''
SINGLE_END = '''
            proof {
                assert(insv.take(n as int) =~= insv);
                assert(aviews(gs.out_fut()).take(n as int) =~= aviews(gs.out_fut()));
                assert((backend.abs(), aviews(gs.out_fut())) == run(step0, a0, insv));
                assert(gs.out_fut().len() == gs.out_cur().len());
            }
'''


def blocks_call():
    return FnC(props=P, inherits=True, attrs=['#[verifier::loop_isolation(false)]'], iters={0: 'it1', 1: 'it'},
               stmts={'0': BLOCKS_PRE, '0.0.1': BLOCKS_CHUNKED_A, '0.0.1.0.0': BLOCKS_LOOP_BODY, '0.0.1.0.end': BLOCKS_LOOP_BODY_END,
                      '0.0.end': BLOCKS_CHUNKED_END, '0.1.0': SINGLE_PRE, '0.1.0.0.0': SINGLE_BODY, '0.1.0.0.end': SINGLE_BODY_END,
                      '0.1.end': SINGLE_END},
               loops={0: BLOCKS_LOOP_INV, 1: SINGLE_INV})


def ctx_items():
    one = '''
    open spec fn pre(&self) -> bool { true }
    #[verifier::prophetic]
    open spec fn post(&self, step: Step, a0: Abs, a1: Abs) -> bool {
        (a1, seq![self.block.out_fut()@]) == run(step, a0, seq![self.block.in_val()@])
    }
'''
    many = '''
    open spec fn pre(&self) -> bool { self.blocks.wf() }
    #[verifier::prophetic]
    open spec fn post(&self, step: Step, a0: Abs, a1: Abs) -> bool {
        &&& (a1, aviews(self.blocks.out_fut())) == run(step, a0, aviews(self.blocks.in_val()))
        &&& self.blocks.out_fut().len() == self.blocks.out_cur().len()
    }
'''
    return [
        Sel('struct BlockCtx'),
        Sel('impl BlockSizeUser for BlockCtx'),
        Sel('impl BlockModeEncClosure for BlockCtx', members=one, fns={'call': FnC(props=P, inherits=True)}),
        Sel('impl BlockModeDecClosure for BlockCtx', members=one, fns={'call': FnC(props=P, inherits=True)}),
        Sel('struct BlocksCtx'),
        Sel('impl BlockSizeUser for BlocksCtx'),
        Sel('impl BlockModeEncClosure for BlocksCtx', members=many, fns={'call': blocks_call()}),
        Sel('impl BlockModeDecClosure for BlocksCtx', members=many, fns={'call': blocks_call()}),
    ]


def mods():
    backends = Mod('dep_backends', 'dep:cipher/src/block/backends.rs', items=[
        backend_trait(True), closure_trait(True), backend_trait(False), closure_trait(False)], export=True)
    ctx = Mod('dep_ctx', 'dep:cipher/src/block/ctx.rs', items=ctx_items(), export=True)
    block = Mod('dep_block', 'dep:cipher/src/block.rs', items=[mode_trait(True), mode_trait(False)], export=True)
    return [backends, ctx, block]
