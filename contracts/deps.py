"""The verified dependency text (cipher crate block-mode traits and drivers) as a unit of its own."""
from vf.unit import Unit
from contracts import common as K


def unit():
    return Unit('deps', prelude=K.PRELUDE_BLOCK, spec=['steps.rs', 'wrapper_defs.rs', 'wrapper.rs'], mods=K.DEPS(count=True, wrapper=True))
