"""Contracts on the pinned `crypto-common` crate (src/lib.rs): the constructor traits.  `trait InnerIvInit` / `InnerInit`
with the default slice-based constructor (C13: an IV slice of the wrong length is rejected with an error), `trait
KeyIvInit` with its slice-based default, and the blanket `impl<T> KeyIvInit for T where T: InnerIvInit, T::Inner:
KeyInit` (C14: constructing a mode from key bytes IS constructing it from the keyed cipher).  What a constructor
returns is stated through the spec members `iv_init_post` / `init_post`, which every impl in /repo defines as its own
ensures clauses (vf/extract.py init_post_member).  `KeyInit` (the cipher's constructor) stays an assumed shim."""
from vf.extract import FnC, Sel, Mod

P13 = ('C13',)
P14 = ('C14',)


SLICES = [
    ('ok_iff_lengths', P13, 'r is Ok <==> key@.len() == <Self as KeySizeUser>::KeySize::USIZE && iv@.len() == <Self as IvSizeUser>::IvSize::USIZE'),
    ('as_array_new', P14, 'r is Ok ==> exists |k: Key<Self>, a: Iv<Self>| #![trigger k@, a@] k@ == key@ && a@ == iv@ && Self::kiv_post(k, a, r->Ok_0)'),
]


def mods():
    return [Mod('dep_common', 'dep:crypto-common/src/lib.rs', items=[
        Sel('struct InvalidLength'),
        Sel('trait InnerIvInit', members='''
    // r is a result of inner_iv_init(inner, &iv)
    spec fn iv_init_post(inner: Self::Inner, iv: Iv<Self>, r: Self) -> bool;
''', fns={
            'inner_iv_init': FnC(ret='r', props=P14, ensures=[('post', P14, 'Self::iv_init_post(inner, *iv, r)')]),
            'inner_iv_slice_init': FnC(ret='r', props=P13 + P14, ensures=[
                ('ok_iff_iv_length', P13, 'r is Ok <==> iv@.len() == <Self as IvSizeUser>::IvSize::USIZE'),
                ('as_array_init', P14, 'r is Ok ==> exists |a: Iv<Self>| a@ == iv@ && Self::iv_init_post(inner, a, r->Ok_0)')],
                stmts={'1': 'proof { assert(iv@ == old_iv__@); }'} if False else {}),
        }, drop_fns=['generate_iv', 'generate_iv_with_rng', 'try_generate_iv_with_rng']),
        Sel('trait InnerInit', members='''
    spec fn init_post(inner: Self::Inner, r: Self) -> bool;
''', fns={'inner_init': FnC(ret='r', props=P14, ensures=[('post', P14, 'Self::init_post(inner, r)')])}),
        Sel('trait KeyIvInit', members='''
    // r is a result of new(&key, &iv)
    spec fn kiv_post(key: Key<Self>, iv: Iv<Self>, r: Self) -> bool;
''', fns={
            'new': FnC(ret='r', props=P14, ensures=[('post', P14, 'Self::kiv_post(*key, *iv, r)')]),
            'new_from_slices': FnC(ret='r', props=P13 + P14, ensures=SLICES),
        }, drop_fns=['generate_key', 'generate_key_with_rng', 'try_generate_key_with_rng', 'generate_iv', 'generate_iv_with_rng',
                     'try_generate_iv_with_rng', 'generate_key_iv', 'generate_key_iv_with_rng', 'try_generate_key_iv_with_rng']),
        Sel('impl KeySizeUser for T'),
        Sel('impl KeyIvInit for T', members='''
    // C14: a mode constructed from key bytes is the mode constructed from the cipher keyed with those bytes
    open spec fn kiv_post(key: Key<Self>, iv: Iv<Self>, r: Self) -> bool {
        exists |inner: T::Inner| #[trigger] T::Inner::key_init_post(key, inner) && T::iv_init_post(inner, iv, r)
    }
''', fns={
            'new': FnC(props=P14, inherits=True),
            'new_from_slices': FnC(props=P13 + P14, inherits=True, closures={0: '''-> (rc: Result<T, InvalidLength>)
                ensures rc is Ok <==> iv@.len() == <T as IvSizeUser>::IvSize::USIZE,
                    rc is Ok ==> exists |a: Iv<T>| a@ == iv@ && T::iv_init_post(i, a, rc->Ok_0)'''}),
            'weak_key_test': FnC(props=P14, inherits=True),
        }),
    ], export=True)]
