"""Contracts on the pinned `crypto-common` crate (src/lib.rs): trait InnerIvInit with its default slice-based constructor
(C13: an IV slice of the wrong length is rejected with an error).  The array-based `inner_iv_init` is implemented by
every mode of /repo (contracts in the crate units)."""
from vf.extract import FnC, Sel, Mod


def mods():
    return [Mod('dep_common', 'dep:crypto-common/src/lib.rs', items=[
        Sel('struct InvalidLength'),
        Sel('trait InnerIvInit', fns={
            'inner_iv_slice_init': FnC(ret='r', props=('C13',), ensures=[
                ('ok_iff_iv_length', ('C13',), 'r is Ok <==> iv@.len() == <Self as IvSizeUser>::IvSize::USIZE')]),
        }, drop_fns=['generate_iv', 'generate_iv_with_rng', 'try_generate_iv_with_rng']),
    ], export=True)]
