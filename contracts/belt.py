"""Contracts for the `belt-ctr` crate (C06; C10, C11 repo side)."""
from vf.extract import FnC, Sel, Mod
from vf.unit import Unit, Lemma
from contracts import common as K

P = ('C06', 'C01', 'C07', 'C12', 'C08', 'C14', 'C15', 'C16', 'C09', 'C10')

FRAME = [('frame_s', ('C06', 'C07'), 'mut_ref_future(final(self).s) == mut_ref_future(old(self).s)'),
         ('frame_cipher', ('C06', 'C07'), 'final(self).cipher_backend == old(self).cipher_backend')]


def unit():
    items = [
        Sel('type BeltCtr'),
        Sel('struct BeltCtrCore'),
        Sel('struct Closure', inside='process_with_backend'),
        Sel('impl BlockSizeUser for Closure', inside='process_with_backend'),
        Sel('impl BlockCipherEncClosure for Closure', inside='process_with_backend', members='''
    open spec fn pre_c(&self) -> bool { self.f.kpre() }
    #[verifier::prophetic]
    open spec fn post_c(&self, enc: spec_fn(Blk) -> Blk) -> bool {
        self.f.kpost(belt_ks(enc), KAbs { base: Seq::empty(), pos: *self.s as int }, KAbs { base: Seq::empty(), pos: mut_ref_future(self.s) as int })
        && ks_reach(belt_ks(enc), KAbs { base: Seq::empty(), pos: *self.s as int }, KAbs { base: Seq::empty(), pos: mut_ref_future(self.s) as int })
    }
''', fns={'call': FnC(props=('C07', 'C06'), inherits=True, note='plumbing')}),
        Sel('impl StreamCipherCore for BeltCtrCore', members='''
    open spec fn kabs(&self) -> KAbs { KAbs { base: Seq::empty(), pos: self.s as int } }
    open spec fn kstep(&self) -> KStep { belt_ks(self.cipher.enc_fn()) }
    open spec fn klimit(&self) -> Option<int> { Some(two128() - 1 - ((self.s as int - self.s_init as int) % two128())) }
    open spec fn korigin(&self) -> KAbs { KAbs { base: Seq::empty(), pos: self.s_init as int } }
''', fns={
            'remaining_blocks': FnC(ret='r', props=('C10', 'C11', 'C13'), inherits=True, ensures=[
                ('exact', ('C10', 'C11'), 'r is Some ==> r->Some_0 as int == two128() - 1 - ((self.s as int - self.s_init as int) % two128())'),
                ('none_only_if_unrepresentable', ('C10', 'C11'), 'r is None ==> two128() - 1 - ((self.s as int - self.s_init as int) % two128()) > usize::MAX'),
            ], stmts={'0': 'proof { mod_sub_wrap(self.s as int, self.s_init as int, two128()); }'}),
            'process_with_backend': FnC(props=('C07', 'C06'), inherits=True, note='plumbing')}),
        Sel('impl StreamCipherSeekCore for BeltCtrCore', members='''
    open spec fn counter_val(c: u128) -> int { c as int }
    proof fn lemma_counter_val(c: u128) {}
    open spec fn block_pos(&self) -> int { (self.s as int - self.s_init as int) % two128() }
    open spec fn pos_modulus() -> int { two128() }
    proof fn lemma_pos_coherent(&self) {
        let s = self.s as int; let i = self.s_init as int; let m = two128();
        mod_sub_wrap(s, i, m);
        mod_add_wrap(i, (s - i) % m, m);
    }
    proof fn lemma_step_law(&self) {
        assert forall |a: KAbs| (#[trigger] self.kstep()(a)).0 == (KAbs { base: a.base, pos: (a.pos + 1) % Self::pos_modulus() }) by {
        }
    }
''', fns={
            'get_block_pos': FnC(ret='r', props=('C10', 'C13', 'C06'), inherits=True, ensures=[
                ('pos', ('C10', 'C06'), 'r as int == (self.s as int - self.s_init as int) % two128()')],
                stmts={'0': 'proof { mod_sub_wrap(self.s as int, self.s_init as int, two128()); }'}),
            'set_block_pos': FnC(props=('C10', 'C13', 'C06'), inherits=True, ensures=[
                ('pos', ('C10', 'C06'), 'final(self).s as int == (old(self).s_init as int + pos as int) % two128()'),
                ('origin_kept', ('C10', 'C06'), 'final(self).s_init == old(self).s_init'),
                ('frame_cipher', ('C10',), 'final(self).cipher == old(self).cipher')],
                stmts={'end': '''
        proof {
            let i = old(self).s_init as int; let p = pos as int; let m = two128();
            mod_add_wrap(i, p, m);
            mod_sub_wrap((i + p) % m, i, m);
        }
'''}),
        }),
        Sel('impl BlockSizeUser for BeltCtrCore'),
        Sel('impl IvSizeUser for BeltCtrCore'),
        Sel('impl InnerUser for BeltCtrCore'),
        Sel('impl InnerIvInit for BeltCtrCore', fns={'inner_iv_init': FnC(ret='r', props=('C06', 'C09'), ensures=[
            ('s0', ('C06', 'C09'), 'r.s as int == le_val(cipher.enc_fn()(iv@)) && r.s_init == r.s'),
            ('cipher', ('C09', 'C14'), 'r.cipher == cipher')],
            stmts={'0': 'broadcast use Array::axiom_len, axiom_u16;'})}),
        Sel('impl IvState for BeltCtrCore', fns={'iv_state': FnC(ret='r', props=('C09',), ensures=[
            ('state', ('C09',), 'r@ == self.cipher.dec_fn()(le_bytes(self.s as int, 16))')])}),
        Sel('impl AlgorithmName for BeltCtrCore', members=K.alg_name_members, fns={'write_alg_name': K.fmt_fn()}),
        Sel('impl Debug for BeltCtrCore', fns={'fmt': K.fmt_fn()}),
        Sel('impl Drop for BeltCtrCore', fns={'drop': K.drop_fn(['s', 's_init'])}),
        Sel('struct Backend'),
        Sel('impl BlockSizeUser for Backend'),
        Sel('impl ParBlocksSizeUser for Backend'),
        Sel('impl StreamCipherBackend for Backend', members='''
    open spec fn kabs(&self) -> KAbs { KAbs { base: Seq::empty(), pos: *self.s as int } }
    #[verifier::prophetic]
    open spec fn kabs_fut(&self) -> KAbs { KAbs { base: Seq::empty(), pos: mut_ref_future(self.s) as int } }
    open spec fn kstep(&self) -> KStep { belt_ks(self.cipher_backend.enc_fn()) }
''', rest_props=P, fns={
            'gen_ks_block': FnC(props=P, inherits=True, ensures=[
                ('state', P + ('C09', 'C10', 'C11'), '*final(self).s as int == (*old(self).s as int + 1) % two128()'),
                ('out', P, 'final(block)@ == old(self).cipher_backend.enc_fn()(le_bytes((*old(self).s as int + 1) % two128(), 16))'),
            ] + FRAME, stmts={'0': 'proof { mod_add_wrap(*self.s as int, 1, two128()); }'}),
            'gen_par_ks_blocks': FnC(props=P, inherits=True, attrs=['#[verifier::loop_isolation(false)]'], ensures=[
                ('state', P + ('C09', 'C10', 'C11'), '*final(self).s as int == (*old(self).s as int + B::ParBlocksSize::USIZE) % two128()'),
                ('out', P, '''forall |j: int| 0 <= j < B::ParBlocksSize::USIZE ==>
                (#[trigger] final(blocks)@[j])@ == old(self).cipher_backend.enc_fn()(le_bytes((*old(self).s as int + j + 1) % two128(), 16))'''),
            ] + FRAME, iters={0: 'it'}, stmts={'0': '''
        broadcast use Array::axiom_len;
        let ghost s0 = *self.s as int;
        let ghost w = B::ParBlocksSize::USIZE as int;
        let ghost e = self.cipher_backend.enc_fn();
        proof { mod_add_wrap(s0, 0, two128()); }
''', '3': '''
        assert(forall |j: int| 0 <= j < w ==> (#[trigger] tmp@[j])@ == le_bytes((s0 + j + 1) % two128(), 16));
''', 'end': '''
        proof {
            let m = two128();
            let ys = views(final(blocks)@);
            let states = |i: int| KAbs { base: Seq::<u8>::empty(), pos: (s0 + i) % m };
            assert(states(0) == old(self).kabs()) by { mod_add_wrap(s0, 0, m); }
            assert forall |i: int| 0 <= i < w implies #[trigger] old(self).kstep()(states(i)) == (states(i + 1), ys[i]) by {
                mod_succ(s0 + i, m);
                assert(ys[i] == final(blocks)@[i]@);
            }
            ks_run_by_states(old(self).kstep(), old(self).kabs(), w as nat, states, ys);
        }
'''}, loops={0: '''
            invariant
                it.history@.len() == it.index@, it.index@ <= w,
                it.history@ + aim_remaining(&it.iter) == aim_remaining(&it.snapshot@),
                aim_remaining(&it.snapshot@).len() == w,
                s as int == (s0 + it.index@) % two128(), 0 <= s0 < two128(),
                forall |j: int| 0 <= j < it.index@ ==> (#[trigger] fut_of(it.history@[j]))@ == le_bytes((s0 + j + 1) % two128(), 16),
                forall |j: int| 0 <= j < it.index@ ==> fut_of(#[trigger] aim_remaining(&it.snapshot@)[j])@ == le_bytes((s0 + j + 1) % two128(), 16),
'''}),
        }),
    ]
    return Unit('belt', prelude=K.PRELUDE_BLOCK, spec=['steps.rs', 'wrapper_defs.rs'], mods=K.DEPS(wrapper=True) + [Mod('belt_lib', 'belt-ctr/src/lib.rs', items=items)])
