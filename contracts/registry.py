"""Which units / lemmas / Kani harnesses decide which property."""
import importlib

UNIT_MODULES = ['cbc', 'pcbc', 'ige', 'cfb', 'cfb8', 'ofb', 'belt', 'ctr', 'lemmas', 'cts']


def load_units(names=None):
    out = {}
    for n in (names or UNIT_MODULES):
        m = importlib.import_module('contracts.' + n)
        out[n] = m.unit
    return out


# property -> units whose obligations (clauses tagged with the property) decide it
PROP_UNITS = {
    'C01': ['lemmas', 'cbc', 'pcbc', 'ige', 'cfb', 'cfb8', 'ofb', 'ctr', 'belt'],
    'C02': ['cbc', 'pcbc', 'ige'],
    'C03': ['cfb', 'cfb8', 'ofb'],
    'C04': ['ctr'],
    'C05': ['cts'],
    'C06': ['belt'],
    'C07': ['lemmas', 'cbc', 'pcbc', 'ige', 'cfb', 'cfb8', 'ofb', 'ctr', 'belt'],
    'C08': ['lemmas', 'cfb', 'cfb8', 'ofb', 'ctr', 'belt'],
    'C09': ['lemmas', 'cbc', 'pcbc', 'ige', 'cfb', 'cfb8', 'ofb', 'ctr', 'belt'],
    'C10': ['ctr', 'belt'],
    'C11': ['ctr', 'belt'],
    'C12': ['cbc', 'pcbc', 'ige', 'cfb', 'cfb8', 'ofb', 'ctr', 'belt'],
    'C15': ['lemmas', 'cbc', 'pcbc', 'ige', 'cfb', 'cfb8', 'ofb', 'ctr', 'belt'],
    'C17': ['cbc', 'pcbc', 'ige', 'cfb', 'cfb8', 'ofb', 'ctr', 'belt'],
}


_NOTE = ('Assumed, not proved: the shim contracts of the cipher/inout/hybrid-array/typenum/core API in /verif/prelude '
         '(listed item by item in evidence.coverage.trusted_base), the drivers D1-D7 that call the repo functions, the '
         'block cipher being a fixed function. Repo functions outside the Verus subset are external_body in Verus and '
         'checked by Kani with stated bounds (labelled bounded, never counted as proved).')

LEVEL = {
    'C02': {'text': 'Every CBC/PCBC/IGE backend method, state import/export and plumbing function of /repo is extracted '
                    'token-exactly on each run and verified by Verus against the recurrence transcribed from the '
                    'property (uninterpreted E/D, any block size, any parallel width, both aliasing cases). '
                    'Unbounded proof of the repo functions; composition with the dependency drivers is assumed.',
            'note': _NOTE, 'design_ref': 'DESIGN.md 4 (C02), 3.1-3.8'},
}

NOT_APPLICABLE = {}


# ---------------------------------------------------------------- Kani / native harnesses
import re as _re

_MODE_UNIT = {'cbc': 'cbc', 'pcbc': 'pcbc', 'ige': 'ige', 'cfb': 'cfb', 'cfb8': 'cfb8', 'ofb': 'ofb', 'cfbbuf': 'cfb',
              'ctr': 'ctr', 'belt': 'belt', 'cts': 'cts'}
_MODE_PROPS = {
    'cbc': ['C02', 'C01', 'C07', 'C12', 'C09'], 'pcbc': ['C02', 'C01', 'C07', 'C12', 'C09'], 'ige': ['C02', 'C01', 'C07', 'C12', 'C09'],
    'cfb': ['C03', 'C01', 'C07', 'C12', 'C14'], 'cfb8': ['C03', 'C01', 'C07', 'C12', 'C08', 'C09'], 'ofb': ['C03', 'C01', 'C07', 'C12', 'C14', 'C09'],
    'cfbbuf': ['C03', 'C08', 'C13', 'C14', 'C09', 'C01'],
    'ctr': ['C04', 'C01', 'C07', 'C08', 'C10', 'C12', 'C14'],
    'cts': ['C05', 'C01', 'C12', 'C13', 'C14'],
    'belt': ['C06', 'C01', 'C07', 'C08', 'C10', 'C12'],
}


def _scan_harnesses():
    from vf import kani as KN
    out = {}
    for mod, n in KN.harness_names():
        m = _re.match(r'([a-z0-9]+?)_(enc|dec|ks|buf\w*|[a-z0-9]+)_b(\d+)w(\d+)_n(\d+)(?:_(ip|b2b))?', n)
        info = {'units': [], 'props': [], 'bounds': n, 'kani': True}
        if m:
            mode = m.group(1)
            info['units'] = [_MODE_UNIT.get(mode, mode)]
            info['props'] = list(_MODE_PROPS.get(mode, []))
            info['bounds'] = '%s %s: block size %s bytes, cipher parallel width %s, %s blocks (1 block then the rest), %s; all IVs, data and cipher outputs symbolic' % (
                mode, m.group(2), m.group(3), m.group(4), m.group(5), {'ip': 'in place', 'b2b': 'buffer to buffer', None: ''}[m.group(6)])
        out[n] = info
    out.update(HARNESS_OVERRIDES)
    return out


HARNESS_OVERRIDES = {}


class _Lazy(dict):
    _loaded = False

    def _load(self):
        if not self._loaded:
            self._loaded = True
            self.update(_scan_harnesses())

    def items(self):
        self._load()
        return dict.items(self)

    def get(self, k, d=None):
        self._load()
        return dict.get(self, k, d)

    def __getitem__(self, k):
        self._load()
        return dict.__getitem__(self, k)


HARNESSES = _Lazy()


def harness_info(h):
    return HARNESSES.get(h, {'units': [], 'props': [], 'bounds': h})


def harness_applies(h, prop):
    i = harness_info(h)
    return prop in i['props']


# per property: Kani harnesses of the quick tier (smallest instance of every external_body repo function
# the property depends on) and of the thorough tier
PROP_HARNESS = {
    'C02': {'quick': ['cbc_dec_b2w2_n3_b2b', 'pcbc_enc_b2w2_n3_ip'],
            'thorough': ['cbc_enc_b2w2_n3_ip', 'cbc_dec_b2w2_n3_ip', 'cbc_dec_b2w2_n3_b2b', 'pcbc_enc_b2w2_n3_ip', 'pcbc_dec_b2w2_n3_b2b']},
    'C03': {'quick': ['cfb_dec_b2w2_n3_b2b', 'ofb_enc_b2w2_n3_b2b'],
            'thorough': ['cfb_enc_b2w2_n3_b2b', 'cfb_dec_b2w2_n3_ip', 'cfb_dec_b2w2_n3_b2b', 'ofb_enc_b2w2_n3_b2b', 'ofb_dec_b2w2_n3_ip']},
}
