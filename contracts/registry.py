"""Which units / lemmas / Kani harnesses decide which property."""
import importlib

UNIT_MODULES = ['cbc', 'pcbc', 'ige', 'cfb', 'cfb8', 'ofb']


def load_units(names=None):
    out = {}
    for n in (names or UNIT_MODULES):
        m = importlib.import_module('contracts.' + n)
        out[n] = m.unit
    return out


# property -> units whose obligations (clauses tagged with the property) decide it
PROP_UNITS = {
    'C02': ['cbc', 'pcbc', 'ige'],
    'C03': ['cfb', 'cfb8', 'ofb'],
}


_NOTE = ('Assumed, not proved: the shim contracts of the cipher/inout/hybrid-array/typenum/core API in /verif/prelude '
         '(listed item by item in evidence.coverage.trusted_base), the drivers D1-D7 that call the repo functions, the '
         'block cipher being a fixed function. Repo functions outside the Verus subset are external_body in Verus and '
         'checked by Kani with stated bounds (labelled bounded, never counted as proved).')

LEVEL = {
    'C02': {'text': 'Every CBC/PCBC/IGE backend method, state import/export and plumbing function of /repo is extracted '
                    'token-exactly on each run and verified by Verus against the recurrence transcribed from the '
                    'property (uninterpreted E/D, any block size, any parallel width, both aliasing cases). '
                    'Unbounded proof of the repo functions; composition with the dependency drivers is assumed.',
            'note': _NOTE, 'design_ref': 'DESIGN.md 4 (C02), 3.1-3.8'},
}

NOT_APPLICABLE = {}
