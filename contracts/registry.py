"""Which units / lemmas / Kani harnesses decide which property."""
import importlib

UNIT_MODULES = ['cbc', 'pcbc', 'ige', 'cfb', 'cfb8', 'ofb', 'belt', 'ctr', 'lemmas', 'cts', 'deps']


def load_units(names=None):
    out = {}
    for n in (names or UNIT_MODULES):
        m = importlib.import_module('contracts.' + n)
        out[n] = m.unit
    return out


# property -> units whose obligations (clauses tagged with the property) decide it
PROP_UNITS = {
    'C01': ['deps', 'lemmas', 'cbc', 'pcbc', 'ige', 'cfb', 'cfb8', 'ofb', 'ctr', 'belt', 'cts'],
    'C02': ['deps', 'cbc', 'pcbc', 'ige', 'lemmas'],
    'C03': ['deps', 'cfb', 'cfb8', 'ofb', 'lemmas'],
    'C04': ['ctr', 'lemmas'],
    'C05': ['cts', 'lemmas'],
    'C06': ['belt', 'lemmas'],
    'C07': ['deps', 'lemmas', 'cbc', 'pcbc', 'ige', 'cfb', 'cfb8', 'ofb', 'ctr', 'belt'],
    'C08': ['deps', 'lemmas', 'cfb', 'cfb8', 'ofb', 'ctr', 'belt'],
    'C09': ['lemmas', 'cbc', 'pcbc', 'ige', 'cfb', 'cfb8', 'ofb', 'ctr', 'belt'],
    'C10': ['deps', 'ctr', 'belt', 'lemmas'],
    'C11': ['deps', 'ctr', 'belt', 'lemmas'],
    'C12': ['deps', 'cbc', 'pcbc', 'ige', 'cfb', 'cfb8', 'ofb', 'ctr', 'belt', 'cts'],
    'C13': ['deps', 'cts', 'cbc', 'pcbc', 'ige', 'cfb', 'cfb8', 'ofb', 'ctr', 'belt'],
    'C14': ['deps', 'lemmas', 'cts', 'ofb', 'cfb', 'ctr', 'belt', 'cbc'],
    'C16': ['ctr', 'cbc', 'pcbc', 'ige', 'cfb', 'cfb8', 'ofb', 'belt', 'cts'],
    'C15': ['lemmas', 'cbc', 'pcbc', 'ige', 'cfb', 'cfb8', 'ofb', 'ctr', 'belt'],
    'C17': ['cbc', 'pcbc', 'ige', 'cfb', 'cfb8', 'ofb', 'ctr', 'belt'],
}


_NOTE = ('Assumed, not proved: the shim contracts of the cipher/inout/hybrid-array/typenum/core API in /verif/prelude '
         '(listed item by item in evidence.coverage.trusted_base), the parts of the dependency drivers that are not extracted '
         '(padding, key/IV init, *_blocks_b2b, gen_tail_blocks, integer TryFrom/TryInto), the block cipher being a fixed function. Repo functions outside the Verus subset are external_body in Verus and '
         'checked by Kani with stated bounds (labelled bounded, never counted as proved).')

_T = ('contract-based deductive verification: Verus on the mechanically extracted repo functions (requires/ensures, loop '
      'invariants, ghost lemmas); Kani / native replay harnesses only as bounded stand-in, conformance check and counterexample search')


def _lv(text, note_extra='', ref='DESIGN.md 4'):
    return {'text': text, 'note': _NOTE + (' ' + note_extra if note_extra else ''), 'design_ref': ref, 'technique': _T}


LEVEL = {
    'C01': _lv('Round-trip lemmas over the transducer specs (CBC, PCBC, IGE, CFB, CFB-8, OFB, keystream involution for CTR/BelT) are '
               'proved by induction in Verus for all ciphers with D.E = id, all block sizes and lengths; every backend / core function of '
               'the nine crates is proved equal to its spec step (code = spec), so the block-level round trip follows for all inputs. '
               'Length preservation is part of every contract.',
               'Ciphertext stealing: lemma_cbc_cs_roundtrip / lemma_ecb_cs_roundtrip prove dec(enc(m)) = m for every variant, residue and '
               'block count over the NIST spec functions both directions are verified against. Bounded only: buffered-CFB data functions and '
               'the encrypt_padded* front-ends (harnesses).'),
    'C02': _lv('Every CBC/PCBC/IGE backend method, state import/export and plumbing function of /repo is extracted token-exactly on each run '
               'and verified by Verus against the recurrence transcribed from the property (uninterpreted E/D, any block size, any parallel '
               'width, both aliasing cases, arbitrary ciphertext). Unbounded proof of the repo functions.',
               'The `xor` helpers (`for (a, b) in out.iter_mut().zip(buf)`) are verified with a shim iterator whose element-wise pairing models std::iter::Zip (assumed).'),
    'C03': _lv('CFB (block and parallel decrypt), CFB-8 (shift register loop) and OFB (one backend behind three traits) are verified by Verus '
               'against their recurrences for all E, block sizes, widths; only the encryption direction of the cipher appears in the types.',
               'BufEncryptor::encrypt / BufDecryptor::decrypt and xor_set1/2 are outside the Verus subset: their byte-transducer contract is '
               'assumed in Verus and checked by Kani / native harnesses for b in {1,2,3}, every pos, |data| <= 12 (bounded).'),
    'C04': _lv('All six flavour impls (from_nonce, current_block, next_block, remaining, as/set_from_backend) and the CtrCore backend '
               '(single and parallel keystream generation) are verified by Verus against the byte-level layout function of the property '
               '(field = last / first w/8 bytes read BE / LE, replaced by (field + i) mod 2^w, other bytes unchanged) for every block size '
               'that is a multiple of the counter size, every IV and every position.',
               'std byte-order conversions are assumed with their mathematical definition (digits base 256).'),
    'C05': _lv('The bulk helpers (cbc_enc, cbc_dec, ecb_enc, ecb_dec incl. their own parallel chunking), the twelve length gates and all '
               'twelve closures (encrypt and decrypt, CBC and ECB, CS1/CS2/CS3) are verified by Verus against a transcription of NIST SP '
               '800-38A Addendum for every block size, every length >= b (every residue, one block, whole blocks), both aliasing cases, '
               'any parallel width.',
               'The two *_b2b default methods are verified too (closure contracts spliced in; Result::and_then assumed with its std meaning). '
               'decryption-inverts-encryption for CTS is a lemma over the two NIST spec functions (whole message, all variants); the harness '
               'round trips (b in {2,3}, every L <= 3b+1) are extra.'),
    'C06': _lv('BeltCtrCore init (s = le128(E(IV))), gen_ks_block (pre-increment mod 2^128, E(le128(s))), the parallel body, seek and '
               'remaining are verified by Verus for all E, IVs, positions and widths, including wrap of s across 2^128.'),
    'C07': _lv('The transducer contract is stated once on the block-mode traits EXTRACTED FROM THE PINNED cipher CRATE; every single-block and '
               'parallel backend method of /repo meets it (Verus); the dependency\'s own drivers -- BlocksCtx::call (chunks of the parallel '
               'width, then the tail), BlockCtx::call, the default *_par_blocks / *_tail_blocks / *_inplace methods and the default '
               'encrypt/decrypt_block(s)(_inout|_b2b) methods of BlockModeEncrypt/Decrypt -- are verified against run(step) as well, so '
               '"any mixture of single and multi-block calls, any width" is a theorem down from the public block API; run_concat / '
               'ks_run_concat give every partition; the repo-side chunking of the cts helpers is verified as code.',
               'The stream-core drivers of cipher::stream::core_api (default gen_par_ks_blocks, ApplyBlocksCtx / ApplyBlockCtx / WriteBlockCtx, '
               'default apply_keystream_block(s)(_inout) / write_keystream_block) are extracted and verified against ks_run as well. '
               'Still assumed: *_blocks_b2b (closure capturing &mut self), gen_tail_blocks / WriteBlocksCtx (iteration over &mut [T]) and '
               'the cipher itself; exercised by the harnesses (bounded).'),
    'C08': _lv('The byte-level stream interface is verified dependency text: StreamCipherCoreWrapper::try_apply_keystream_inout (extracted from '
               'the pinned cipher crate) equals the per-byte reference transducer wks_run over the core\'s keystream, and wks_concat proves that '
               'any split of the byte string (empty pieces, pieces straddling blocks) gives the same bytes and state; the cores of /repo (CTR '
               'flavours, OFB, BelT) are verified against ks_run. One-shot CFB: AsyncStreamCipher::{encrypt,decrypt}_inout verified against '
               'async_out, prefix preservation is lemma_async_prefix (CFB steps are bytewise); CFB-8 by lemma_run_prefix. Buffered CFB: '
               'lemma_cfb_buf_concat over its byte transducer.',
               'The buffered-CFB data functions (BufEncryptor::encrypt / BufDecryptor::decrypt: chunks_exact_mut / into_remainder) are '
               'outside the Verus subset: their transducer contract is assumed in Verus and checked by harnesses (bounded).'),
    'C09': _lv('Contracts of every iv_state / inner_iv_init / get_state / from_state are verified (identity on the chaining value; CFB: E in, D '
               'out; BelT: D(le128(s)) out; CTR: current counter block out, from_nonce in); resume lemmas and equal-state lemmas are proved.',
               'Needs D.E = E.D = id as lemma hypotheses. CTR resume keeps the keystream but restarts the position (stated).'),
    'C10': _lv('get/set_block_pos of CtrCore (all flavours) and BeltCtrCore are verified: position read-back is exact, the origin is preserved by '
               'every operation, one keystream block advances the position by one, and the state equals the origin advanced by the position. '
               'The dependency\'s StreamCipherCoreWrapper::try_seek / try_current_pos are extracted and verified: a successful seek installs '
               'wseek_state(p) and the reported position is spos_of(state). Lemmas: wseek_state(p) is the state after producing p bytes from '
               'offset 0 (wseek_is_run), the bytes after a seek are bytes p, p+1, ... of that keystream (wseek_keystream), the reported position '
               'after any data call from offset p is p + n (wpos_after_run) -- for every offset, forward or backward, inside a block or not.',
               'SeekNum: the trait and its five macro-generated impls (i32/u32/u64/u128/usize; the macro is expanded mechanically) are verified '
               'too: a reported position is exact (never truncated), an error only when the position or the start of the next block is not '
               'representable; a requested offset is cut into p / bs and p % bs.',
               'Assumed below SeekNum: std integer TryFrom/TryInto (conformance harness shim_int_conversions). <i32 as SeekNum>::into_block_byte '
               'is external_body (signed % is unspecified in this Verus) with a bounded Kani stand-in (shim_seeknum_i32_into). '
               'remaining() exactness is a C10 obligation too (a data call after a seek must not be refused).'),
    'C11': _lv('remaining() of all six flavours and of BelT is verified exact (Some(2^w-1-pos) iff representable); every keystream step advances '
               'the position by exactly one mod 2^w. The dependency\'s wrapper is verified: check_remaining is exact, a data call is Ok iff the '
               'request fits what remaining_blocks reports, and on Err data, core state and buffer are untouched; a request ending exactly at '
               'the limit succeeds.',
               'Known finding F2: try_seek does not consult remaining_blocks; the clause "a successful seek stays within the 2^w-1 usable blocks" '
               'fails on the pinned dependency while its complement ("the only successful seeks beyond the end are into the block after the '
               'last one") is discharged. Recorded by obligation id and by a concrete replay; not repairable in /repo.'),
    'C12': _lv('Every contract over InOut / InOutBuf is proved with the aliasing flag universally quantified and no assumption on the initial '
               'output contents; right-hand sides mention only the input at entry. Includes the cts encrypt closures and helpers.',
               'buffered CFB: harness (in place and buffer to buffer, arbitrary initial output) -- bounded. The cts *_b2b defaults are verified.'),
    'C13': _lv('Length gates of all six cts variants: Err exactly when shorter than one block, with the frame clause (buffer untouched). Every '
               'function verified by Verus is free of panics under call-site-derived preconditions (index bounds, overflow, unwrap, '
               'debug_assert rewritten to an obligation).',
               'The dependency\'s byte wrapper is verified panic-free under its position invariant (unsafe blocks, unreachable_unchecked, '
               'debug_assert!, assert! all discharged). The cts *_b2b defaults are verified (unequal lengths and short messages rejected with '
               'the output untouched). The dependency\'s decrypt_padded{,_inout,_b2b} are verified: a length that is not a multiple of the block '
               'size is an error and nothing is written. crypto-common\'s inner_iv_slice_init and KeyIvInit::new_from_slices (trait default and '
               'the blanket impl for the modes) are verified: Ok iff the slices have the key / IV length. Buffered CFB: harness only (bounded). '
               'The cipher\'s own KeyInit::new_from_slice is assumed (Ok iff key length). Known finding F4: the dependency\'s try_seek '
               'panics for a negative position of the signed SeekNum type (the verified text needs the precondition pos >= 0); recorded, replayed.'),
    'C14': _lv('Front-ends are equal because they are proved equal to one shared spec function: OFB block step = keystream step (lemma), '
               'cts::cbc_enc/cbc_dec and the cbc crate against the same run(cbc step), CS1/CS2/CS3 on whole blocks (lemmas), buffered CFB on a '
               'whole block = block CFB step (lemma_cfb_buf_block).',
               'A CTR/OFB/BelT core driven block-wise equals the byte-level cipher: wks_blocks (whole blocks through the verified byte wrapper '
               '= block-level keystream application). KeyIvInit / from_core construction equivalence is dependency code (from_core verified, '
               'KeyIvInit assumed).'),
    'C15': _lv('Pure lemmas on the decrypt transducers (causality, CBC / CFB propagation and re-synchronisation, keystream flip, PCBC state '
               'difference, CFB-8 register shift) over the code = spec contracts.',
               '"garbles" is proved as the exact propagated difference; that it is non-zero needs injectivity of the cipher.'),
    'C16': _lv('Every function of the nine crates is verified against a postcondition that is a function of its arguments and the '
               'instance\'s own state only (the code = spec clauses), so no result depends on other instances or hidden state; '
               'CtrCore::clone copies cipher and counter state (Verus); every mutation is through &mut self / caller buffers (typing); a '
               'mechanical scan finds no static mut / thread_local / Cell / Atomic / unsafe in the crates; new unselected items and '
               'changed derive lists are flagged (items_baseline).',
               'derive(Clone) has no Verus spec: clone-independence harnesses (native, randomised histories) stand in -- bounded.'),
    'C17': _lv('Every Debug::fmt and write_alg_name body is read mechanically as a sequence of literal / type-name writes and verified to append '
               'exactly that self-free text (prefix of it on error); every Drop body is verified to zero each state field (zeroize cfg on).',
               'Compiler elision of the stores and residue outside the fields are out of reach of contracts; native harness inspects the '
               'object bytes after drop (feature zeroize). Known finding F3: the Debug impl of the dependency\'s StreamCipherCoreWrapper -- '
               'i.e. of the public byte-level types Ctr*/Ofb/BeltCtr -- prints the unused keystream bytes of the current block (recorded, replayed).'),
}

NOT_APPLICABLE = {}


# ---------------------------------------------------------------- Kani / native harnesses
import re as _re

_MODE_UNIT = {'cbc': 'cbc', 'pcbc': 'pcbc', 'ige': 'ige', 'cfb': 'cfb', 'cfb8': 'cfb8', 'ofb': 'ofb', 'cfbbuf': 'cfb',
              'ctr': 'ctr', 'belt': 'belt', 'cts': 'cts'}
_MODE_PROPS = {
    'cbc': ['C02', 'C01', 'C07', 'C12', 'C09', 'C15'], 'pcbc': ['C02', 'C01', 'C07', 'C12', 'C09', 'C15'], 'ige': ['C02', 'C01', 'C07', 'C12', 'C09', 'C15'],
    'cfb': ['C03', 'C01', 'C07', 'C12', 'C14', 'C15'], 'cfb8': ['C03', 'C01', 'C07', 'C12', 'C08', 'C09', 'C15'], 'ofb': ['C03', 'C01', 'C07', 'C12', 'C14', 'C09', 'C15'],
    'cfbbuf': ['C03', 'C08', 'C13', 'C14', 'C09', 'C01', 'C15'],
    'ctr': ['C04', 'C01', 'C07', 'C08', 'C10', 'C12', 'C14', 'C15'],
    'cts': ['C05', 'C01', 'C12', 'C13', 'C14'],
    'belt': ['C06', 'C01', 'C07', 'C08', 'C10', 'C12', 'C15'],
}


def _scan_harnesses():
    from vf import kani as KN
    out = {}
    for mod, n in KN.harness_names():
        m = _re.match(r'([a-z0-9]+?)_(enc|dec|ks|buf\w*|[a-z0-9]+)_b(\d+)w(\d+)_n(\d+)(?:_(ip|b2b|nat))?', n)
        info = {'units': [], 'props': [], 'bounds': n, 'kani': not n.endswith('_nat')}
        if m:
            mode = m.group(1)
            info['units'] = [_MODE_UNIT.get(mode, mode)]
            info['props'] = list(_MODE_PROPS.get(mode, []))
            if m.group(2) == 'ks' and 'C08' not in info['props']:
                info['props'].append('C08')      # keystream harnesses cut the byte string into pieces
            info['bounds'] = '%s %s: block size %s bytes, cipher parallel width %s, %s blocks (1 block then the rest), %s; all IVs, data and cipher outputs symbolic' % (
                mode, m.group(2), m.group(3), m.group(4), m.group(5), {'ip': 'in place', 'b2b': 'buffer to buffer', 'nat': 'native search only', None: ''}[m.group(6)])
        if n.startswith('shim_'):
            # conformance of the assumed shim contracts with the real dependency code: underpins every property
            info = {'units': sorted(set(u for us in PROP_UNITS.values() for u in us)), 'props': [], 'kani': True, 'role': 'conformance of assumed shim contracts',
                    'bounds': {'shim_inout_pair': 'inout::InOut from (&T, &mut T), T = Array<u8,3>: get_in/get_out/clone_in/reborrow/xor_in2out, all values',
                               'shim_inout_alias': 'inout::InOut from &mut T (in place): the input side follows the output side, all values',
                               'shim_inout_get': 'InOut<Array<Array<u8,2>,3>>::get(i), both aliasing cases, every i',
                               'shim_inoutbuf_basic': 'InOutBuf::new length check / nothing written, len, is_empty, get_in, get_out, from(&mut [T]), from_mut; lengths 0..4',
                               'shim_inoutbuf_split_chunks': 'InOutBuf::split_at / into_chunks::<U2> / iteration order / xor_in2out, lengths 0..5, every cut, both aliasing cases',
                               'shim_array_ranges': 'hybrid-array range Index/IndexMut, Default, as_slice, as_mut_slice, TryFrom<&[T]>; N = 5, every range',
                               'shim_bytes_u32_u64': 'to/from_{le,be,ne}_bytes of u32 and u64 = digits base 256, full domain (loop-free)',
                               'shim_bytes_u128': 'to/from_{le,be,ne}_bytes of u128 = digits base 256, full domain',
                               'shim_core_helpers': 'split_last_mut, mem::replace, usize::div_ceil, checked_sub, wrapping_add/sub, usize::try_from(u64)',
                               'shim_seeknum_i32_into': 'BOUNDED stand-in for <i32 as SeekNum>::into_block_byte (external_body in Verus: signed % unspecified there): every i32 position, counter types u32/u64/u128, block sizes 1,2,4,..,128; quotient/remainder characterised by p = b*bs + y, 0 <= y < bs; Err only for negative positions; no panic',
                               'shim_int_conversions': 'std TryFrom/TryInto between the counter types (u32 u64 u128) and the SeekNum types, i32::from(u8): Ok iff the value fits, value preserved; full domain, loop-free',
                               'shim_typenum': 'typenum constants used by the units'}.get(n, n)}
            out[n] = info
            continue
        if n.startswith('misc_'):
            kind = n.split('_')[1]
            rest = n[len('misc_' + kind + '_'):]
            unit = None
            for key, u in (('cfbbuf', 'cfb'), ('cfb8', 'cfb8'), ('cfb', 'cfb'), ('pcbc', 'pcbc'), ('cbc', 'cbc'), ('ige', 'ige'),
                           ('ofb', 'ofb'), ('ctr', 'ctr'), ('belt', 'belt'), ('w', 'belt')):
                if rest.startswith(key):
                    unit = u
                    break
            info = {'units': [unit] if unit else [], 'kani': False,
                    'props': {'debug': ['C17'], 'drop': ['C17'], 'clone': ['C16', 'C01'], 'indep': ['C16'], 'resume': ['C09', 'C14', 'C01'], 'parks': ['C07', 'C01', 'C04', 'C06', 'C03', 'C09', 'C10'], 'remaining': ['C10', 'C11', 'C06', 'C13'], 'padded': ['C01', 'C13', 'C14'], 'beltdef': ['C06', 'C01', 'C07', 'C08', 'C10', 'C14'], 'wdebug': ['C17'], 'seekneg': ['C13']}.get(kind, []),
                    'bounds': {'debug': 'Debug text of two instances with different key / IV / history / position is equal (native random search, toy invertible cipher)',
                               'drop': 'feature zeroize: after drop no 8-byte window of the exported state is left in the object storage (native, 16-byte toy cipher)',
                               'clone': 'clone after a random history; original and clone interleaved equal two fresh replays, incl. positions and seeks (native)',
                               'indep': 'instances over different block sizes used in one process do not influence each other (native)',
                               'parks': 'keystream of up to 7 blocks through the backend\'s parallel entry point (any width incl. 1) == block-at-a-time keystream, same generator state afterwards (native, toy invertible cipher)',
                               'remaining': 'core positioned anywhere in the counter range (around 0, 2^32, 2^64, the end): position read-back exact, remaining_blocks() exact or None only if unrepresentable, one more block advances the position by one (native)',
                               'padded': 'padded front-ends (dependency code over the repo mode): encrypt_padded_b2b Ok iff room, = block encryption of the padded message, decrypt_padded_b2b inverts it, lengths not a multiple of the block size rejected without writing, IV slice length check (native, toy invertible cipher, Pkcs7 / Iso7816)',
                               'beltdef': 'BelT-CTR keystream against its definition E(le128((s0 + i) mod 2^128)) with s0 placed at 2^32 / 2^64 / 2^96 / 2^128 boundaries, single blocks then the parallel entry point, widths 1-3 (native, invertible toy cipher)',
                               'wdebug': 'Debug text of the public byte-level stream cipher types (dependency wrapper over the repo cores) after the same history under two keys / IVs (native); carries known finding F3',
                               'seekneg': 'try_seek with any i32 position (negative included) must return, not panic; non-negative positions are reached and reported (native); carries known finding F4',
                               'resume': 'export at a random cut (block / byte), import into a fresh instance, continue == uninterrupted run; encryptor and decryptor states equal; public chaining value (native, toy invertible cipher)'}.get(kind, n)}
        out[n] = info
    out.update(HARNESS_OVERRIDES)
    return out


HARNESS_OVERRIDES = {
    'ctr_limit_b4w2_n3': {'units': ['ctr'], 'props': ['C11', 'C13'], 'kani': True,
                          'bounds': 'Ctr32BE over 4-byte blocks (width 2): start anywhere in the last 9 bytes before the keystream limit, request length 0..12; '
                                    'success iff it fits, buffer and position untouched on failure; all IVs / data / cipher outputs symbolic'},
    'ctr_seekpast_b4w2_n2': {'units': ['ctr'], 'props': ['C11'], 'kani': False,
                             'bounds': 'Ctr32BE over 4-byte blocks: seek 1..3 bytes INTO block 2^32-1, then an 8-byte request: one of the two must fail'},
}


class _Lazy(dict):
    _loaded = False

    def _load(self):
        if not self._loaded:
            self._loaded = True
            self.update(_scan_harnesses())

    def items(self):
        self._load()
        return dict.items(self)

    def get(self, k, d=None):
        self._load()
        return dict.get(self, k, d)

    def __getitem__(self, k):
        self._load()
        return dict.__getitem__(self, k)


HARNESSES = _Lazy()


def harness_info(h):
    return HARNESSES.get(h, {'units': [], 'props': [], 'bounds': h})


def harness_applies(h, prop):
    i = harness_info(h)
    return prop in i['props']


# per property: Kani harnesses of the quick tier (smallest instance of every external_body repo function
# the property depends on) and of the thorough tier
PROP_HARNESS = {
    'C02': {'quick': ['cbc_dec_b2w2_n3_b2b', 'pcbc_enc_b2w2_n3_ip'],
            'thorough': ['cbc_enc_b2w2_n3_ip', 'cbc_dec_b2w2_n3_ip', 'cbc_dec_b2w2_n3_b2b', 'pcbc_enc_b2w2_n3_ip', 'pcbc_dec_b2w2_n3_b2b',
                         'cbc_dec_b3w3_n5_b2b', 'cbc_enc_b3w3_n4_b2b', 'cbc_dec_b1w3_n5_b2b', 'pcbc_dec_b3w3_n4_b2b', 'pcbc_enc_b3w3_n4_b2b',
                         'ige_enc_b2w2_n3_b2b', 'ige_dec_b2w2_n3_ip', 'ige_dec_b3w2_n3_b2b']},
    'C03': {'quick': ['cfb_dec_b2w2_n3_b2b', 'ofb_enc_b2w2_n3_b2b'],
            'thorough': ['cfb_enc_b2w2_n3_b2b', 'cfb_dec_b2w2_n3_ip', 'cfb_dec_b2w2_n3_b2b', 'ofb_enc_b2w2_n3_b2b', 'ofb_dec_b2w2_n3_ip',
                         'cfb_dec_b3w3_n5_b2b', 'cfb_enc_b3w3_n4_ip', 'cfb8_enc_b2w2_n4_b2b', 'cfb8_dec_b3w2_n4_b2b', 'ofb_enc_b3w3_n4_ip',
                         'cfbbuf_enc_b2w1_n8', 'cfbbuf_dec_b2w1_n8'], 'timeout': 5000, 'jobs': 4},
    'C01': {'quick': [], 'thorough': ['cbc_dec_b3w3_n5_b2b', 'pcbc_dec_b3w3_n4_b2b', 'ige_dec_b3w2_n3_b2b', 'cfb_dec_b3w3_n5_ip']},
    'C07': {'quick': ['cbc_dec_b2w2_n3_ip'], 'thorough': ['cbc_dec_b3w3_n5_ip', 'cbc_dec_b1w3_n5_b2b', 'cfb_dec_b3w3_n5_b2b', 'pcbc_dec_b3w3_n4_b2b']},
    'C12': {'quick': ['pcbc_dec_b2w2_n3_b2b'], 'thorough': ['cbc_dec_b3w3_n5_b2b', 'cfb_dec_b3w3_n5_b2b', 'ige_dec_b3w2_n3_b2b', 'cfb8_dec_b3w2_n4_b2b']},
    # stream modes: the byte-level harnesses go through the real buffering wrapper of the dependency
    'C04': {'quick': ['ctr_32be_b4w2_n3'],
            'thorough': ['ctr_32be_b4w2_n3', 'ctr_32le_b4w2_n3', 'ctr_32be_b8w2_n3', 'ctr_32le_b8w3_n3', 'ctr_64be_b8w2_n3', 'ctr_64le_b8w3_n3',
                         'ctr_64be_b16w2_n3', 'ctr_64le_b16w2_n3', 'ctr_128be_b16w2_n3', 'ctr_128le_b16w2_n3', 'ctr_128be_b32w2_n2', 'ctr_128le_b32w2_n2']},
    'C05': {'quick': [],
            'thorough': ['cts_cbc1enc_b2w2_n3', 'cts_cbc2enc_b2w2_n3', 'cts_cbc3enc_b2w2_n3', 'cts_cbc1dec_b2w2_n3', 'cts_cbc2dec_b2w2_n3', 'cts_cbc3dec_b2w2_n3',
                         'cts_ecb1enc_b2w2_n3', 'cts_ecb2enc_b2w2_n3', 'cts_ecb3enc_b2w2_n3', 'cts_ecb1dec_b2w2_n3', 'cts_ecb2dec_b2w2_n3', 'cts_ecb3dec_b2w2_n3',
                         'cts_cbc1enc_b3w2_n3', 'cts_cbc2enc_b3w2_n3', 'cts_cbc3enc_b3w2_n3', 'cts_ecb1enc_b3w2_n3', 'cts_ecb2enc_b3w2_n3', 'cts_ecb3enc_b3w2_n3',
                         ], 'timeout': 7200, 'jobs': 3},
    'C08': {'quick': ['ofb_ks_b2w2_n4'],
            'thorough': ['ofb_ks_b2w2_n4', 'ofb_ks_b3w3_n4', 'ctr_32be_b4w2_n3', 'ctr_64le_b8w3_n3', 'cfbbuf_enc_b2w1_n8', 'cfbbuf_dec_b2w1_n8'], 'timeout': 5000, 'jobs': 4},
    'C10': {'quick': [], 'thorough': ['ctr_32be_b4w2_n3', 'ctr_32le_b4w2_n3', 'ctr_64be_b8w2_n3', 'ctr_128le_b16w2_n3']},
    'C11': {'quick': [], 'thorough': ['ctr_limit_b4w2_n3'], 'timeout': 3000},
    'C13': {'quick': [], 'thorough': ['cts_cbc1enc_b2w2_n3', 'cts_ecb2enc_b2w2_n3', 'cts_ecb3dec_b2w2_n3', 'cfbbuf_enc_b2w1_n8', 'cfbbuf_dec_b2w1_n8'], 'timeout': 5000, 'jobs': 3},
    'C14': {'quick': [], 'thorough': ['cts_ecb1enc_b2w2_n3', 'cts_ecb3enc_b2w2_n3', 'cts_cbc3enc_b2w2_n3', 'cfbbuf_enc_b2w1_n8', 'ofb_ks_b2w2_n4'], 'timeout': 5000, 'jobs': 3},
}
