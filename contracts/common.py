"""Contract templates shared by the mode crates (the crates are six-fold / two-fold copies of one
another; the templates keep the copies identical where the code is identical)."""
from vf.extract import FnC, Sel, Mod, Clause

PRELUDE_BLOCK = ['00_base.rs', '05_ranges.rs', '10_inout.rs', '20_cipher.rs', '30_inoutbuf.rs', '40_stream.rs', '35_stream_shims.rs', '45_bytes.rs', '50_fmt_zeroize.rs']


def xor_fn(props=('C02',), kani=('xor_helper',)):
    """`fn xor(out, buf)`: `for (a, b) in out.iter_mut().zip(buf) { *a ^= *b; }` over two Arrays, verified with the
    shim iterator of prelude/00_base.rs (element-wise pairing of zip is the assumed part)."""
    return FnC(attrs=['#[verifier::loop_isolation(false)]'],
               ensures=[('out', props, 'final(out)@ == xor_seq(old(out)@, buf@)')],
               props=props, kani=kani, iters={0: 'it'},
               stmts={'0': 'broadcast use Array::axiom_len;', 'end': '''
    proof {
        assert forall |j: int| 0 <= j < N::USIZE implies final(out)@[j] == old(out)@[j] ^ buf@[j] by {}
        assert(final(out)@ =~= xor_seq(old(out)@, buf@));
    }
'''},
               loops={0: '''
        invariant
            it.history@.len() == it.index@,
            it.history@ + azip_remaining(&it.iter) == azip_remaining(&it.snapshot@),
            azip_remaining(&it.snapshot@).len() == N::USIZE,
            forall |j: int| 0 <= j < it.index@ ==> mut_ref_future(#[trigger] azip_remaining(&it.snapshot@)[j].0) == old(out)@[j] ^ buf@[j],
'''})


def frame_iv_backend(cipher_field='cipher_backend', iv_fields=('iv',)):
    out = []
    for f in iv_fields:
        out.append(('frame_' + f, ('C02', 'C03', 'C07'),
                    'mut_ref_future(final(self).%s) == mut_ref_future(old(self).%s)' % (f, f)))
    out.append(('frame_cipher', ('C02', 'C03', 'C07'),
                'final(self).%s == old(self).%s' % (cipher_field, cipher_field)))
    return out


def backend_members(step_expr, iv_fields=('iv',)):
    cur = ', '.join('self.%s@' % f for f in iv_fields)
    fut = ', '.join('mut_ref_future(self.%s)@' % f for f in iv_fields)
    return '''
    open spec fn abs(&self) -> Abs { seq![%s] }
    #[verifier::prophetic]
    open spec fn abs_fut(&self) -> Abs { seq![%s] }
    open spec fn step(&self) -> Step { %s }
''' % (cur, fut, step_expr)


def mode_members(step_expr, iv_fields=('iv',)):
    cur = ', '.join('self.%s@' % f for f in iv_fields)
    return '''
    open spec fn abs(&self) -> Abs { seq![%s] }
    open spec fn step(&self) -> Step { %s }
''' % (cur, step_expr)


def closure_members(kind, step_ctor, iv_fields=('iv',)):
    """hoisted `Closure` of a *_with_backend: post_c(cipher fn) = inner closure's post on the mode's
    step over that cipher fn and the state behind the &mut fields"""
    cur = ', '.join('self.%s@' % f for f in iv_fields)
    fut = ', '.join('mut_ref_future(self.%s)@' % f for f in iv_fields)
    arg = 'enc' if kind == 'enc' else 'dec'
    return '''
    open spec fn pre_c(&self) -> bool { self.f.pre() }
    #[verifier::prophetic]
    open spec fn post_c(&self, %s: spec_fn(Blk) -> Blk) -> bool {
        self.f.post(%s(%s), seq![%s], seq![%s])
    }
''' % (arg, step_ctor, arg, cur, fut)


def _piece_expr(p):
    kind, v = p
    if kind == 'lit':
        return v + '@'
    if kind == 'const':
        return v + '@'
    return v + '::alg_name()'


def fmt_fn(props=('C17',)):
    """Debug::fmt / write_alg_name.  The text is read mechanically from the body (a sequence of
    literal / F::NAME / nested alg-name writes, see extract.fmt_pieces); the clause says that exactly
    this self-free text is appended (all of it on Ok, a prefix of it on Err)."""
    from vf.extract import fmt_pieces

    def make(toks, fn):
        pieces = fmt_pieces(toks, fn)
        exprs = [_piece_expr(p) for p in pieces]
        total = ' + '.join(exprs)
        stmts = {}
        sofar = []
        stmts['0'] = ('let ghost f0 = fmt_out(f); let ghost tt = %s;\n'
                      'proof { assert(f0 + tt.take(0) =~= f0); }' % total)
        for k, p in enumerate(pieces):
            before = ' + '.join(sofar) if sofar else 'Seq::<char>::empty()'
            if p[0] == 'alg':
                hint = ('proof { assert forall |k: int| 0 <= k <= (%s).len() implies '
                        'f0 + (%s) + #[trigger] (%s).take(k) == f0 + tt.take((%s).len() + k) by {'
                        ' assert(tt.take((%s).len() + k) =~= (%s) + (%s).take(k));'
                        ' assert(f0 + ((%s) + (%s).take(k)) =~= f0 + (%s) + (%s).take(k)); } }'
                        % (exprs[k], before, exprs[k], before, before, before, exprs[k], before, exprs[k], before, exprs[k]))
                stmts[str(k)] = (stmts.get(str(k), '') + '\n' + hint)
            sofar.append(exprs[k])
            cur = ' + '.join(sofar)
            if k + 1 < len(pieces):
                hint = ('proof { assert(tt.take((%s).len() as int) =~= %s); assert(f0 + (%s) =~= f0 + %s); }'
                        % (cur, cur, cur, cur))
                stmts[str(k + 1)] = hint
        last = str(len(pieces) - 1)
        stmts[last] = stmts.get(last, '') + '\nproof { assert(f0 + %s =~= f0 + tt); }' % total
        return FnC(ret='r', ensures=[('type_only_text', props, 'wrote(old(f), final(f), r, %s)' % total)],
                   props=props, stmts=stmts)
    make.props = props
    return make


def drop_fn(fields, props=('C17',)):
    return FnC(extra_spec='opens_invariants none no_unwind',
               ensures=[('wiped_' + f, props, 'final(self).%s.is_zero()' % f) for f in fields], props=props)


def alg_name_members(toks, impl_item):
    """spec member `alg_name()` of an AlgorithmName impl, read mechanically from write_alg_name's body"""
    from vf.extract import fmt_pieces
    fn = [m for m in impl_item.members if m.kind == 'fn' and m.name == 'write_alg_name'][0]
    total = ' + '.join(_piece_expr(p) for p in fmt_pieces(toks, fn))
    return '    open spec fn alg_name() -> Seq<char> { %s }' % total


def std_block_mode_mod(crate, direction, file, step, *, iv_fields=('iv',), backend='Backend', cipher_field='cipher_backend',
                       obj=None, uses=None, backend_fns=None, init_fns=None, state_fns=None, props_rec=None,
                       extra_items=(), cipher_kind=None, drop_fields=None, state_trait_items=True, modname=None):
    """The common shape of cbc / pcbc / ige / cfb / cfb8 {encrypt,decrypt}.rs:
    struct X; hoisted Closure of *_with_backend; InnerIvInit / IvState; AlgorithmName / Debug / Drop;
    struct Backend and its BlockMode{Enc,Dec}Backend impl."""
    enc = direction == 'enc'
    obj = obj or ('Encryptor' if enc else 'Decryptor')
    wb = 'encrypt_with_backend' if enc else 'decrypt_with_backend'
    mode_trait = 'BlockModeEncrypt' if enc else 'BlockModeDecrypt'
    backend_trait = 'BlockModeEncBackend' if enc else 'BlockModeDecBackend'
    cipher_kind = cipher_kind or direction     # which direction of the cipher the mode uses
    cclosure = 'BlockCipherEncClosure' if cipher_kind == 'enc' else 'BlockCipherDecClosure'
    cfn = 'enc_fn' if cipher_kind == 'enc' else 'dec_fn'
    modname = modname or '%s_%s' % (crate.replace('-', '_'), 'encrypt' if enc else 'decrypt')
    pl = ('C07',) + tuple(props_rec[:1])
    items = [
        Sel('struct ' + obj),
        Sel('impl BlockSizeUser for ' + obj),
        Sel('struct Closure', inside=wb),
        Sel('impl BlockSizeUser for Closure', inside=wb),
        Sel('impl %s for Closure' % cclosure, inside=wb,
            members=closure_members(cipher_kind, step, iv_fields),
            fns={'call': FnC(props=pl, inherits=True, note='plumbing: builds the backend from the &mut state and the cipher backend')}),
        Sel('impl %s for %s' % (mode_trait, obj), members=mode_members('%s(self.cipher.%s())' % (step, cfn), iv_fields),
            fns={wb: FnC(props=pl, inherits=True, note='plumbing: hands the state by &mut to the closure')}),
        Sel('impl InnerUser for ' + obj),
        Sel('impl IvSizeUser for ' + obj),
        Sel('impl InnerIvInit for ' + obj, fns=init_fns),
    ]
    if state_fns:
        items.append(Sel('impl IvState for ' + obj, fns=state_fns))
    items += [
        Sel('impl AlgorithmName for ' + obj, members=alg_name_members, fns={'write_alg_name': fmt_fn()}),
        Sel('impl Debug for ' + obj, fns={'fmt': fmt_fn()}),
        Sel('impl Drop for ' + obj, fns={'drop': drop_fn(list(drop_fields if drop_fields is not None else iv_fields))}),
        Sel('struct ' + backend),
        Sel('impl BlockSizeUser for ' + backend),
        Sel('impl ParBlocksSizeUser for ' + backend),
        Sel('impl %s for %s' % (backend_trait, backend),
            members=backend_members('%s(self.%s.%s())' % (step, cipher_field, cfn), iv_fields),
            fns=backend_fns, rest_props=tuple(props_rec)),
    ]
    items += list(extra_items)
    return Mod(modname, file, uses=uses or '', items=items)


BACKEND_PROOF_1 = '''
        proof {
            run_one(old(self).step(), old(self).abs(), x0);
            assert(self.abs() =~= old(self).step()(old(self).abs(), x0).0);
        }
'''


def init_plain(props=('C09',), fields=('iv',)):
    return {'inner_iv_init': FnC(ret='r', props=props, ensures=[
        ('iv', props, ' && '.join('r.%s@ == iv@' % f for f in fields)),
        ('cipher', ('C09', 'C14'), 'r.cipher == cipher')])}


def state_plain(props=('C09',)):
    return {'iv_state': FnC(ret='r', props=props, ensures=[('state', props, 'r@ == self.iv@')])}


def DEPS(count=False, wrapper=False):
    """modules extracted from the pinned `cipher` crate (verified dependency text).  Every unit includes
    them (the repo code is checked against their contracts); their obligations are COUNTED only in the
    `deps` unit, so count=False strips the property tags here."""
    from contracts import dep_block, dep_stream, dep_common
    mods = dep_common.mods() + dep_block.mods() + dep_stream.mods()
    if wrapper:
        from contracts import dep_wrapper
        mods = mods + dep_wrapper.mods()
    if not count:
        for m in mods:
            for sel in m.items:
                for name, fc in sel.fns.items():
                    fc.props = ()
                    for c in fc.ensures:
                        c.iprops = tuple(c.props)
                        c.props = ()
                    # bodies of the dependency are verified once, in the `deps` unit; elsewhere only their
                    # contracts are used (modular verification), so the bodies are not re-verified
                    if not fc.external_body:
                        fc.note = 'dependency text: body verified in unit `deps`'
                    fc.external_body = True
                    fc.try_body = False
                    fc.stmts = {}
                    fc.loops = {}
                    fc.iters = {}
    return mods
