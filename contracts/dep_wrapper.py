"""Contracts on the pinned `cipher` crate's byte-level stream interface (D4): `trait StreamCipher` /
`trait StreamCipherSeek` (src/stream.rs) and the buffering `StreamCipherCoreWrapper` (src/stream/wrapper.rs),
extracted from the cargo registry.  The abstract state of a byte-level cipher is the core's KAbs plus the
not-yet-used bytes of the last generated keystream block; the reference semantics is the per-byte transducer
`wks_run` (spec/wrapper.rs), for which arbitrary splitting is a lemma (wks_concat)."""
from vf.extract import FnC, Sel, Mod

P8 = ('C08', 'C14')
P11 = ('C10', 'C11')

STREAM_MEMBERS = '''
    spec fn swf(&self) -> bool;
    spec fn sstep(&self) -> KStep;
    spec fn score(&self) -> KAbs;
    spec fn sbuf(&self) -> Seq<u8>;
    // a request of n bytes fits into what is left of the keystream
    spec fn sfits(&self, n: int) -> bool;
'''

TRY_ENS = [
    ('wf_kept', P8, 'final(self).swf() && final(self).sstep() == old(self).sstep()'),
    ('ok_iff_fits', P11, 'r is Ok <==> old(self).sfits(%(buf)s.out_cur().len() as int)'),
    ('err_untouched', P11, 'r is Err ==> %(buf)s.out_fut() == %(buf)s.out_cur() && final(self).score() == old(self).score() && final(self).sbuf() == old(self).sbuf()'),
    ('ok_bytes', P8, 'r is Ok ==> (final(self).score(), final(self).sbuf(), %(buf)s.out_fut()) == wks_run(old(self).sstep(), old(self).score(), old(self).sbuf(), %(buf)s.in_val())'),
]


def ens(buf):
    return [(n, p, t % {'buf': buf}) for (n, p, t) in TRY_ENS]


def _slice_ens(inp, out_old, out_new):
    W = 'wks_run(old(self).sstep(), old(self).score(), old(self).sbuf(), %s)' % inp
    return [
        ('wf_kept', P8, 'final(self).swf() && final(self).sstep() == old(self).sstep()'),
        ('ok_iff_fits', P11, 'r is Ok <==> old(self).sfits(%s.len() as int)' % inp),
        ('err_untouched', P11, 'r is Err ==> %s == %s && final(self).score() == old(self).score() && final(self).sbuf() == old(self).sbuf()' % (out_new, out_old)),
        ('ok_bytes', P8, 'r is Ok ==> (final(self).score(), final(self).sbuf(), %s) == %s' % (out_new, W)),
    ]


def stream_trait():
    return Sel('trait StreamCipher', members=STREAM_MEMBERS, fns={
        'try_apply_keystream_inout': FnC(ret='r', props=P8 + P11, requires=['old(self).swf()', 'buf.wf()'], ensures=ens('buf')),
        # the slice-based front-ends users call
        'try_apply_keystream': FnC(ret='r', props=P8 + P11, requires=['old(self).swf()'],
                                   ensures=_slice_ens('old(buf)@', 'old(buf)@', 'final(buf)@')),
        'apply_keystream_inout': FnC(props=P8 + P11, requires=['old(self).swf()', 'buf.wf()', 'old(self).sfits(buf.out_cur().len() as int)'], ensures=[
            ('wf_kept', P8, 'final(self).swf() && final(self).sstep() == old(self).sstep()'),
            ('bytes', P8, '(final(self).score(), final(self).sbuf(), buf.out_fut()) == wks_run(old(self).sstep(), old(self).score(), old(self).sbuf(), buf.in_val())')]),
        'apply_keystream': FnC(props=P8 + P11, requires=['old(self).swf()', 'old(self).sfits(old(buf)@.len() as int)'], ensures=[
            ('wf_kept', P8, 'final(self).swf() && final(self).sstep() == old(self).sstep()'),
            ('bytes', P8, '(final(self).score(), final(self).sbuf(), final(buf)@) == wks_run(old(self).sstep(), old(self).score(), old(self).sbuf(), old(buf)@)')]),
        'apply_keystream_b2b': FnC(ret='r', external_body=True, props=P8 + P11 + ('C13',), requires=['old(self).swf()'],
                                   note='`.and_then(|buf| self.try_apply_keystream_inout(buf))`: closure capturing &mut self is outside this Verus; assumed, exercised by the stream harnesses', ensures=[
            ('wf_kept', P8, 'final(self).swf() && final(self).sstep() == old(self).sstep()'),
            ('reject_unequal', ('C13',), 'input@.len() != old(output)@.len() ==> r is Err && final(output)@ == old(output)@ && final(self).score() == old(self).score() && final(self).sbuf() == old(self).sbuf()'),
            ('ok_iff_fits', P11, 'input@.len() == old(output)@.len() ==> (r is Ok <==> old(self).sfits(input@.len() as int))'),
            ('err_untouched', P11, 'r is Err ==> final(output)@ == old(output)@ && final(self).score() == old(self).score() && final(self).sbuf() == old(self).sbuf()'),
            ('ok_bytes', P8, 'r is Ok ==> (final(self).score(), final(self).sbuf(), final(output)@) == wks_run(old(self).sstep(), old(self).score(), old(self).sbuf(), input@)')]),
    })


WRAPPER_MEMBERS = '''
    pub open spec fn bsz() -> int { T::BlockSize::USIZE as int }
    // the safety invariant of the position byte, and cores whose keystream blocks have the block size
    pub open spec fn wf(&self) -> bool {
        &&& 1 <= self.buffer@[0] <= T::BlockSize::USIZE
        &&& forall |a: KAbs| (#[trigger] self.core.kstep()(a)).1.len() == T::BlockSize::USIZE
    }
    pub open spec fn buffered(&self) -> Seq<u8> { self.buffer@.subrange(self.buffer@[0] as int, T::BlockSize::USIZE as int) }
    pub open spec fn fits(&self, n: int) -> bool {
        match self.core.klimit() {
            None => true,
            Some(l) => l > usize::MAX || n <= Self::bsz() - self.buffer@[0] || (n - (Self::bsz() - self.buffer@[0]) + Self::bsz() - 1) / Self::bsz() <= l,
        }
    }
'''

BS = '''
        broadcast use Array::axiom_len;
        proof { T::BlockSize::block_size_bounds(); }
'''


def wrapper_inherent():
    return Sel('impl StreamCipherCoreWrapper', members=WRAPPER_MEMBERS, fns={
        'get_core': FnC(ret='r', props=P8, ensures=[('same', P8, 'r == &self.core')]),
        'from_core': FnC(ret='r', props=P8, stmts={'0': BS}, ensures=[
            ('fresh', P8, 'r.core == core && r.buffered() == Seq::<u8>::empty() && r.buffer@[0] == T::BlockSize::USIZE')]),
        'get_pos': FnC(ret='r', props=P8, requires=['1 <= self.buffer@[0] <= T::BlockSize::USIZE'], stmts={'0': BS},
                       ensures=[('pos', P8, 'r == self.buffer@[0]')]),
        'set_pos_unchecked': FnC(props=P8, requires=['pos != 0 && pos <= T::BlockSize::USIZE'], stmts={'0': BS}, ensures=[
            ('pos_set', P8, 'final(self).buffer@ == old(self).buffer@.update(0, pos as u8) && final(self).core == old(self).core')]),
        'remaining': FnC(ret='r', props=P8, requires=['1 <= self.buffer@[0] <= T::BlockSize::USIZE'], stmts={'0': BS},
                         ensures=[('rem', P8, 'r as int == T::BlockSize::USIZE - self.buffer@[0]')]),
        'check_remaining': FnC(ret='r', props=P11, requires=['1 <= self.buffer@[0] <= T::BlockSize::USIZE'], stmts={'0': BS},
                               ensures=[('exact', P11, 'r is Ok <==> self.fits(data_len as int)')]),
    })


TRY_PRE = BS + '''
        let ghost k0 = self.core.kstep();
        let ghost a0 = self.core.kabs();
        let ghost b0 = self.buffered();
        let ghost d0 = data;
        let ghost bs = T::BlockSize::USIZE as int;
'''


TRY_SHORT = '''
                proof {
                    let n = data_len as int;
                    wks_from_buffer(k0, a0, b0, d0.in_val());
                    assert(old(self).buffer@.skip(pos as int).take(n) =~= b0.take(n));
                    assert(self.buffered() =~= b0.skip(n));
                }
'''
TRY_GHOSTS = '''
        let ghost mut lin: Seq<u8> = Seq::empty();
        let ghost mut lout: Seq<u8> = Seq::empty();
'''
TRY_LEFT_A = '''
            let ghost gl = left;
'''
TRY_LEFT_B = '''
            proof {
                lin = gl.in_val();
                lout = xor_seq(lin, b0);
                assert(self.buffer@.skip(pos as int) =~= b0);
            }
'''
TRY_MID = '''
        let ghost dm = data;
        proof {
            assert(d0.in_val() =~= lin + dm.in_val());
            assert(d0.out_fut() =~= lout + dm.out_fut());
            assert(lin.len() == b0.len());
        }
'''
TRY_BLOCKS = '''
        let ghost gb = blocks;
        let ghost gt = tail;
        let ghost nb = blocks.out_cur().len();
'''
TRY_TAIL = '''
            proof {
                assert(self.buffer@.take(gt.in_val().len() as int) =~= k0(ks_run(k0, a0, nb).0).1.take(gt.in_val().len() as int));
            }
'''
TRY_END = '''
        proof {
            let m_in = aviews(gb.in_val());
            let r = ks_run(k0, a0, nb);
            let tin = gt.in_val();
            ks_run_len(k0, a0, nb);
            assert forall |i: int| 0 <= i < m_in.len() implies (#[trigger] m_in[i]).len() == bs by {}
            wks_from_buffer(k0, a0, b0, lin);
            assert(b0.skip(lin.len() as int) =~= Seq::<u8>::empty());
            assert(b0.take(lin.len() as int) =~= b0);
            wks_blocks(k0, a0, m_in, bs as nat);
            wks_concat(k0, a0, b0, lin, dm.in_val());
            wks_concat(k0, a0, Seq::empty(), flatg(m_in), tin);
            if tin.len() > 0 {
                wks_partial(k0, r.0, tin);
                let s = k0(r.0);
                assert(self.buffered() =~= s.1.skip(tin.len() as int));
            } else {
                assert(self.buffered() =~= Seq::<u8>::empty());
                assert(gt.out_fut() =~= Seq::<u8>::empty());
            }
            assert(aviews(gb.out_fut()) == xor_blocks(m_in, r.1));
        }
'''


def wrapper_stream():
    return Sel('impl StreamCipher for StreamCipherCoreWrapper', members='''
    open spec fn swf(&self) -> bool { self.wf() }
    open spec fn sstep(&self) -> KStep { self.core.kstep() }
    open spec fn score(&self) -> KAbs { self.core.kabs() }
    open spec fn sbuf(&self) -> Seq<u8> { self.buffered() }
    open spec fn sfits(&self, n: int) -> bool { self.fits(n) }
''', fns={'try_apply_keystream_inout': FnC(props=P8 + P11, inherits=True, stmts={'0': TRY_PRE, '4': TRY_GHOSTS, '4.0.0.0.2': TRY_SHORT, '4.0.3': TRY_LEFT_A, '4.0.end': TRY_LEFT_B,
                                                    '5': TRY_MID, '6': TRY_BLOCKS, '7.1.2': TRY_TAIL, '9': TRY_END})})


SEEK_MEMBERS = '''
    spec fn seek_wf(&self) -> bool;
    // the reported byte position and the (core state, buffered bytes) pair
    spec fn spos(&self) -> int;
    spec fn sstate(&self) -> (KAbs, Seq<u8>);
    // the keystream of this instance: step function, generator state at offset 0, counter modulus, block size;
    // the pair this instance has at byte offset p is wseek_state(sk, sorigin, smod, sbs, p)
    spec fn sk(&self) -> KStep;
    spec fn sorigin(&self) -> KAbs;
    spec fn smod(&self) -> int;
    spec fn sbs(&self) -> int;
    // the hypotheses of the seek lemmas (spec/wrapper.rs) hold, and the reported position is the function
    // spos_of of the state: so wseek_is_run / wseek_keystream / wseek_pos / wpos_after_run apply to this instance
    proof fn lemma_seek_model(&self)
        requires self.seek_wf()
        ensures
            step_law(self.sk(), self.smod()), self.smod() > 0, 0 <= self.sorigin().pos < self.smod(), self.sbs() >= 1,
            forall |a: KAbs| (#[trigger] self.sk()(a)).1.len() == self.sbs(),
            self.spos() == spos_of(self.sstate().0, self.sorigin(), self.smod(), self.sbs(), self.sstate().1.len() as int);
'''
P10 = ('C10',)


def seek_trait():
    return Sel('trait StreamCipherSeek', members=SEEK_MEMBERS, fns={
        'try_current_pos': FnC(ret='r', props=P10, requires=['self.seek_wf()'], ensures=[
            ('exact_or_error', P10, 'r is Ok ==> r->Ok_0.sn_val() == self.spos()')]),
        'try_seek': FnC(ret='r', props=P10, requires=['old(self).seek_wf()', 'pos.sn_val() >= 0'], ensures=[
            ('wf_kept', P10, 'final(self).seek_wf()'),
            ('stream_kept', P10, 'final(self).sk() == old(self).sk() && final(self).sorigin() == old(self).sorigin() && final(self).smod() == old(self).smod() && final(self).sbs() == old(self).sbs()'),
            ('seeked', P10, 'r is Ok ==> final(self).sstate() == wseek_state(old(self).sk(), old(self).sorigin(), old(self).smod(), old(self).sbs(), pos.sn_val())'),
            ('err_untouched', P10, 'r is Err ==> final(self).sstate() == old(self).sstate()'),
            ('ok_within_counter_range', ('C11',), 'r is Ok ==> pos.sn_val() < old(self).smod() * old(self).sbs()'),
            # the only successful seeks beyond the end of the keystream (smod - 1 blocks) are those INTO the block after the last one
            ('beyond_end_only_into_last_block', ('C11',), 'r is Ok ==> pos.sn_val() <= (old(self).smod() - 1) * old(self).sbs() || (pos.sn_val() / old(self).sbs() == old(self).smod() - 1 && pos.sn_val() % old(self).sbs() != 0)'),
            # C11: a seek beyond the end of the keystream must be an error, not a wrap
            ('ok_only_within_keystream', ('C11',), 'r is Ok ==> pos.sn_val() <= (old(self).smod() - 1) * old(self).sbs()', True)]),
    }, drop_fns=['current_pos', 'seek'])


# ---- SeekNum: the trait and its five macro-generated impls (`impl_seek_num! { i32 u32 u64 u128 usize }`, expanded
# mechanically by vf/extract.py expand_macro).  A wrapper position (block, byte) with 1 <= byte <= bs denotes byte offset
# block * bs - (bs - byte); a requested offset p is cut into block = p / bs, byte = p % bs.
SN_VAL = 'T::cval(block) * (bs as int) - ((bs - byte) as int)'


def seeknum_trait():
    return Sel('trait SeekNum', members='''
    spec fn sn_val(self) -> int;
    spec fn sn_fits(v: int) -> bool;
''', fns={
        'from_block_byte': FnC(ret='r', props=P10, requires=['1 <= byte <= bs'], ensures=[
            # C10: a reported position is exact -- never a truncated value
            ('exact', P10, 'r is Ok ==> r->Ok_0.sn_val() == ' + SN_VAL),
            # an error only when the start of the next block or the position itself is not representable
            ('err_only_unrepresentable', P10, 'r is Err ==> !Self::sn_fits(T::cval(block) * (bs as int)) || !Self::sn_fits(' + SN_VAL + ')')]),
        'into_block_byte': FnC(ret='r', props=P10, requires=['bs >= 1'], ensures=[
            ('cut', P10, 'r is Ok && self.sn_val() >= 0 ==> T::cval(r->Ok_0.0) == self.sn_val() / (bs as int) && r->Ok_0.1 as int == self.sn_val() % (bs as int)'),
            ('err_only_out_of_counter_range', P10, 'r is Err ==> self.sn_val() < 0 || !T::cfits(self.sn_val() / (bs as int))')]),
    })


def seeknum_impl(t):
    return Sel('impl SeekNum for ' + t, members='''
    open spec fn sn_val(self) -> int { self as int }
    open spec fn sn_fits(v: int) -> bool { %(t)s::MIN <= v <= %(t)s::MAX }
''' % {'t': t}, fns={
        'from_block_byte': FnC(props=P10, inherits=True, stmts={'0': '''
        let ghost cv = T::cval(block);
        proof {
            T::conv_laws();
            let b = block_size as int;
            assert(cv > %(t)s::MAX && b >= 1 ==> cv * b > %(t)s::MAX) by (nonlinear_arith);
            assert(cv >= 0 && b >= 1 ==> cv * b >= 0) by (nonlinear_arith);
        }
''' % {'t': t}}, closures={1: '''-> (rc: Option<%(t)s>)
                ensures rc == (if v as int - rem as int >= %(t)s::MIN { Some((v - rem) as %(t)s) } else { None })''' % {'t': t}}),
        'into_block_byte': (FnC(props=P10, inherits=True, stmts={'0': '''
        proof { T::conv_laws(); }
'''}) if t != 'i32' else FnC(props=P10, inherits=True, external_body=True, kani=('shim_seeknum_i32_into',),
                      note='this Verus leaves the result of a signed `%` unspecified (probed: `ensures r == a % b` fails for i32), so the body of this one '
                           'instance stays external_body; BOUNDED stand-in: Kani harness shim_seeknum_i32_into (every i32 position, the three counter '
                           'types, block sizes 1, 2, 4, .., 128; the symbolic-divisor version did not finish in 20 min)')),
    })


def wrapper_seek():
    return Sel('impl StreamCipherSeek for StreamCipherCoreWrapper', members='''
    open spec fn seek_wf(&self) -> bool { self.wf() }
    open spec fn spos(&self) -> int { self.core.block_pos() * Self::bsz() - (Self::bsz() - self.buffer@[0]) }
    open spec fn sstate(&self) -> (KAbs, Seq<u8>) { (self.core.kabs(), self.buffered()) }
    open spec fn sk(&self) -> KStep { self.core.kstep() }
    open spec fn sorigin(&self) -> KAbs { self.core.korigin() }
    open spec fn smod(&self) -> int { T::pos_modulus() }
    open spec fn sbs(&self) -> int { Self::bsz() }
    proof fn lemma_seek_model(&self) {
        broadcast use Array::axiom_len;
        T::BlockSize::block_size_bounds();
        self.core.lemma_pos_coherent();
        self.core.lemma_step_law();
        let o = self.core.korigin().pos; let b = self.core.block_pos(); let m = T::pos_modulus();
        mod_diff(o, b, m);
        assert(self.buffered().len() == Self::bsz() - self.buffer@[0]);
    }
''', fns={
        'try_current_pos': FnC(props=P10, inherits=True, stmts={'0': BS, '1': '''
        proof {
            assert forall |c: T::Counter| #[trigger] T::counter_val(c) == <T::Counter as StreamCipherCounter>::cval(c) by { T::lemma_counter_val(c); }
        }
'''}),
        'try_seek': FnC(props=P10, inherits=True, stmts={'0': BS + '''
        let ghost k0 = self.core.kstep();
        let ghost o0 = self.core.korigin();
        let ghost p = new_pos.sn_val();
        let ghost bs = T::BlockSize::USIZE as int;
''', '1': '''
        proof { vstd::arithmetic::div_mod::lemma_mod_bound(p, bs); }
''', '4': '''
        let ghost a = self.core.kabs();
        proof {
            self.core.lemma_pos_coherent();
            T::lemma_counter_val(block_pos);
            vstd::arithmetic::div_mod::lemma_fundamental_div_mod(p, bs);
            let mm = T::pos_modulus();
            assert(p < mm * bs) by (nonlinear_arith)
                requires p == bs * (p / bs) + p % bs, 0 <= p % bs < bs, 0 <= p / bs < mm, bs >= 1;
            assert(p / bs <= mm - 2 ==> p <= (mm - 1) * bs) by (nonlinear_arith)
                requires p == bs * (p / bs) + p % bs, 0 <= p % bs < bs, 0 <= p / bs < mm, bs >= 1;
            assert(p / bs == mm - 1 && p % bs == 0 ==> p <= (mm - 1) * bs) by (nonlinear_arith)
                requires p == bs * (p / bs) + p % bs;
            assert(a == (KAbs { base: o0.base, pos: (o0.pos + p / bs) % T::pos_modulus() }));
        }
''', '6': '''
        proof {
            if byte_pos != 0 {
                assert(self.buffered() =~= k0(a).1.skip(byte_pos as int));
            } else {
                assert(self.buffered() =~= Seq::<u8>::empty());
            }
        }
'''}),
    })


PA = ('C08', 'C14', 'C03')
ASYNC_PRE = '''
        broadcast use Array::axiom_len, axiom_zero_u8;
        proof { <Self as BlockSizeUser>::BlockSize::block_size_bounds(); }
        let ghost st0 = self.step();
        let ghost a0 = self.abs();
        let ghost d0 = data;
'''


def async_fn(v):
    return FnC(props=PA, requires=['data.wf()'], ensures=[
        ('out', PA, '''exists |blocks: Seq<Blk>, tail: Seq<u8>| flatg(blocks) + tail == data.in_val() && tail.len() < <Self as BlockSizeUser>::BlockSize::USIZE
            && (forall |i: int| 0 <= i < blocks.len() ==> (#[trigger] blocks[i]).len() == <Self as BlockSizeUser>::BlockSize::USIZE)
            && data.out_fut() == async_out(self.step(), self.abs(), blocks, tail, <Self as BlockSizeUser>::BlockSize::USIZE as nat)''')],
        stmts={'0': ASYNC_PRE, '2': '''
        let ghost gb = blocks;
        let ghost gt = tail;
        let ghost bsz = <Self as BlockSizeUser>::BlockSize::USIZE as nat;
''', '4': '''
        let ghost a1 = this__.abs();
        let ghost ins = aviews(gb.in_val());
        proof {
            assert(tail.out_cur().len() < bsz) by { vstd::arithmetic::div_mod::lemma_mod_bound(d0.out_cur().len() as int, bsz as int); }
        }
''', '4.0.2': '''
            proof {
                axiom_zero_array::<u8, <Self as BlockSizeUser>::BlockSize>();
                assert(block@.len() == bsz);
                assert forall |i: int| 0 <= i < bsz implies block@[i] == zero_pad(gt.in_val(), bsz)[i] by {
                    if i >= n { assert(block@[i] == zero_of::<Array<u8, <Self as BlockSizeUser>::BlockSize>>()@.skip(n as int)[i - n]); }
                }
                assert(block@ =~= zero_pad(gt.in_val(), bsz));
            }
            let ghost blk_in = block@;
''', '4.0.end': '''
            proof {
                run_one(st0, a1, blk_in);
                let r1 = run(st0, a1, seq![blk_in]);
                assert(seq![block@][0] == r1.1[0]);
                assert(block@ == st0(a1, blk_in).1);
                assert(tail.out_cur() =~= st0(a1, zero_pad(gt.in_val(), bsz)).1.take(n as int));
            }
''', 'end': '''
        proof {
            let r = run(st0, a0, ins);
            assert(r.0 == a1 && r.1 == aviews(gb.out_fut()));
            assert forall |i: int| 0 <= i < ins.len() implies (#[trigger] ins[i]).len() == bsz by {}
            if n == 0 {
                assert(gt.out_fut() =~= Seq::<u8>::empty());
                assert(gt.in_val() =~= Seq::<u8>::empty());
                assert(flatg(r.1) + gt.out_fut() =~= flatg(r.1));
            }
            assert(flatg(ins) + gt.in_val() == d0.in_val());
            assert(d0.out_fut() == async_out(st0, a0, ins, gt.in_val(), bsz));
        }
'''})


def async_trait():
    return Sel('trait AsyncStreamCipher', fns={'encrypt_inout': async_fn('encrypt'), 'decrypt_inout': async_fn('decrypt')},
               drop_fns=['encrypt', 'decrypt', 'encrypt_b2b', 'decrypt_b2b'])


def mods():
    return [
        Mod('dep_streamapi', 'dep:cipher/src/stream.rs', items=[async_trait(), stream_trait(), seek_trait(), seeknum_trait()] + [seeknum_impl(t) for t in ('i32', 'u32', 'u64', 'u128', 'usize')], export=True),
        Mod('dep_wrapper', 'dep:cipher/src/stream/wrapper.rs', items=[
            Sel('struct StreamCipherCoreWrapper'), wrapper_inherent(), wrapper_stream(), wrapper_seek(),
            Sel('impl KeySizeUser for StreamCipherCoreWrapper'), Sel('impl IvSizeUser for StreamCipherCoreWrapper'),
            Sel('impl KeyIvInit for StreamCipherCoreWrapper', members='''
    // C14: the byte-level cipher constructed from key and IV is the wrapper (empty buffer) around the core constructed from them
    open spec fn kiv_post(key: Key<Self>, iv: Iv<Self>, r: Self) -> bool {
        T::kiv_post(key, iv, r.core) && r.buffer@[0] == T::BlockSize::USIZE   // position byte = block size: nothing buffered
    }
''', fns={'new': FnC(props=('C14',), inherits=True, stmts={'0': BS})})], export=True),
    ]
