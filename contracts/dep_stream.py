"""Contracts on the pinned `cipher` crate's stream-core traits and drivers (src/stream/core_api.rs,
extracted from the cargo registry): StreamCipherBackend with its default gen_par_ks_blocks,
StreamCipherClosure, StreamCipherCore with its default block-level methods, and the WriteBlockCtx /
ApplyBlockCtx / ApplyBlocksCtx drivers.  Assumed in the design (D3); verified text here.  Still assumed:
gen_tail_blocks / WriteBlocksCtx (iteration over `&mut [T]`), the byte-buffering wrapper (D4)."""
from vf.extract import FnC, Sel, Mod

P = ('C07', 'C08', 'C01', 'C12', 'C14')

BACKEND_MEMBERS = '''
    spec fn kabs(&self) -> KAbs;
    #[verifier::prophetic]
    spec fn kabs_fut(&self) -> KAbs;
    spec fn kstep(&self) -> KStep;
'''


def kframe():
    return [('step_kept', P, 'final(self).kstep() == old(self).kstep()'),
            ('state_ref_kept', P, 'final(self).kabs_fut() == old(self).kabs_fut()')]


PAR_PRE = '''
        broadcast use Array::axiom_len;
        let ghost k0 = self.kstep();
        let ghost a0 = self.kabs();
        let ghost w = Self::ParBlocksSize::USIZE as int;
'''
PAR_INV = '''
            invariant
                it.history@.len() == it.index@, it.index@ <= w,
                it.history@ + aim_remaining(&it.iter) == aim_remaining(&it.snapshot@),
                aim_remaining(&it.snapshot@).len() == w,
                self.kstep() == k0, self.kabs_fut() == old(self).kabs_fut(),
                self.kabs() == ks_run(k0, a0, it.index@ as nat).0,
                ks_run(k0, a0, it.index@ as nat).1.len() == it.index@,
                forall |j: int| 0 <= j < it.index@ ==> fut_of(#[trigger] aim_remaining(&it.snapshot@)[j])@ == ks_run(k0, a0, it.index@ as nat).1[j],
'''
PAR_BODY = '''
            let ghost idx = it.index@ as nat;
            proof { ks_run_step(k0, a0, idx); ks_run_len(k0, a0, idx); }
'''
PAR_END = '''
        proof {
            ks_run_len(k0, a0, w as nat);
            assert(views(final(blocks)@) =~= ks_run(k0, a0, w as nat).1);
        }
'''


def backend_trait():
    return Sel('trait StreamCipherBackend', members=BACKEND_MEMBERS, fns={
        'gen_ks_block': FnC(props=P, ensures=kframe() + [
            ('one_step', P, '(final(self).kabs(), final(block)@) == old(self).kstep()(old(self).kabs())')]),
        'gen_par_ks_blocks': FnC(props=P, attrs=['#[verifier::loop_isolation(false)]'], ensures=kframe() + [
            ('run', P, '(final(self).kabs(), views(final(blocks)@)) == ks_run(old(self).kstep(), old(self).kabs(), Self::ParBlocksSize::USIZE as nat)')],
            iters={0: 'it'}, stmts={'0': PAR_PRE, '0.0.0': PAR_BODY, 'end': PAR_END}, loops={0: PAR_INV}),
        'gen_tail_blocks': FnC(external_body=True, props=P, requires=['old(blocks)@.len() < Self::ParBlocksSize::USIZE'], ensures=kframe() + [
            ('run', P, '(final(self).kabs(), aviews(final(blocks)@)) == ks_run(old(self).kstep(), old(self).kabs(), old(blocks)@.len())'),
            ('len', P, 'final(blocks)@.len() == old(blocks)@.len()')],
            note='`for block in blocks` over `&mut [T]` (std slice IterMut has no usable spec here): assumed; the assert!(len < ParBlocksSize) is its precondition'),
    })


def closure_trait():
    return Sel('trait StreamCipherClosure', members='''
    spec fn kpre(&self) -> bool;
    #[verifier::prophetic]
    spec fn kpost(&self, k: KStep, a0: KAbs, a1: KAbs) -> bool;
''', fns={'call': FnC(props=P, requires=['self.kpre()'], ensures=[
        ('post', P, 'self.kpost(old(backend).kstep(), old(backend).kabs(), final(backend).kabs())'),
        ('reach', P + ('C10', 'C11'), 'ks_reach(old(backend).kstep(), old(backend).kabs(), final(backend).kabs())'),
        ('step_kept', P, 'final(backend).kstep() == old(backend).kstep()'),
        ('state_ref_kept', P, 'final(backend).kabs_fut() == old(backend).kabs_fut()')])})


def core_trait():
    KS = 'ks_run(old(self).kstep(), old(self).kabs(), %s)'
    return Sel('trait StreamCipherCore', members='''
    spec fn kabs(&self) -> KAbs;
    spec fn kstep(&self) -> KStep;
    // number of keystream blocks left before the generator would repeat (None: unbounded / not representable)
    spec fn klimit(&self) -> Option<int>;
    // the generator state at block position 0 of this instance (seekable cores); no data operation changes it
    spec fn korigin(&self) -> KAbs;
''', fns={
        'remaining_blocks': FnC(ret='r', props=('C10', 'C11'), ensures=[
            ('exact', ('C10', 'C11'), 'r is Some ==> self.klimit() is Some && r->Some_0 as int == self.klimit()->Some_0'),
            ('none_only_if_unrepresentable', ('C10', 'C11'), 'r is None ==> self.klimit() is None || self.klimit()->Some_0 > usize::MAX')]),
        'process_with_backend': FnC(props=P, requires=['f.kpre()'], ensures=[
            ('post', P, 'f.kpost(old(self).kstep(), old(self).kabs(), final(self).kabs())'),
            ('reach', P + ('C10', 'C11'), 'ks_reach(old(self).kstep(), old(self).kabs(), final(self).kabs())'),
            ('origin_kept', ('C10',), 'final(self).korigin() == old(self).korigin()'),
            ('step_kept', P, 'final(self).kstep() == old(self).kstep()')]),
        'write_keystream_block': FnC(props=P, ensures=[
            ('one_step', P, '(final(self).kabs(), final(block)@) == old(self).kstep()(old(self).kabs())'),
            ('origin_kept', ('C10',), 'final(self).korigin() == old(self).korigin()'),
            ('step_kept', P, 'final(self).kstep() == old(self).kstep()')]),
        'apply_keystream_block_inout': FnC(props=P, ensures=[
            ('xor', P, 'final(self).kabs() == old(self).kstep()(old(self).kabs()).0 && block.out_fut()@ == xor_seq(block.in_val()@, old(self).kstep()(old(self).kabs()).1)'),
            ('origin_kept', ('C10',), 'final(self).korigin() == old(self).korigin()'),
            ('step_kept', P, 'final(self).kstep() == old(self).kstep()')]),
        'apply_keystream_blocks': FnC(props=P, ensures=[
            ('xor', P, 'final(self).kabs() == ' + (KS % 'old(blocks)@.len()') + '.0 && aviews(final(blocks)@) == xor_blocks(aviews(old(blocks)@), ' + (KS % 'old(blocks)@.len()') + '.1)'),
            ('origin_kept', ('C10',), 'final(self).korigin() == old(self).korigin()'),
            ('step_kept', P, 'final(self).kstep() == old(self).kstep()')]),
        'apply_keystream_blocks_inout': FnC(props=P, requires=['blocks.wf()'], ensures=[
            ('xor', P, 'final(self).kabs() == ' + (KS % 'blocks.out_cur().len()') + '.0 && aviews(blocks.out_fut()) == xor_blocks(aviews(blocks.in_val()), ' + (KS % 'blocks.out_cur().len()') + '.1)'),
            ('len', P, 'blocks.out_fut().len() == blocks.out_cur().len()'),
            ('origin_kept', ('C10',), 'final(self).korigin() == old(self).korigin()'),
            ('step_kept', P, 'final(self).kstep() == old(self).kstep()')]),
    }, drop_fns=['try_apply_keystream_partial', 'apply_keystream_partial', 'write_keystream_blocks'])


APPLY_PRE = '''
        broadcast use Array::axiom_len;
        let ghost gs = self.blocks;
        let ghost k0 = backend.kstep();
        let ghost a0 = backend.kabs();
        let ghost w = B::ParBlocksSize::USIZE as int;
        let ghost insv = aviews(gs.in_val());
        let ghost nn = gs.out_cur().len();
'''
APPLY_CHUNKED_A = '''
            let ghost pb = chunks;
            let ghost tb = tail;
            let ghost np = chunks.out_cur().len();
            proof {
                assert(tail.out_cur().len() < w) by { vstd::arithmetic::div_mod::lemma_mod_bound(nn as int, w); }
                ks_run_len(k0, a0, 0);
                assert(0 * w == 0) by (nonlinear_arith);
                assert(pb.in_val().take(0) =~= Seq::empty());
                assert(pb.out_fut().take(0) =~= Seq::empty());
            }
'''
APPLY_LOOP_INV = '''
                invariant
                    it1.history@.len() == it1.index@, it1.index@ <= np,
                    it1.history@ + iob_remaining(&it1.iter) == iob_remaining(&it1.snapshot@),
                    iob_remaining(&it1.snapshot@).len() == np,
                    pb.out_cur().len() == np, w > 1,
                    backend.kstep() == k0, backend.kabs_fut() == old(backend).kabs_fut(),
                    backend.kabs() == ks_run(k0, a0, (it1.index@ * w) as nat).0,
                    aviews(flatg(aviews(pb.out_fut().take(it1.index@ as int)))) ==
                        xor_blocks(aviews(flatg(aviews(pb.in_val().take(it1.index@ as int)))), ks_run(k0, a0, (it1.index@ * w) as nat).1),
'''
APPLY_LOOP_BODY = '''
                let ghost c = it1.index@ as int;
                let ghost ck = chunk;
                let ghost s_c = backend.kabs();
'''
APPLY_LOOP_BODY_END = '''
                proof {
                    let xi = aviews(flatg(aviews(pb.in_val().take(c))));
                    let xo = aviews(flatg(aviews(pb.out_fut().take(c))));
                    assert(c * w >= 0) by (nonlinear_arith) requires c >= 0, w > 0;
                    assert(c * w + w == (c + 1) * w) by (nonlinear_arith);
                    ks_run_concat(k0, a0, (c * w) as nat, w as nat);
                    ks_run_len(k0, a0, (c * w) as nat);
                    ks_run_len(k0, s_c, w as nat);
                    flatg_len(aviews(pb.in_val().take(c)), w as nat);
                    let kw = ks_run(k0, s_c, w as nat).1;
                    assert(views(tmp@) == kw);
                    assert(pb.in_val().take(c + 1) =~= pb.in_val().take(c).push(pb.in_val()[c]));
                    assert(pb.out_fut().take(c + 1) =~= pb.out_fut().take(c).push(pb.out_fut()[c]));
                    assert(aviews(pb.in_val().take(c + 1)) =~= aviews(pb.in_val().take(c)).push(pb.in_val()[c]@));
                    assert(aviews(pb.out_fut().take(c + 1)) =~= aviews(pb.out_fut().take(c)).push(pb.out_fut()[c]@));
                    flatg_push(aviews(pb.in_val().take(c)), pb.in_val()[c]@);
                    flatg_push(aviews(pb.out_fut().take(c)), pb.out_fut()[c]@);
                    assert(aviews(flatg(aviews(pb.in_val().take(c + 1)))) =~= xi + views(ck.in_val()@));
                    assert(views(ck.out_fut()@) =~= xor_blocks(views(ck.in_val()@), kw));
                    assert(aviews(flatg(aviews(pb.out_fut().take(c + 1)))) =~= xo + views(ck.out_fut()@));
                    xor_blocks_concat(xi, views(ck.in_val()@), ks_run(k0, a0, (c * w) as nat).1, kw);
                }
'''
APPLY_AFTER_LOOP = '''
            let ghost s_p = backend.kabs();
            let ghost tin = aviews(tb.in_val());
            proof {
                assert(pb.in_val().take(np as int) =~= pb.in_val());
                assert(pb.out_fut().take(np as int) =~= pb.out_fut());
            }
'''
APPLY_TAIL_INV = '''
                invariant
                    n == tb.out_cur().len(), n < w, 0 <= i <= n, ks@.len() == n,
                    tail.wf(), tail.out_cur().len() == n, tail.aliased == tb.aliased, tail.inp == tb.inp, tail.out_fut() == tb.out_fut(),
                    forall |j: int| i <= j < n ==> #[trigger] tail.in_val()[j] == tb.in_val()[j],
                    forall |j: int| 0 <= j < i ==> (#[trigger] tail.out_cur()[j])@ == xor_seq(tb.in_val()[j]@, ks@[j]@),
'''
APPLY_CHUNKED_END = '''
            proof {
                let xi = aviews(flatg(aviews(pb.in_val())));
                let xo = aviews(flatg(aviews(pb.out_fut())));
                let kt = ks_run(k0, s_p, n as nat).1;
                assert(np * w >= 0) by (nonlinear_arith) requires np >= 0, w > 0;
                ks_run_concat(k0, a0, (np * w) as nat, n as nat);
                ks_run_len(k0, a0, (np * w) as nat);
                ks_run_len(k0, s_p, n as nat);
                flatg_len(aviews(pb.in_val()), w as nat);
                flatg_len(aviews(pb.out_fut()), w as nat);
                flatg_len(aviews(pb.out_cur()), w as nat);
                assert(aviews(tb.out_fut()) =~= xor_blocks(tin, kt));
                assert(insv =~= xi + tin);
                assert(aviews(gs.out_fut()) =~= xo + aviews(tb.out_fut()));
                xor_blocks_concat(xi, tin, ks_run(k0, a0, (np * w) as nat).1, kt);
                assert(nn == np * w + n) by { assert(gs.out_cur() == flatg(aviews(pb.out_cur())) + tb.out_cur()); }
                assert(gs.out_fut().len() == gs.out_cur().len());
                assert((backend.kabs(), aviews(gs.out_fut())) == (ks_run(k0, a0, nn).0, xor_blocks(insv, ks_run(k0, a0, nn).1)));
            }
'''
APPLY_SINGLE_PRE = '''
            proof { ks_run_len(k0, a0, 0); }
'''
APPLY_SINGLE_INV = '''
                invariant
                    it.history@.len() == it.index@, it.index@ <= nn,
                    it.history@ + iob_remaining(&it.iter) == iob_remaining(&it.snapshot@),
                    iob_remaining(&it.snapshot@).len() == nn,
                    backend.kstep() == k0, backend.kabs_fut() == old(backend).kabs_fut(),
                    backend.kabs() == ks_run(k0, a0, it.index@ as nat).0,
                    ks_run(k0, a0, it.index@ as nat).1.len() == it.index@,
                    forall |j: int| 0 <= j < it.index@ ==> (#[trigger] gs.out_fut()[j])@ == xor_seq(gs.in_val()[j]@, ks_run(k0, a0, it.index@ as nat).1[j]),
'''
APPLY_SINGLE_BODY = '''
                let ghost idx = it.index@ as nat;
                proof { ks_run_step(k0, a0, idx); ks_run_len(k0, a0, idx); }
'''
APPLY_SINGLE_END = '''
            proof {
                ks_run_len(k0, a0, nn);
                assert(aviews(gs.out_fut()) =~= xor_blocks(insv, ks_run(k0, a0, nn).1));
                assert((backend.kabs(), aviews(gs.out_fut())) == (ks_run(k0, a0, nn).0, xor_blocks(insv, ks_run(k0, a0, nn).1)));
                assert(gs.out_fut().len() == gs.out_cur().len());
            }
'''


def apply_blocks_call():
    return FnC(props=P, inherits=True, attrs=['#[verifier::loop_isolation(false)]'], iters={0: 'it1', 2: 'it'},
               stmts={'0': APPLY_PRE, '0.0.1': APPLY_CHUNKED_A, '0.0.1.0.0': APPLY_LOOP_BODY, '0.0.1.0.end': APPLY_LOOP_BODY_END,
                      '0.0.2': APPLY_AFTER_LOOP, '0.0.end': APPLY_CHUNKED_END,
                      '0.1.0': APPLY_SINGLE_PRE, '0.1.0.0.0': APPLY_SINGLE_BODY, '0.1.end': APPLY_SINGLE_END},
               loops={0: APPLY_LOOP_INV, 1: APPLY_TAIL_INV, 2: APPLY_SINGLE_INV})


def ctx_items():
    return [
        Sel('struct WriteBlockCtx'),
        Sel('impl BlockSizeUser for WriteBlockCtx'),
        Sel('impl StreamCipherClosure for WriteBlockCtx', members='''
    open spec fn kpre(&self) -> bool { true }
    #[verifier::prophetic]
    open spec fn kpost(&self, k: KStep, a0: KAbs, a1: KAbs) -> bool { (a1, mut_ref_future(self.block)@) == k(a0) }
''', fns={'call': FnC(props=P, inherits=True, stmts={'0': 'let ghost k0 = backend.kstep(); let ghost a0 = backend.kabs();', 'end': 'proof { ks_reach_one(k0, a0); }'})}),
        Sel('struct ApplyBlockCtx'),
        Sel('impl BlockSizeUser for ApplyBlockCtx'),
        Sel('impl StreamCipherClosure for ApplyBlockCtx', members='''
    open spec fn kpre(&self) -> bool { true }
    #[verifier::prophetic]
    open spec fn kpost(&self, k: KStep, a0: KAbs, a1: KAbs) -> bool {
        a1 == k(a0).0 && self.block.out_fut()@ == xor_seq(self.block.in_val()@, k(a0).1)
    }
''', fns={'call': FnC(props=P, inherits=True, stmts={'0': 'let ghost k0 = backend.kstep(); let ghost a0 = backend.kabs();', 'end': 'proof { ks_reach_one(k0, a0); }'})}),
        Sel('struct ApplyBlocksCtx'),
        Sel('impl BlockSizeUser for ApplyBlocksCtx'),
        Sel('impl StreamCipherClosure for ApplyBlocksCtx', members='''
    open spec fn kpre(&self) -> bool { self.blocks.wf() }
    #[verifier::prophetic]
    open spec fn kpost(&self, k: KStep, a0: KAbs, a1: KAbs) -> bool {
        &&& (a1, aviews(self.blocks.out_fut())) == (ks_run(k, a0, self.blocks.out_cur().len()).0,
                xor_blocks(aviews(self.blocks.in_val()), ks_run(k, a0, self.blocks.out_cur().len()).1))
        &&& self.blocks.out_fut().len() == self.blocks.out_cur().len()
    }
''', fns={'call': apply_blocks_call()}),
    ]


def mods():
    return [Mod('dep_stream', 'dep:cipher/src/stream/core_api.rs',
                items=[backend_trait(), closure_trait(), core_trait()] + ctx_items(), export=True)]
