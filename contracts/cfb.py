"""Contracts for the `cfb-mode` crate."""
from vf.extract import FnC, Sel, Mod
from vf.unit import Unit, Lemma
from contracts import common as K

P_REC = ('C03', 'C01', 'C07', 'C12', 'C08', 'C14', 'C15', 'C16', 'C09')

INIT = {'inner_iv_init': FnC(ret='r', props=('C09', 'C03'), ensures=[
    ('iv', ('C09', 'C03'), 'r.iv@ == cipher.enc_fn()(iv@)'),
    ('cipher', ('C09', 'C14'), 'r.cipher == cipher')])}
STATE = {'iv_state': FnC(ret='r', props=('C09',), ensures=[('state', ('C09',), 'r@ == self.cipher.dec_fn()(self.iv@)')])}

XOR_SET_NOTE = 'iter_mut().zip(): std iterator adapters cannot be specified (orphan rule); contract checked by Kani, bounded in length'

PAR_PROOF = '''
        proof {
            let w = BK::ParBlocksSize::USIZE as int;
            let xs = views(in0@);
            let ys = views(blocks.out_fut()@);
            let states = |i: int| if i == 0 { seq![iv0] } else { seq![e(in0@[i - 1]@)] };
            assert forall |i: int| 0 <= i < xs.len() implies
                #[trigger] old(self).step()(states(i), xs[i]) == (states(i + 1), ys[i]) by {
                assert(ys[i] == blocks.out_fut()@[i]@);
            }
            run_by_states(old(self).step(), seq![iv0], xs, states, ys);
            assert(self.abs() =~= states(w));
            assert(old(self).abs() =~= seq![iv0]);
        }
'''


def buf_items(obj, data_fn, enc):
    xs = 'xor_set1' if enc else 'xor_set2'
    return [
        Sel('struct ' + obj),
        Sel('impl ' + obj, fns={
            data_fn: FnC(external_body=True, props=('C03', 'C08', 'C13', 'C14', 'C01', 'C09'),
                         requires=['old(self).pos < C::BlockSize::USIZE'],
                         ensures=[
                             ('bytes', ('C03', 'C08', 'C14', 'C01', 'C09'),
                              '(final(self).iv@, final(self).pos as int, final(data)@) == cfb_buf_run(old(self).cipher.enc_fn(), old(self).iv@, old(self).pos as int, old(data)@, %s)' % ('true' if enc else 'false')),
                             ('inv', ('C13', 'C09'), 'final(self).pos < C::BlockSize::USIZE'),
                             ('frame_cipher', ('C03',), 'final(self).cipher == old(self).cipher')],
                         kani=('cfb_buf_%s' % ('enc' if enc else 'dec'),),
                         note='`for chunk in &mut chunks` + `chunks.into_remainder()`: facts about the iterator are lost after a by-&mut loop (probed, DESIGN 3.1); contract checked by Kani against an executable byte transducer, bounded'),
            'get_state': FnC(ret='r', props=('C09',), ensures=[('state', ('C09',), 'r.0@ == self.iv@ && r.1 == self.pos')]),
            'from_state': FnC(ret='r', props=('C09',), ensures=[
                ('state', ('C09',), 'r.iv@ == iv@ && r.pos == pos'), ('cipher', ('C09',), 'r.cipher == cipher')]),
        }),
        Sel('impl InnerUser for ' + obj),
        Sel('impl IvSizeUser for ' + obj),
        Sel('impl InnerIvInit for ' + obj, fns={'inner_iv_init': FnC(ret='r', props=('C09', 'C03'), ensures=[
            ('iv', ('C09', 'C03'), 'r.iv@ == cipher.enc_fn()(iv@) && r.pos == 0'),
            ('cipher', ('C09', 'C14'), 'r.cipher == cipher')])}),
        Sel('impl AlgorithmName for ' + obj, members=K.alg_name_members, fns={'write_alg_name': K.fmt_fn()}),
        Sel('impl Debug for ' + obj, fns={'fmt': K.fmt_fn()}),
        Sel('impl Drop for ' + obj, fns={'drop': K.drop_fn(['iv'])}),
    ]


def unit():
    dec = K.std_block_mode_mod(
        'cfb', 'dec', 'cfb-mode/src/decrypt.rs', 'cfb_dec_step', cipher_kind='enc', backend='CbcDecryptBackend',
        init_fns=INIT, state_fns=STATE, props_rec=P_REC,
        backend_fns={
            'decrypt_block': FnC(props=P_REC, inherits=True, ensures=[
                ('out', P_REC, 'block.out_fut()@ == xor_seq(block.in_val()@, old(self).iv@)'),
                ('state', P_REC + ('C09', 'C15'), 'final(self).iv@ == old(self).cipher_backend.enc_fn()(block.in_val()@)'),
            ] + K.frame_iv_backend(), stmts={'0': 'let ghost x0 = block.in_val()@;', 'end': K.BACKEND_PROOF_1}),
            'decrypt_par_blocks': FnC(props=P_REC, inherits=True, ensures=[
                ('out', P_REC, '''forall |i: int| 0 <= i < BK::ParBlocksSize::USIZE ==>
                (#[trigger] blocks.out_fut()@[i])@ == xor_seq(blocks.in_val()@[i]@,
                    if i == 0 { old(self).iv@ } else { old(self).cipher_backend.enc_fn()(blocks.in_val()@[i - 1]@) })'''),
                ('state', P_REC + ('C09', 'C15'), 'final(self).iv@ == old(self).cipher_backend.enc_fn()(blocks.in_val()@[BK::ParBlocksSize::USIZE - 1]@)'),
            ] + K.frame_iv_backend(), stmts={'0': '''
        broadcast use Array::axiom_len;
        let ghost in0 = blocks.in_val();
        let ghost iv0 = self.iv@;
        let ghost e = self.cipher_backend.enc_fn();
        let ghost blocks0 = blocks;
''', 'end': PAR_PROOF}, loops={0: '''
            invariant
                n == BK::ParBlocksSize::USIZE, n > 1, t@.len() == n, in0@.len() == n, 1 <= i <= n,
                blocks.out@.len() == n,
                forall |j: int| 0 <= j < n ==> (#[trigger] t@[j])@ == e(in0@[j]@),
                mut_ref_future(blocks.out) == mut_ref_future(blocks0.out),
                blocks.aliased == blocks0.aliased, blocks.inp == blocks0.inp,
                forall |j: int| 0 <= j < i ==> (#[trigger] blocks.out@[j])@ == xor_seq(in0@[j]@,
                    if j == 0 { iv0 } else { e(in0@[j - 1]@) }),
                forall |j: int| i <= j < n ==> #[trigger] blocks.in_val()@[j] == in0@[j],
                self.iv@ == iv0,
                mut_ref_future(self.iv) == mut_ref_future(old(self).iv),
                self.cipher_backend == old(self).cipher_backend,
'''}),
        },
        extra_items=buf_items('BufDecryptor', 'decrypt', False) + [
            Sel('impl AsyncStreamCipher for Decryptor'),
            Sel('fn xor_set2', fns={'xor_set2': FnC(external_body=True, props=('C03',), kani=('xor_set',), note=XOR_SET_NOTE, ensures=[
                ('out', ('C03',), '''final(buf1)@.len() == old(buf1)@.len() && final(buf2)@.len() == old(buf2)@.len()
            && forall |i: int| 0 <= i < old(buf1)@.len() && i < old(buf2)@.len() ==>
                #[trigger] final(buf1)@[i] == old(buf1)@[i] ^ old(buf2)@[i] && #[trigger] final(buf2)@[i] == old(buf1)@[i]''')])})])
    enc = K.std_block_mode_mod(
        'cfb', 'enc', 'cfb-mode/src/encrypt.rs', 'cfb_enc_step', backend='CbcEncryptBackend',
        init_fns=INIT, state_fns=STATE, props_rec=P_REC,
        backend_fns={
            'encrypt_block': FnC(props=P_REC, inherits=True, ensures=[
                ('out', P_REC, 'block.out_fut()@ == xor_seq(block.in_val()@, old(self).iv@)'),
                ('state', P_REC + ('C09',), 'final(self).iv@ == old(self).cipher_backend.enc_fn()(block.out_fut()@)'),
            ] + K.frame_iv_backend(), stmts={'0': 'let ghost x0 = block.in_val()@;', 'end': K.BACKEND_PROOF_1}),
        },
        extra_items=[
            Sel('impl AsyncStreamCipher for Encryptor'),
            Sel('fn xor_set1', fns={'xor_set1': FnC(external_body=True, props=('C03',), kani=('xor_set',), note=XOR_SET_NOTE, ensures=[
                ('out', ('C03',), '''final(buf1)@.len() == old(buf1)@.len() && final(buf2)@.len() == old(buf2)@.len()
            && forall |i: int| 0 <= i < old(buf1)@.len() && i < old(buf2)@.len() ==>
                #[trigger] final(buf1)@[i] == old(buf1)@[i] ^ old(buf2)@[i] && #[trigger] final(buf2)@[i] == old(buf1)@[i] ^ old(buf2)@[i]''')])})])
    buf = Mod('cfb_buf', 'cfb-mode/src/encrypt/buf.rs', uses='use super::cfb_encrypt::xor_set1;',
              items=buf_items('BufEncryptor', 'encrypt', True))
    return Unit('cfb', prelude=K.PRELUDE_BLOCK, spec=['steps.rs', 'wrapper_defs.rs'], mods=K.DEPS(wrapper=True) + [dec, enc, buf])
