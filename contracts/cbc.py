"""Contracts for the `cbc` crate."""
from vf.extract import FnC, Sel, Mod
from vf.unit import Unit, Lemma
from contracts import common as K

P_REC = ('C02', 'C01', 'C07', 'C12')

BACKEND_PROOF_1 = '''
        proof {
            run_one(old(self).step(), old(self).abs(), x0);
            assert(self.abs() =~= old(self).step()(old(self).abs(), x0).0);
        }
'''


def decrypt_mod():
    return Mod('cbc_decrypt', 'cbc/src/decrypt.rs', uses='use super::cbc_lib::xor;', items=[
        Sel('struct Decryptor'),
        Sel('impl BlockSizeUser for Decryptor'),
        Sel('struct Closure', inside='decrypt_with_backend'),
        Sel('impl BlockSizeUser for Closure', inside='decrypt_with_backend'),
        Sel('impl BlockCipherDecClosure for Closure', inside='decrypt_with_backend',
            members=K.closure_members('dec', 'cbc_dec_step'),
            fns={'call': FnC(props=('C07', 'C02'), inherits=True, note='plumbing: builds Backend{iv, cipher_backend}')}),
        Sel('impl BlockModeDecrypt for Decryptor', members=K.mode_members('cbc_dec_step(self.cipher.dec_fn())'),
            fns={'decrypt_with_backend': FnC(props=('C07', 'C02'), inherits=True)}),
        Sel('impl InnerUser for Decryptor'),
        Sel('impl IvSizeUser for Decryptor'),
        Sel('impl InnerIvInit for Decryptor', fns={'inner_iv_init': FnC(ret='r', props=('C09', 'C02'), ensures=[
            ('iv', ('C09', 'C02'), 'r.iv@ == iv@'),
            ('cipher', ('C09', 'C14'), 'r.cipher == cipher')])}),
        Sel('impl IvState for Decryptor', fns={'iv_state': FnC(ret='r', props=('C09',), ensures=[
            ('state', ('C09',), 'r@ == self.iv@')])}),
        Sel('impl AlgorithmName for Decryptor',
            members='    open spec fn alg_name() -> Seq<char> { "cbc::Decryptor<"@ + C::alg_name() + ">"@ }',
            fns={'write_alg_name': K.fmt_fn()}),
        Sel('impl Debug for Decryptor', fns={'fmt': K.fmt_fn()}),
        Sel('impl Drop for Decryptor', fns={'drop': K.drop_fn(['iv'])}),
        Sel('struct Backend'),
        Sel('impl BlockSizeUser for Backend'),
        Sel('impl ParBlocksSizeUser for Backend'),
        Sel('impl BlockModeDecBackend for Backend',
            members=K.backend_members('cbc_dec_step(self.cipher_backend.dec_fn())'),
            fns={
                'decrypt_block': FnC(props=P_REC, inherits=True, ensures=[
                    ('out', P_REC, 'block.out_fut()@ == xor_seq(old(self).cipher_backend.dec_fn()(block.in_val()@), old(self).iv@)'),
                    ('state', P_REC + ('C09', 'C15'), 'final(self).iv@ == block.in_val()@'),
                ] + K.frame_iv_backend(),
                    stmts={'0': 'let ghost x0 = block.in_val()@;', 'end': BACKEND_PROOF_1}),
                'decrypt_par_blocks': FnC(props=P_REC, inherits=True, ensures=[
                    ('out', P_REC, '''forall |i: int| 0 <= i < BK::ParBlocksSize::USIZE ==>
                (#[trigger] blocks.out_fut()@[i])@ == xor_seq(
                    old(self).cipher_backend.dec_fn()(blocks.in_val()@[i]@),
                    if i == 0 { old(self).iv@ } else { blocks.in_val()@[i - 1]@ })'''),
                    ('state', P_REC + ('C09', 'C15'), 'final(self).iv@ == blocks.in_val()@[BK::ParBlocksSize::USIZE - 1]@'),
                ] + K.frame_iv_backend(),
                    stmts={'0': '''
        broadcast use Array::axiom_len;
        let ghost in0 = blocks.in_val();
        let ghost iv0 = self.iv@;
        let ghost d = self.cipher_backend.dec_fn();
''', '4': 'let ghost t0 = t;', 'end': '''
        proof {
            let w = BK::ParBlocksSize::USIZE as int;
            let xs = views(in0@);
            let ys = views(blocks.out_fut()@);
            let states = |i: int| if i == 0 { seq![iv0] } else { seq![in0@[i - 1]@] };
            assert forall |i: int| 0 <= i < xs.len() implies
                #[trigger] old(self).step()(states(i), xs[i]) == (states(i + 1), ys[i]) by {
                assert(ys[i] == blocks.out_fut()@[i]@);
            }
            run_by_states(old(self).step(), seq![iv0], xs, states, ys);
            assert(self.abs() =~= states(w));
            assert(old(self).abs() =~= seq![iv0]);
        }
'''},
                    loops={0: '''
            invariant
                n == BK::ParBlocksSize::USIZE, n > 1, t@.len() == n, in_blocks == in0, in0@.len() == n, t0@.len() == n,
                1 <= i <= n,
                forall |j: int| 0 <= j < n ==> (#[trigger] t0@[j])@ == d(in0@[j]@),
                self.iv@ == iv0,
                mut_ref_future(self.iv) == mut_ref_future(old(self).iv),
                self.cipher_backend == old(self).cipher_backend,
                forall |j: int| 0 <= j < i ==> (#[trigger] t@[j])@ == xor_seq(t0@[j]@, if j == 0 { iv0 } else { in0@[j - 1]@ }),
                forall |j: int| i <= j < n ==> t@[j] == t0@[j],
'''}),
            }),
    ])


def encrypt_mod():
    return Mod('cbc_encrypt', 'cbc/src/encrypt.rs', uses='use super::cbc_lib::xor;', items=[
        Sel('struct Encryptor'),
        Sel('impl BlockSizeUser for Encryptor'),
        Sel('struct Closure', inside='encrypt_with_backend'),
        Sel('impl BlockSizeUser for Closure', inside='encrypt_with_backend'),
        Sel('impl BlockCipherEncClosure for Closure', inside='encrypt_with_backend',
            members=K.closure_members('enc', 'cbc_enc_step'),
            fns={'call': FnC(props=('C07', 'C02'), inherits=True)}),
        Sel('impl BlockModeEncrypt for Encryptor', members=K.mode_members('cbc_enc_step(self.cipher.enc_fn())'),
            fns={'encrypt_with_backend': FnC(props=('C07', 'C02'), inherits=True)}),
        Sel('impl InnerUser for Encryptor'),
        Sel('impl IvSizeUser for Encryptor'),
        Sel('impl InnerIvInit for Encryptor', fns={'inner_iv_init': FnC(ret='r', props=('C09', 'C02'), ensures=[
            ('iv', ('C09', 'C02'), 'r.iv@ == iv@'),
            ('cipher', ('C09', 'C14'), 'r.cipher == cipher')])}),
        Sel('impl IvState for Encryptor', fns={'iv_state': FnC(ret='r', props=('C09',), ensures=[
            ('state', ('C09',), 'r@ == self.iv@')])}),
        Sel('impl AlgorithmName for Encryptor',
            members='    open spec fn alg_name() -> Seq<char> { "cbc::Encryptor<"@ + C::alg_name() + ">"@ }',
            fns={'write_alg_name': K.fmt_fn()}),
        Sel('impl Debug for Encryptor', fns={'fmt': K.fmt_fn()}),
        Sel('impl Drop for Encryptor', fns={'drop': K.drop_fn(['iv'])}),
        Sel('struct Backend'),
        Sel('impl BlockSizeUser for Backend'),
        Sel('impl ParBlocksSizeUser for Backend'),
        Sel('impl BlockModeEncBackend for Backend',
            members=K.backend_members('cbc_enc_step(self.cipher_backend.enc_fn())'),
            fns={
                'encrypt_block': FnC(props=P_REC, inherits=True, ensures=[
                    ('out', P_REC, 'block.out_fut()@ == old(self).cipher_backend.enc_fn()(xor_seq(block.in_val()@, old(self).iv@))'),
                    ('state', P_REC + ('C09',), 'final(self).iv@ == block.out_fut()@'),
                ] + K.frame_iv_backend(),
                    stmts={'0': 'let ghost x0 = block.in_val()@;', 'end': BACKEND_PROOF_1}),
            }),
    ])


def lib_mod():
    return Mod('cbc_lib', 'cbc/src/lib.rs', items=[Sel('fn xor', fns={'xor': K.xor_fn()})])


def unit():
    return Unit('cbc', prelude=K.PRELUDE_BLOCK, spec=['steps.rs'],
                mods=[lib_mod(), decrypt_mod(), encrypt_mod()])
