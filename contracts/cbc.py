"""Contracts for the `cbc` crate (C02; carried into C01, C07, C09, C12, C15, C17)."""
from vf.extract import FnC, Sel, Mod
from vf.unit import Unit, Lemma
from contracts import common as K

P_REC = ('C02', 'C01', 'C07', 'C12', 'C14', 'C15', 'C16', 'C09')

PAR_PROOF = '''
        proof {
            let w = BK::ParBlocksSize::USIZE as int;
            let xs = views(in0@);
            let ys = views(blocks.out_fut()@);
            let states = |i: int| if i == 0 { seq![iv0] } else { seq![in0@[i - 1]@] };
            assert forall |i: int| 0 <= i < xs.len() implies
                #[trigger] old(self).step()(states(i), xs[i]) == (states(i + 1), ys[i]) by {
                assert(ys[i] == blocks.out_fut()@[i]@);
            }
            run_by_states(old(self).step(), seq![iv0], xs, states, ys);
            assert(self.abs() =~= states(w));
            assert(old(self).abs() =~= seq![iv0]);
        }
'''


def dec_backend_fns():
    return {
        'decrypt_block': FnC(props=P_REC, inherits=True, ensures=[
            ('out', P_REC, 'block.out_fut()@ == xor_seq(old(self).cipher_backend.dec_fn()(block.in_val()@), old(self).iv@)'),
            ('state', P_REC + ('C09', 'C15'), 'final(self).iv@ == block.in_val()@'),
        ] + K.frame_iv_backend(),
            stmts={'0': 'let ghost x0 = block.in_val()@;', 'end': K.BACKEND_PROOF_1}),
        'decrypt_par_blocks': FnC(props=P_REC, inherits=True, ensures=[
            ('out', P_REC, '''forall |i: int| 0 <= i < BK::ParBlocksSize::USIZE ==>
                (#[trigger] blocks.out_fut()@[i])@ == xor_seq(
                    old(self).cipher_backend.dec_fn()(blocks.in_val()@[i]@),
                    if i == 0 { old(self).iv@ } else { blocks.in_val()@[i - 1]@ })'''),
            ('state', P_REC + ('C09', 'C15'), 'final(self).iv@ == blocks.in_val()@[BK::ParBlocksSize::USIZE - 1]@'),
        ] + K.frame_iv_backend(),
            stmts={'0': '''
        broadcast use Array::axiom_len;
        let ghost in0 = blocks.in_val();
        let ghost iv0 = self.iv@;
        let ghost d = self.cipher_backend.dec_fn();
''', '4': 'let ghost t0 = t;', 'end': PAR_PROOF},
            loops={0: '''
            invariant
                n == BK::ParBlocksSize::USIZE, n > 1, t@.len() == n, in_blocks == in0, in0@.len() == n, t0@.len() == n,
                1 <= i <= n,
                forall |j: int| 0 <= j < n ==> (#[trigger] t0@[j])@ == d(in0@[j]@),
                self.iv@ == iv0,
                mut_ref_future(self.iv) == mut_ref_future(old(self).iv),
                self.cipher_backend == old(self).cipher_backend,
                forall |j: int| 0 <= j < i ==> (#[trigger] t@[j])@ == xor_seq(t0@[j]@, if j == 0 { iv0 } else { in0@[j - 1]@ }),
                forall |j: int| i <= j < n ==> t@[j] == t0@[j],
'''}),
    }


def enc_backend_fns():
    return {
        'encrypt_block': FnC(props=P_REC, inherits=True, ensures=[
            ('out', P_REC, 'block.out_fut()@ == old(self).cipher_backend.enc_fn()(xor_seq(block.in_val()@, old(self).iv@))'),
            ('state', P_REC + ('C09',), 'final(self).iv@ == block.out_fut()@'),
        ] + K.frame_iv_backend(),
            stmts={'0': 'let ghost x0 = block.in_val()@;', 'end': K.BACKEND_PROOF_1}),
    }


def unit():
    lib = Mod('cbc_lib', 'cbc/src/lib.rs', items=[Sel('fn xor', fns={'xor': K.xor_fn(props=P_REC)})])
    dec = K.std_block_mode_mod('cbc', 'dec', 'cbc/src/decrypt.rs', 'cbc_dec_step', uses='use super::cbc_lib::xor;',
                               backend_fns=dec_backend_fns(), init_fns=K.init_plain(('C09', 'C02')),
                               state_fns=K.state_plain(), props_rec=P_REC)
    enc = K.std_block_mode_mod('cbc', 'enc', 'cbc/src/encrypt.rs', 'cbc_enc_step', uses='use super::cbc_lib::xor;',
                               backend_fns=enc_backend_fns(), init_fns=K.init_plain(('C09', 'C02')),
                               state_fns=K.state_plain(), props_rec=P_REC)
    return Unit('cbc', prelude=K.PRELUDE_BLOCK, spec=['steps.rs'], mods=K.DEPS() + [lib, dec, enc])
