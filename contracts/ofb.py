"""Contracts for the `ofb` crate: one Backend behind three traits (C03, C14)."""
from vf.extract import FnC, Sel, Mod
from vf.unit import Unit, Lemma
from contracts import common as K

P_REC = ('C03', 'C01', 'C07', 'C12', 'C14', 'C08', 'C15', 'C16', 'C09')

FRAME = [('frame_iv', ('C03', 'C07'), 'mut_ref_future(final(self).iv) == mut_ref_future(old(self).iv)'),
         ('frame_cipher', ('C03', 'C07'), 'final(self).backend == old(self).backend')]


def block_fn(trait):
    return FnC(props=P_REC, inherits=True, ensures=[
        ('out', P_REC, 'block.out_fut()@ == xor_seq(block.in_val()@, old(self).backend.enc_fn()(old(self).iv@))'),
        ('state', P_REC + ('C09', 'C15'), 'final(self).iv@ == old(self).backend.enc_fn()(old(self).iv@)'),
    ] + FRAME, stmts={'0': 'let ghost x0 = block.in_val()@;', 'end': '''
        proof {
            run_one(%(t)s::step(old(self)), %(t)s::abs(old(self)), x0);
            assert(%(t)s::abs(self) =~= %(t)s::step(old(self))(%(t)s::abs(old(self)), x0).0);
        }
''' % {'t': trait}})


def closure_sel(trait_closure, wb, post, ctor, fut=False):
    return [
        Sel('struct Closure', inside=wb),
        Sel('impl BlockSizeUser for Closure', inside=wb),
        Sel('impl BlockCipherEncClosure for Closure', inside=wb, members='''
    open spec fn pre_c(&self) -> bool { %s }
    #[verifier::prophetic]
    open spec fn post_c(&self, enc: spec_fn(Blk) -> Blk) -> bool {
        self.f.%s(%s(enc), %s, %s)%s
    }
''' % ('self.f.pre()' if post == 'post' else 'self.f.kpre()', post, ctor,
       'seq![self.iv@]' if post == 'post' else 'KAbs { base: self.iv@, pos: 0 }',
       'seq![mut_ref_future(self.iv)@]' if post == 'post' else 'KAbs { base: mut_ref_future(self.iv)@, pos: 0 }',
       '' if post == 'post' else '\n        && ks_reach(ofb_ks(enc), KAbs { base: self.iv@, pos: 0 }, KAbs { base: mut_ref_future(self.iv)@, pos: 0 })'),
            fns={'call': FnC(props=('C07', 'C03', 'C14'), inherits=True, note='plumbing')}),
    ]


def unit():
    items = [
        Sel('type Ofb'),
        Sel('struct OfbCore'),
        Sel('impl BlockSizeUser for OfbCore'),
        Sel('impl InnerUser for OfbCore'),
        Sel('impl IvSizeUser for OfbCore'),
        Sel('impl InnerIvInit for OfbCore', fns=K.init_plain(('C09', 'C03'))),
        Sel('impl IvState for OfbCore', fns=K.state_plain()),
    ]
    items += closure_sel('StreamCipherClosure', 'process_with_backend', 'kpost', 'ofb_ks')
    items += [Sel('impl StreamCipherCore for OfbCore', members='''
    open spec fn kabs(&self) -> KAbs { KAbs { base: self.iv@, pos: 0 } }
    open spec fn kstep(&self) -> KStep { ofb_ks(self.cipher.enc_fn()) }
    open spec fn klimit(&self) -> Option<int> { None }
    open spec fn korigin(&self) -> KAbs { KAbs { base: Seq::empty(), pos: 0 } }
''', fns={'remaining_blocks': FnC(ret='r', props=('C11',), inherits=True, ensures=[('none', ('C11',), 'r is None')]),
          'process_with_backend': FnC(props=('C07', 'C03', 'C14'), inherits=True, note='plumbing')})]
    items += closure_sel('BlockModeEncClosure', 'encrypt_with_backend', 'post', 'ofb_step')
    items += [Sel('impl BlockModeEncrypt for OfbCore', members=K.mode_members('ofb_step(self.cipher.enc_fn())'),
                  fns={'encrypt_with_backend': FnC(props=('C07', 'C03', 'C14'), inherits=True, note='plumbing')})]
    items += closure_sel('BlockModeDecClosure', 'decrypt_with_backend', 'post', 'ofb_step')
    items += [Sel('impl BlockModeDecrypt for OfbCore', members=K.mode_members('ofb_step(self.cipher.enc_fn())'),
                  fns={'decrypt_with_backend': FnC(props=('C07', 'C03', 'C14'), inherits=True, note='plumbing')})]
    items += [
        Sel('impl AlgorithmName for OfbCore', members=K.alg_name_members, fns={'write_alg_name': K.fmt_fn()}),
        Sel('impl Debug for OfbCore', fns={'fmt': K.fmt_fn()}),
        Sel('impl Drop for OfbCore', fns={'drop': K.drop_fn(['iv'])}),
        Sel('struct Backend'),
        Sel('impl BlockSizeUser for Backend'),
        Sel('impl ParBlocksSizeUser for Backend'),
        Sel('impl StreamCipherBackend for Backend', members='''
    open spec fn kabs(&self) -> KAbs { KAbs { base: self.iv@, pos: 0 } }
    #[verifier::prophetic]
    open spec fn kabs_fut(&self) -> KAbs { KAbs { base: mut_ref_future(self.iv)@, pos: 0 } }
    open spec fn kstep(&self) -> KStep { ofb_ks(self.backend.enc_fn()) }
''', fns={'gen_ks_block': FnC(props=P_REC, inherits=True, ensures=[
            ('out', P_REC, 'final(block)@ == old(self).backend.enc_fn()(old(self).iv@)'),
            ('state', P_REC + ('C09', 'C15'), 'final(self).iv@ == old(self).backend.enc_fn()(old(self).iv@)'),
        ] + FRAME)}),
        Sel('impl BlockModeEncBackend for Backend', members=K.backend_members('ofb_step(self.backend.enc_fn())'),
            fns={'encrypt_block': block_fn('BlockModeEncBackend')}),
        Sel('impl BlockModeDecBackend for Backend', members=K.backend_members('ofb_step(self.backend.enc_fn())'),
            fns={'decrypt_block': block_fn('BlockModeDecBackend')}),
    ]
    return Unit('ofb', prelude=K.PRELUDE_BLOCK, spec=['steps.rs', 'wrapper_defs.rs'], mods=K.DEPS(wrapper=True) + [Mod('ofb_lib', 'ofb/src/lib.rs', items=items)])
