// ===== spec library (definitions): byte-level keystream application, seeking, one-shot API (C08, C10, C11, C14) =====
// ===== spec library: byte-level keystream application through a buffering wrapper (C08, C10, C11) =====
// Abstract wrapper state: the core's state `ka` and the not-yet-used bytes `buf` of the last generated
// keystream block.  One byte at a time: use a buffered byte if there is one, otherwise generate the next
// block, use its first byte and buffer the rest.
pub open spec fn wks_run(k: KStep, ka: KAbs, buf: Seq<u8>, data: Seq<u8>) -> (KAbs, Seq<u8>, Seq<u8>)
    decreases data.len()
{
    if data.len() == 0 { (ka, buf, Seq::empty()) }
    else if buf.len() > 0 {
        let r = wks_run(k, ka, buf.skip(1), data.skip(1));
        (r.0, r.1, seq![data[0] ^ buf[0]] + r.2)
    } else {
        let s = k(ka);
        let r = wks_run(k, s.0, s.1.skip(1), data.skip(1));
        (r.0, r.1, seq![data[0] ^ s.1[0]] + r.2)
    }
}

// ---------------------------------------------------------------- seeking (C10)
pub open spec fn step_law(k: KStep, m: int) -> bool {
    forall |a: KAbs| (#[trigger] k(a)).0 == (KAbs { base: a.base, pos: (a.pos + 1) % m })
}
pub open spec fn zeros(n: nat) -> Seq<u8> { Seq::new(n, |i: int| 0u8) }

// the wrapper state (core state, buffered bytes) at byte offset p of the keystream that starts at origin `o`
pub open spec fn wseek_state(k: KStep, o: KAbs, m: int, bs: int, p: int) -> (KAbs, Seq<u8>) {
    let a = KAbs { base: o.base, pos: (o.pos + p / bs) % m };
    if p % bs == 0 { (a, Seq::<u8>::empty()) } else { (k(a).0, k(a).1.skip(p % bs)) }
}

pub open spec fn zero_blocks(n: nat, b: nat) -> Seq<Blk> { Seq::new(n, |i: int| zeros(b)) }

// the byte position a wrapper reports, as a function of its state: blocks generated since the origin times the
// block size, minus the bytes still buffered
pub open spec fn spos_of(a: KAbs, o: KAbs, m: int, bs: int, nbuf: int) -> int { ((a.pos - o.pos) % m) * bs - nbuf }

// ---------------------------------------------------------------- one-shot "asynchronous" stream API (C08, C14)
pub open spec fn zero_pad(t: Seq<u8>, b: nat) -> Seq<u8> { Seq::new(b, |i: int| if i < t.len() { t[i] } else { 0u8 }) }

// AsyncStreamCipher::{encrypt,decrypt}_inout of the `cipher` crate: whole blocks through the block mode, then the
// trailing partial block zero-padded through one more step, of whose output the first |tail| bytes are kept
pub open spec fn async_out(step: Step, a: Abs, blocks: Seq<Blk>, tail: Seq<u8>, b: nat) -> Seq<u8> {
    let r = run(step, a, blocks);
    if tail.len() == 0 { flatg(r.1) } else { flatg(r.1) + step(r.0, zero_pad(tail, b)).1.take(tail.len() as int) }
}

// a step whose output bytes depend on the input bytes position by position (CFB in both directions): the first n
// output bytes are determined by the state and the first n input bytes
pub open spec fn bytewise(step: Step, b: nat) -> bool {
    forall |a: Abs, x: Blk, y: Blk, n: int| #![trigger step(a, x).1.take(n), step(a, y)]
        x.len() == b && y.len() == b && 0 <= n <= b && x.take(n) == y.take(n) ==> step(a, x).1.take(n) == step(a, y).1.take(n)
}


pub proof fn mod_diff(o: int, q: int, m: int)
    requires 0 <= o < m, 0 <= q < m
    ensures (((o + q) % m) - o) % m == q
{
    mod_add_wrap(o, q, m);
    if o + q < m {
        vstd::arithmetic::div_mod::lemma_small_mod(q as nat, m as nat);
    } else {
        vstd::arithmetic::div_mod::lemma_mod_add_multiples_vanish(q - m, m);
        vstd::arithmetic::div_mod::lemma_small_mod(q as nat, m as nat);
    }
}
