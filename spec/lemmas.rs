// ===== lemmas over the transducer specs (no code involved): C01, C07, C08, C09, C14, C15 =====
// Together with the "code = spec" obligations of the units they give the whole-message statements.

// ---------- C01 / C09: generic round trip with synchronised states ----------
pub proof fn lemma_roundtrip(enc: Step, dec: Step, inv: spec_fn(Abs) -> bool, okb: spec_fn(Blk) -> bool, s: Abs, ps: Seq<Blk>)
    requires
        inv(s),
        forall |i: int| 0 <= i < ps.len() ==> okb(#[trigger] ps[i]),
        forall |a: Abs, p: Blk| inv(a) && okb(p) ==> {
            let r = #[trigger] enc(a, p);
            inv(r.0) && dec(a, r.1) == (r.0, p)
        },
    ensures
        run(dec, s, run(enc, s, ps).1) == (run(enc, s, ps).0, ps),      // plaintext recovered, and
        // ... both sides end in the same chaining state (C09: equal reported states)
    decreases ps.len()
{
    if ps.len() == 0 {
        assert(run(enc, s, ps).1 =~= Seq::<Blk>::empty());
        assert(run(dec, s, Seq::<Blk>::empty()).1 =~= ps);
    } else {
        let r = enc(s, ps[0]);
        assert(okb(ps[0]));
        let rest = ps.skip(1);
        assert forall |i: int| 0 <= i < rest.len() implies okb(#[trigger] rest[i]) by { assert(rest[i] == ps[i + 1]); }
        lemma_roundtrip(enc, dec, inv, okb, r.0, rest);
        let cs_rest = run(enc, r.0, rest).1;
        let cs = seq![r.1] + cs_rest;
        assert(run(enc, s, ps).1 == cs);
        assert(cs[0] == r.1);
        assert(cs.skip(1) =~= cs_rest);
        assert(seq![ps[0]] + rest =~= ps);
    }
}

pub open spec fn blk_inv(n: nat, b: nat) -> spec_fn(Abs) -> bool {
    |a: Abs| a.len() == n && forall |i: int| 0 <= i < n ==> (#[trigger] a[i]).len() == b
}
pub open spec fn blk_ok(b: nat) -> spec_fn(Blk) -> bool { |p: Blk| p.len() == b }
pub open spec fn len_preserving(f: spec_fn(Blk) -> Blk) -> bool { forall |x: Blk| (#[trigger] f(x)).len() == x.len() }
pub open spec fn inverse_of(d: spec_fn(Blk) -> Blk, e: spec_fn(Blk) -> Blk) -> bool { forall |x: Blk| d(#[trigger] e(x)) == x }

pub proof fn lemma_xor_len(a: Seq<u8>, b: Seq<u8>) ensures xor_seq(a, b).len() == a.len() {}

// decryption inverts encryption, block by block, for each pair of recurrences (hypothesis: D∘E = id,
// E and D length preserving); the final states agree
pub proof fn lemma_cbc_roundtrip(e: spec_fn(Blk) -> Blk, d: spec_fn(Blk) -> Blk, b: nat, s: Abs, ps: Seq<Blk>)
    requires inverse_of(d, e), len_preserving(e), blk_inv(1, b)(s), forall |i: int| 0 <= i < ps.len() ==> (#[trigger] ps[i]).len() == b
    ensures run(cbc_dec_step(d), s, run(cbc_enc_step(e), s, ps).1) == (run(cbc_enc_step(e), s, ps).0, ps)
{
    let enc = cbc_enc_step(e); let dec = cbc_dec_step(d);
    assert forall |a: Abs, p: Blk| blk_inv(1, b)(a) && blk_ok(b)(p) implies
        ({ let r = #[trigger] enc(a, p); blk_inv(1, b)(r.0) && dec(a, r.1) == (r.0, p) }) by {
        xor_cancel(p, a[0]);
        assert(seq![e(xor_seq(p, a[0]))][0].len() == b);
    }
    lemma_roundtrip(enc, dec, blk_inv(1, b), blk_ok(b), s, ps);
}

pub proof fn lemma_pcbc_roundtrip(e: spec_fn(Blk) -> Blk, d: spec_fn(Blk) -> Blk, b: nat, s: Abs, ps: Seq<Blk>)
    requires inverse_of(d, e), len_preserving(e), blk_inv(1, b)(s), forall |i: int| 0 <= i < ps.len() ==> (#[trigger] ps[i]).len() == b
    ensures run(pcbc_dec_step(d), s, run(pcbc_enc_step(e), s, ps).1) == (run(pcbc_enc_step(e), s, ps).0, ps)
{
    let enc = pcbc_enc_step(e); let dec = pcbc_dec_step(d);
    assert forall |a: Abs, p: Blk| blk_inv(1, b)(a) && blk_ok(b)(p) implies
        ({ let r = #[trigger] enc(a, p); blk_inv(1, b)(r.0) && dec(a, r.1) == (r.0, p) }) by {
        xor_cancel(p, a[0]);
        let c = e(xor_seq(p, a[0]));
        assert(seq![xor_seq(p, c)][0].len() == b);
    }
    lemma_roundtrip(enc, dec, blk_inv(1, b), blk_ok(b), s, ps);
}

pub proof fn lemma_ige_roundtrip(e: spec_fn(Blk) -> Blk, d: spec_fn(Blk) -> Blk, b: nat, s: Abs, ps: Seq<Blk>)
    requires inverse_of(d, e), len_preserving(e), blk_inv(2, b)(s), forall |i: int| 0 <= i < ps.len() ==> (#[trigger] ps[i]).len() == b
    ensures run(ige_dec_step(d), s, run(ige_enc_step(e), s, ps).1) == (run(ige_enc_step(e), s, ps).0, ps)
{
    let enc = ige_enc_step(e); let dec = ige_dec_step(d);
    assert forall |a: Abs, p: Blk| blk_inv(2, b)(a) && blk_ok(b)(p) implies
        ({ let r = #[trigger] enc(a, p); blk_inv(2, b)(r.0) && dec(a, r.1) == (r.0, p) }) by {
        let t = e(xor_seq(p, a[1]));
        let c = xor_seq(t, a[0]);
        xor_cancel(t, a[0]);
        xor_cancel(p, a[1]);
        let r0 = seq![p, c];
        assert(r0[0].len() == b && r0[1].len() == b);
    }
    lemma_roundtrip(enc, dec, blk_inv(2, b), blk_ok(b), s, ps);
}

// CFB / CFB-8 / OFB / CTR use only E; decryption is the same function with ciphertext fed back
pub proof fn lemma_cfb_roundtrip(e: spec_fn(Blk) -> Blk, b: nat, s: Abs, ps: Seq<Blk>)
    requires len_preserving(e), blk_inv(1, b)(s), forall |i: int| 0 <= i < ps.len() ==> (#[trigger] ps[i]).len() == b
    ensures run(cfb_dec_step(e), s, run(cfb_enc_step(e), s, ps).1) == (run(cfb_enc_step(e), s, ps).0, ps)
{
    let enc = cfb_enc_step(e); let dec = cfb_dec_step(e);
    assert forall |a: Abs, p: Blk| blk_inv(1, b)(a) && blk_ok(b)(p) implies
        ({ let r = #[trigger] enc(a, p); blk_inv(1, b)(r.0) && dec(a, r.1) == (r.0, p) }) by {
        xor_cancel(p, a[0]);
        assert(seq![e(xor_seq(p, a[0]))][0].len() == b);
    }
    lemma_roundtrip(enc, dec, blk_inv(1, b), blk_ok(b), s, ps);
}

pub proof fn lemma_ofb_roundtrip(e: spec_fn(Blk) -> Blk, b: nat, s: Abs, ps: Seq<Blk>)
    requires len_preserving(e), blk_inv(1, b)(s), forall |i: int| 0 <= i < ps.len() ==> (#[trigger] ps[i]).len() == b
    ensures run(ofb_step(e), s, run(ofb_step(e), s, ps).1) == (run(ofb_step(e), s, ps).0, ps)
{
    let st = ofb_step(e);
    assert forall |a: Abs, p: Blk| blk_inv(1, b)(a) && blk_ok(b)(p) implies
        ({ let r = #[trigger] st(a, p); blk_inv(1, b)(r.0) && st(a, r.1) == (r.0, p) }) by {
        xor_cancel(p, e(a[0]));
        assert(seq![e(a[0])][0].len() == b);
    }
    lemma_roundtrip(st, st, blk_inv(1, b), blk_ok(b), s, ps);
}

pub proof fn lemma_cfb8_roundtrip(e: spec_fn(Blk) -> Blk, b: nat, s: Abs, ps: Seq<Blk>)
    requires len_preserving(e), b >= 1, blk_inv(1, b)(s), forall |i: int| 0 <= i < ps.len() ==> (#[trigger] ps[i]).len() == 1
    ensures run(cfb8_dec_step(e), s, run(cfb8_enc_step(e), s, ps).1) == (run(cfb8_enc_step(e), s, ps).0, ps)
{
    let enc = cfb8_enc_step(e); let dec = cfb8_dec_step(e);
    assert forall |a: Abs, p: Blk| blk_inv(1, b)(a) && blk_ok(1)(p) implies
        ({ let r = #[trigger] enc(a, p); blk_inv(1, b)(r.0) && dec(a, r.1) == (r.0, p) }) by {
        let k = e(a[0])[0]; let x = p[0];
        assert((x ^ k) ^ k == x) by (bit_vector);
        assert(seq![(x ^ k) ^ k] =~= p);
        assert(seq![a[0].skip(1).push(x ^ k)][0].len() == b);
    }
    lemma_roundtrip(enc, dec, blk_inv(1, b), blk_ok(1), s, ps);
}

// keystream modes (CTR flavours, BelT-CTR, OFB as stream): applying the same keystream twice is the identity
pub proof fn lemma_keystream_involution(x: Seq<u8>, k: Seq<u8>)
    requires x.len() == k.len()
    ensures xor_seq(xor_seq(x, k), k) == x
{ xor_cancel(x, k); }

// ---------- C07 / C08: any partition of the input gives the same result ----------
pub proof fn lemma_run_split(step: Step, s: Abs, xs: Seq<Blk>, k: int)
    requires 0 <= k <= xs.len()
    ensures ({ let r1 = run(step, s, xs.take(k)); let r2 = run(step, r1.0, xs.skip(k)); run(step, s, xs) == (r2.0, r1.1 + r2.1) })
{
    run_concat(step, s, xs.take(k), xs.skip(k));
    assert(xs.take(k) + xs.skip(k) =~= xs);
}

// C08 prefix preservation (one-shot CFB / CFB-8): the output for m is the prefix of the output for m ++ t
pub proof fn lemma_run_prefix(step: Step, s: Abs, m: Seq<Blk>, t: Seq<Blk>)
    ensures run(step, s, m + t).1.take(m.len() as int) == run(step, s, m).1
{
    run_concat(step, s, m, t);
    run_len(step, s, m);
    let r1 = run(step, s, m);
    let r2 = run(step, r1.0, t);
    assert((r1.1 + r2.1).take(m.len() as int) =~= r1.1);
}

// C15 causality: no output block depends on later input
pub proof fn lemma_run_causal(step: Step, s: Abs, xs: Seq<Blk>, ys: Seq<Blk>, k: int)
    requires 0 <= k <= xs.len(), k <= ys.len(), xs.take(k) == ys.take(k)
    ensures run(step, s, xs).1.take(k) == run(step, s, ys).1.take(k)
{
    lemma_run_split(step, s, xs, k);
    lemma_run_split(step, s, ys, k);
    run_len(step, s, xs.take(k));
    let r = run(step, s, xs.take(k));
    assert((r.1 + run(step, r.0, xs.skip(k)).1).take(k) =~= r.1);
    assert((r.1 + run(step, r.0, ys.skip(k)).1).take(k) =~= r.1);
}

// buffered CFB: byte-level splitting (C08) -- any cut, including empty pieces and block boundaries
pub proof fn lemma_cfb_buf_concat(e: spec_fn(Blk) -> Blk, iv: Seq<u8>, pos: int, a: Seq<u8>, b: Seq<u8>, enc: bool)
    ensures ({
        let r1 = cfb_buf_run(e, iv, pos, a, enc);
        let r2 = cfb_buf_run(e, r1.0, r1.1, b, enc);
        cfb_buf_run(e, iv, pos, a + b, enc) == (r2.0, r2.1, r1.2 + r2.2)
    })
    decreases a.len()
{
    if a.len() == 0 {
        assert(a + b =~= b);
        let r2 = cfb_buf_run(e, iv, pos, b, enc);
        assert(Seq::<u8>::empty() + r2.2 =~= r2.2);
    } else {
        let x = a[0];
        let o = x ^ iv[pos];
        let fb = if enc { o } else { x };
        let iv1 = iv.update(pos, fb);
        let (iv2, pos2) = if pos + 1 == iv.len() { (e(iv1), 0int) } else { (iv1, pos + 1) };
        assert((a + b)[0] == a[0]);
        assert((a + b).skip(1) =~= a.skip(1) + b);
        lemma_cfb_buf_concat(e, iv2, pos2, a.skip(1), b, enc);
        let ra = cfb_buf_run(e, iv2, pos2, a.skip(1), enc);
        let rb = cfb_buf_run(e, ra.0, ra.1, b, enc);
        assert(seq![o] + (ra.2 + rb.2) =~= (seq![o] + ra.2) + rb.2);
    }
}

// ---------- C09: the exported value re-imported resumes the stream ----------
// CFB exports D(state) and imports E(iv): needs E∘D = id on the state
pub proof fn lemma_cfb_resume(e: spec_fn(Blk) -> Blk, d: spec_fn(Blk) -> Blk, st: Blk)
    requires inverse_of(e, d)
    ensures e(d(st)) == st
{}
// ... and the exported value is the public chaining value (the last ciphertext block): D(E(c)) = c
pub proof fn lemma_cfb_public_state(e: spec_fn(Blk) -> Blk, d: spec_fn(Blk) -> Blk, c: Blk)
    requires inverse_of(d, e)
    ensures d(e(c)) == c
{}
// BelT-CTR exports D(le128(s)), imports le128^-1(E(.)): s is recovered
pub proof fn lemma_belt_resume(e: spec_fn(Blk) -> Blk, d: spec_fn(Blk) -> Blk, s: int)
    requires inverse_of(e, d), 0 <= s < two128()
    ensures le_val(e(d(le_bytes(s, 16)))) == s
{
    pow256_values();
    le_val_of_bytes(s, 16);
}

// ---------- C14: OFB is one function behind its three front-ends ----------
pub proof fn lemma_ofb_block_is_stream(e: spec_fn(Blk) -> Blk, a: Abs, x: Blk)
    ensures ({
        let k = ofb_ks(e)(KAbs { base: a[0], pos: 0 });
        ofb_step(e)(a, x) == (seq![k.0.base], xor_seq(x, k.1))
    })
{}

// ---------- C15: error propagation on decryption ----------
// CBC: the state after a block is that ciphertext block -- two ciphertexts that agree from block j+1 on
// are decrypted identically from block j+2 on, and block j+1 differs by exactly the ciphertext difference
pub proof fn lemma_cbc_dec_propagation(d: spec_fn(Blk) -> Blk, a: Abs, a2: Abs, c: Blk, c2: Blk, next: Blk)
    requires c.len() == c2.len(), next.len() == c.len(), d(next).len() == next.len()
    ensures ({
        let st = cbc_dec_step(d);
        let r1 = st(a, c); let r2 = st(a2, c2);
        let n1 = st(r1.0, next); let n2 = st(r2.0, next);
        &&& n1.0 == n2.0                                                        // re-synchronised after one block
        &&& n2.1 == xor_seq(n1.1, xor_seq(c, c2))                               // same bit positions flipped in block j+1
    })
{
    let p = d(next);
    assert(xor_seq(p, c2) =~= xor_seq(xor_seq(p, c), xor_seq(c, c2))) by {
        assert forall |i: int| 0 <= i < p.len() implies (p[i] ^ c2[i]) == ((p[i] ^ c[i]) ^ (c[i] ^ c2[i])) by {
            let x = p[i]; let y = c[i]; let z = c2[i];
            assert((x ^ z) == ((x ^ y) ^ (y ^ z))) by (bit_vector);
        }
    }
}
// CFB: block j flips exactly the altered bits, block j+1 is garbled, then re-synchronised
pub proof fn lemma_cfb_dec_propagation(e: spec_fn(Blk) -> Blk, a: Abs, c: Blk, c2: Blk, next: Blk)
    requires c.len() == c2.len(), a[0].len() == c.len()
    ensures ({
        let st = cfb_dec_step(e);
        let r1 = st(a, c); let r2 = st(a, c2);
        let n1 = st(r1.0, next); let n2 = st(r2.0, next);
        &&& r2.1 == xor_seq(r1.1, xor_seq(c, c2))
        &&& n1.0 == n2.0
    })
{
    let k = a[0];
    assert(xor_seq(c2, k) =~= xor_seq(xor_seq(c, k), xor_seq(c, c2))) by {
        assert forall |i: int| 0 <= i < c.len() implies (c2[i] ^ k[i]) == ((c[i] ^ k[i]) ^ (c[i] ^ c2[i])) by {
            let x = c[i]; let y = k[i]; let z = c2[i];
            assert((z ^ y) == ((x ^ y) ^ (x ^ z))) by (bit_vector);
        }
    }
}
// keystream modes: the keystream step takes no data at all (its type is KStep = KAbs -> (KAbs, Blk)),
// so altering the data flips exactly the same bit positions of the output
pub proof fn lemma_keystream_flip(x: Seq<u8>, x2: Seq<u8>, k: Seq<u8>)
    requires x.len() == x2.len(), x.len() == k.len()
    ensures xor_seq(x2, k) == xor_seq(xor_seq(x, k), xor_seq(x, x2))
{
    assert(xor_seq(x2, k) =~= xor_seq(xor_seq(x, k), xor_seq(x, x2))) by {
        assert forall |i: int| 0 <= i < x.len() implies (x2[i] ^ k[i]) == ((x[i] ^ k[i]) ^ (x[i] ^ x2[i])) by {
            let a = x[i]; let b = k[i]; let c = x2[i];
            assert((c ^ b) == ((a ^ b) ^ (a ^ c))) by (bit_vector);
        }
    }
}
// PCBC / IGE: the state folds in the plaintext, so a changed block changes the state that every later
// block is decrypted with: the propagated difference of the PCBC state is D(c)^D(c2)^c^c2
pub proof fn lemma_pcbc_dec_state_diff(d: spec_fn(Blk) -> Blk, a: Abs, c: Blk, c2: Blk)
    ensures ({
        let st = pcbc_dec_step(d);
        st(a, c).0[0] == xor_seq(xor_seq(d(c), a[0]), c) && st(a, c2).0[0] == xor_seq(xor_seq(d(c2), a[0]), c2)
    })
{}
// CFB-8: after the altered byte has been shifted out of the register (b further bytes) states agree again
pub proof fn lemma_cfb8_register_shift(s: Seq<u8>, c: u8)
    requires s.len() >= 1
    ensures s.skip(1).push(c).len() == s.len(), s.skip(1).push(c)[s.len() - 1] == c,
            forall |i: int| 0 <= i < s.len() - 1 ==> s.skip(1).push(c)[i] == s[i + 1]
{}

// ---------- C14: ciphertext stealing on a whole number of blocks ----------
// CBC-CS1 and CBC-CS2 equal plain CBC; CBC-CS3 equals it with the last two blocks exchanged (one block: plain)
pub proof fn lemma_cbc_cs_whole_blocks(e: spec_fn(Blk) -> Blk, iv: Blk, ps: Seq<Blk>)
    requires ps.len() >= 1
    ensures
        cbc_cs_enc(1, e, iv, ps, Seq::empty()) == flatg(cbc_chain(e, iv, ps)),
        cbc_cs_enc(2, e, iv, ps, Seq::empty()) == flatg(cbc_chain(e, iv, ps)),
        ps.len() == 1 ==> cbc_cs_enc(3, e, iv, ps, Seq::empty()) == flatg(cbc_chain(e, iv, ps)),
        ps.len() >= 2 ==> ({
            let cs = cbc_chain(e, iv, ps); let n = ps.len() as int;
            cbc_cs_enc(3, e, iv, ps, Seq::empty()) == flatg(cs.take(n - 2).push(cs[n - 1]).push(cs[n - 2]))
        }),
{
    let cs = cbc_chain(e, iv, ps); let n = ps.len() as int;
    run_len(cbc_enc_step(e), seq![iv], ps);
    if n >= 2 {
        flatg_push(cs.take(n - 2).push(cs[n - 1]), cs[n - 2]);
        flatg_push(cs.take(n - 2), cs[n - 1]);
    }
}
// the ECB variants equal raw block encryption (same exchange for CS3)
pub proof fn lemma_ecb_cs_whole_blocks(e: spec_fn(Blk) -> Blk, b: nat, ps: Seq<Blk>)
    requires ps.len() >= 1
    ensures
        ecb_cs_enc(1, e, b, ps, Seq::empty()) == flatg(ecb_map(e, ps)),
        ecb_cs_enc(2, e, b, ps, Seq::empty()) == flatg(ecb_map(e, ps)),
        ps.len() == 1 ==> ecb_cs_enc(3, e, b, ps, Seq::empty()) == flatg(ecb_map(e, ps)),
        ps.len() >= 2 ==> ({
            let cs = ecb_map(e, ps); let n = ps.len() as int;
            ecb_cs_enc(3, e, b, ps, Seq::empty()) == flatg(cs.take(n - 2).push(cs[n - 1]).push(cs[n - 2]))
        }),
{
    let cs = ecb_map(e, ps); let n = ps.len() as int;
    if n >= 2 {
        flatg_push(cs.take(n - 2).push(cs[n - 1]), cs[n - 2]);
        flatg_push(cs.take(n - 2), cs[n - 1]);
    }
}
// the CBC helper of the cts crate and the cbc crate's backend are the same transducer: both are stated
// against run(cbc_enc_step / cbc_dec_step) -- cts_lib::cbc_enc#chain, cbc_encrypt::...::encrypt_block#trait-contract
// buffered CFB on whole blocks from a block boundary equals block-level CFB (one step)
pub proof fn lemma_cfb_buf_block(e: spec_fn(Blk) -> Blk, ks: Seq<u8>, p: Seq<u8>, enc: bool)
    requires ks.len() == p.len(), p.len() >= 1
    ensures ({
        let r = cfb_buf_run(e, ks, 0, p, enc);
        let c = xor_seq(p, ks);
        &&& r.2 == c
        &&& r.1 == 0
        &&& r.0 == e(if enc { c } else { p })
    })
{
    lemma_cfb_buf_prefix(e, ks, ks, 0, p, enc);
    let c = xor_seq(p, ks);
    assert(cfb_buf_run(e, ks, 0, p, enc).2 =~= c);
    assert(cfb_fin(ks, ks, 0, p, enc) =~= (if enc { c } else { p }));
}
pub open spec fn cfb_fin(reg: Seq<u8>, ks: Seq<u8>, pos: int, p: Seq<u8>, enc: bool) -> Seq<u8> {
    Seq::new(ks.len(), |i: int| if i < pos { reg[i] } else if enc { p[i - pos] ^ ks[i] } else { p[i - pos] })
}
// generalisation used by the induction: starting at position pos with the first pos bytes of the register
// already replaced, processing the remaining b - pos bytes completes the block
pub proof fn lemma_cfb_buf_prefix(e: spec_fn(Blk) -> Blk, ks: Seq<u8>, reg: Seq<u8>, pos: int, p: Seq<u8>, enc: bool)
    requires
        0 <= pos < ks.len(), reg.len() == ks.len(), p.len() == ks.len() - pos,
        forall |i: int| pos <= i < ks.len() ==> reg[i] == ks[i],
    ensures ({
        let r = cfb_buf_run(e, reg, pos, p, enc);
        let b = ks.len() as int;
        &&& r.1 == 0
        &&& r.2.len() == p.len()
        &&& forall |i: int| 0 <= i < p.len() ==> r.2[i] == p[i] ^ ks[pos + i]
        &&& r.0 == e(cfb_fin(reg, ks, pos, p, enc))
    })
    decreases p.len()
{
    let b = ks.len() as int;
    let x = p[0];
    let o = x ^ reg[pos];
    let fb = if enc { o } else { x };
    let reg1 = reg.update(pos, fb);
    let fin = cfb_fin(reg, ks, pos, p, enc);
    if pos + 1 == b {
        assert(p.skip(1) =~= Seq::<u8>::empty());
        assert(reg1 =~= fin);
        let r = cfb_buf_run(e, reg, pos, p, enc);
        let r1 = cfb_buf_run(e, e(reg1), 0, p.skip(1), enc);
        assert(r1 == (e(reg1), 0int, Seq::<u8>::empty()));
        assert(r == (r1.0, r1.1, seq![o] + r1.2));
        assert(r.2 =~= seq![o]);
    } else {
        lemma_cfb_buf_prefix(e, ks, reg1, pos + 1, p.skip(1), enc);
        let r1 = cfb_buf_run(e, reg1, pos + 1, p.skip(1), enc);
        let fin1 = cfb_fin(reg1, ks, pos + 1, p.skip(1), enc);
        assert(fin1 =~= fin);
        let r = cfb_buf_run(e, reg, pos, p, enc);
        assert(r.2 =~= seq![o] + r1.2);
        assert forall |i: int| 0 <= i < p.len() implies r.2[i] == p[i] ^ ks[pos + i] by {
            if i > 0 { assert(r.2[i] == r1.2[i - 1]); assert(p.skip(1)[i - 1] == p[i]); }
        }
    }
}

// ---------- C01 for ciphertext stealing: decryption inverts encryption ----------
// The ciphertext is given by its (unique) cut into full blocks `cps` and tail `ct`.
pub proof fn lemma_xor_zero_pad(t: Seq<u8>, c: Seq<u8>, b: nat)
    requires c.len() == b, t.len() <= b
    ensures
        xor_seq(pad0(t, b), c).skip(t.len() as int) == c.skip(t.len() as int),       // 0 ^ c = c on the padding
        xor_seq(xor_seq(pad0(t, b), c), c).take(t.len() as int) == t,                  // (t ^ c) ^ c = t
{
    let d = t.len() as int;
    let z = xor_seq(pad0(t, b), c);
    assert forall |i: int| d <= i < b implies z[i] == c[i] by {
        let y = c[i];
        assert(0u8 ^ y == y) by (bit_vector);
    }
    assert(z.skip(d) =~= c.skip(d));
    assert forall |i: int| 0 <= i < d implies xor_seq(z, c)[i] == t[i] by {
        let x = t[i]; let y = c[i];
        assert((x ^ y) ^ y == x) by (bit_vector);
    }
    assert(xor_seq(z, c).take(d) =~= t);
}

pub proof fn lemma_cbc_cs_tail_inverts(e: spec_fn(Blk) -> Blk, d: spec_fn(Blk) -> Blk, b: nat, prev: Blk, c_pen: Blk, p_pen: Blk, t: Seq<u8>)
    requires
        inverse_of(d, e), len_preserving(e), len_preserving(d),
        prev.len() == b, c_pen.len() == b, p_pen.len() == b, 1 <= t.len() <= b,
        c_pen == e(xor_seq(p_pen, prev)),
    ensures ({
        let c_last = e(xor_seq(pad0(t, b), c_pen));
        cbc_cs_dec_tail(d, prev, c_pen.take(t.len() as int), c_last) == p_pen + t
    })
{
    let dl = t.len() as int;
    let c_last = e(xor_seq(pad0(t, b), c_pen));
    let z = d(c_last);
    assert(z == xor_seq(pad0(t, b), c_pen));
    lemma_xor_zero_pad(t, c_pen, b);
    let rebuilt = c_pen.take(dl) + z.skip(dl);
    assert(rebuilt =~= c_pen);
    xor_cancel(p_pen, prev);
    assert(xor_seq(d(c_pen), prev) == p_pen);
    assert(xor_seq(z, c_pen).take(dl) == t);
}

pub proof fn lemma_ecb_cs_tail_inverts(e: spec_fn(Blk) -> Blk, d: spec_fn(Blk) -> Blk, b: nat, c_pen: Blk, p_pen: Blk, t: Seq<u8>)
    requires
        inverse_of(d, e), len_preserving(e), len_preserving(d),
        c_pen.len() == b, p_pen.len() == b, 1 <= t.len() <= b,
        c_pen == e(p_pen),
    ensures ({
        let c_last = e(t + c_pen.skip(t.len() as int));
        ecb_cs_dec_tail(d, c_pen.take(t.len() as int), c_last) == p_pen + t
    })
{
    let dl = t.len() as int;
    let x = t + c_pen.skip(dl);
    let c_last = e(x);
    let z = d(c_last);
    assert(z == x);
    assert(c_pen.take(dl) + z.skip(dl) =~= c_pen);
    assert(z.take(dl) =~= t);
}

// ---------- C09 for CTR: the exported counter block, used as IV of a fresh instance, continues the keystream ----------
pub proof fn lemma_ctr_layout_resume(iv: Seq<u8>, i: int, j: int, wb: nat, be: bool)
    requires iv.len() >= wb, wb >= 1, i >= 0, j >= 0
    ensures ctr_layout(ctr_layout(iv, i, wb, be), j, wb, be) == ctr_layout(iv, i + j, wb, be)
{
    let m = pow256(wb);
    pow256_pos(wb);
    let k = iv.len() - wb;
    if be {
        let f = be_val(iv.skip(k));
        let v1 = (f + i) % m;
        let l1 = ctr_layout(iv, i, wb, true);
        be_bytes_len(v1, wb);
        assert(l1.len() == iv.len());
        assert(l1.take(k) =~= iv.take(k));
        assert(l1.skip(k) =~= be_bytes(v1, wb));
        vstd::arithmetic::div_mod::lemma_mod_bound(f + i, m);
        be_val_of_bytes(v1, wb);
        vstd::arithmetic::div_mod::lemma_add_mod_noop(f + i, j, m);
        vstd::arithmetic::div_mod::lemma_small_mod((j % m) as nat, m as nat);
        vstd::arithmetic::div_mod::lemma_add_mod_noop(v1, j, m);
        vstd::arithmetic::div_mod::lemma_mod_twice(f + i, m);
        assert((v1 + j) % m == (f + i + j) % m);
    } else {
        let f = le_val(iv.take(wb as int));
        let v1 = (f + i) % m;
        let l1 = ctr_layout(iv, i, wb, false);
        le_bytes_len(v1, wb);
        assert(l1.len() == iv.len());
        assert(l1.skip(wb as int) =~= iv.skip(wb as int));
        assert(l1.take(wb as int) =~= le_bytes(v1, wb));
        vstd::arithmetic::div_mod::lemma_mod_bound(f + i, m);
        le_val_of_bytes(v1, wb);
        vstd::arithmetic::div_mod::lemma_add_mod_noop(f + i, j, m);
        vstd::arithmetic::div_mod::lemma_add_mod_noop(v1, j, m);
        vstd::arithmetic::div_mod::lemma_mod_twice(f + i, m);
        assert((v1 + j) % m == (f + i + j) % m);
    }
}

// ---------- C01 for ciphertext stealing, whole message: decrypting the CBC-CSx encryption of (ps, tail) gives back
// flatg(ps) + tail.  (cps, ct) is the cut of the ciphertext into full blocks and tail (unique: chunking_unique). ----------
pub proof fn lemma_cbc_dec_prefix(e: spec_fn(Blk) -> Blk, d: spec_fn(Blk) -> Blk, b: nat, iv: Blk, ps: Seq<Blk>, k: int)
    requires
        inverse_of(d, e), len_preserving(e), iv.len() == b, 0 <= k <= ps.len(),
        forall |i: int| 0 <= i < ps.len() ==> (#[trigger] ps[i]).len() == b,
    ensures
        cbc_dec_chain(d, iv, cbc_chain(e, iv, ps).take(k)) == ps.take(k),
        cbc_chain(e, iv, ps).len() == ps.len(),
        forall |i: int| 0 <= i < ps.len() ==> (#[trigger] cbc_chain(e, iv, ps)[i]).len() == b,
        forall |i: int| 0 <= i < ps.len() ==> #[trigger] cbc_chain(e, iv, ps)[i] == e(xor_seq(ps[i], if i == 0 { iv } else { cbc_chain(e, iv, ps)[i - 1] })),
{
    let enc = cbc_enc_step(e); let dec = cbc_dec_step(d);
    let cs = cbc_chain(e, iv, ps);
    lemma_cbc_roundtrip(e, d, b, seq![iv], ps);
    run_len(enc, seq![iv], ps);
    lemma_run_prefix(dec, seq![iv], cs.take(k), cs.skip(k));
    assert(cs.take(k) + cs.skip(k) =~= cs);
    cbc_c_is_run(e, iv, ps);
    assert forall |i: int| 0 <= i < ps.len() implies (#[trigger] cs[i]).len() == b by {
        assert(cs[i] == cbc_c(e, iv, ps, i));
        lemma_xor_len(ps[i], cbc_c(e, iv, ps, i - 1));
    }
    assert forall |i: int| 0 <= i < ps.len() implies #[trigger] cs[i] == e(xor_seq(ps[i], if i == 0 { iv } else { cs[i - 1] })) by {
        assert(cs[i] == cbc_c(e, iv, ps, i));
        if i > 0 { assert(cs[i - 1] == cbc_c(e, iv, ps, i - 1)); }
    }
}

pub proof fn lemma_cbc_cs_roundtrip(variant: int, e: spec_fn(Blk) -> Blk, d: spec_fn(Blk) -> Blk, b: nat, iv: Blk, ps: Seq<Blk>, tail: Seq<u8>,
                                   cps: Seq<Blk>, ct: Seq<u8>)
    requires
        1 <= variant <= 3, b >= 1,
        inverse_of(d, e), len_preserving(e), len_preserving(d), iv.len() == b,
        ps.len() >= 1, tail.len() < b,
        forall |i: int| 0 <= i < ps.len() ==> (#[trigger] ps[i]).len() == b,
        is_chunking(cbc_cs_enc(variant, e, iv, ps, tail), b, cps, ct),
    ensures
        cbc_cs_dec(variant, d, iv, cps, ct) == flatg(ps) + tail,
{
    let n = ps.len() as int;
    let dl = tail.len() as int;
    let cs = cbc_chain(e, iv, ps);
    lemma_cbc_dec_prefix(e, d, b, iv, ps, n);
    let m = cbc_cs_enc(variant, e, iv, ps, tail);
    assert(cs.take(n) =~= cs);
    assert(ps.take(n) =~= ps);
    if dl == 0 {
        assert(tail =~= Seq::<u8>::empty());
        assert(flatg(ps) + tail =~= flatg(ps));
        if variant == 3 && n >= 2 {
            // ciphertext = head ++ C_n ++ C_{n-1}: all whole blocks
            let head = cs.take(n - 2);
            let mine = head.push(cs[n - 1]).push(cs[n - 2]);
            flatg_push(head, cs[n - 1]);
            flatg_push(head.push(cs[n - 1]), cs[n - 2]);
            assert(flatg(mine) + Seq::<u8>::empty() =~= m);
            assert forall |i: int| 0 <= i < mine.len() implies (#[trigger] mine[i]).len() == b by {
                if i < n - 2 { assert(mine[i] == cs[i]); }
            }
            chunking_unique(m, b, cps, ct, mine, Seq::<u8>::empty());
            // decrypt: head as plain CBC, then the exchanged pair through the tail formula with C* = C_{n-1} (full length)
            lemma_cbc_dec_prefix(e, d, b, iv, ps, n - 2);
            assert(cps.take(n - 2) =~= head);
            let prev = if n - 2 == 0 { iv } else { cs[n - 3] };
            assert(cs[n - 2] == e(xor_seq(ps[n - 2], prev)));
            assert(cs[n - 1] == e(xor_seq(ps[n - 1], cs[n - 2])));
            let c_star = cs[n - 2]; let c_n = cs[n - 1];
            let z = d(c_n);
            assert(z == xor_seq(ps[n - 1], cs[n - 2]));
            lemma_xor_len(ps[n - 1], cs[n - 2]);
            assert(c_star + z.skip(b as int) =~= c_star);
            xor_cancel(ps[n - 2], prev);
            xor_cancel(ps[n - 1], cs[n - 2]);
            assert(xor_seq(z, c_star).take(b as int) =~= ps[n - 1]);
            assert(cbc_cs_dec_tail(d, prev, c_star, c_n) == ps[n - 2] + ps[n - 1]);
            // glue
            let hp = ps.take(n - 2);
            assert(ps =~= hp.push(ps[n - 2]).push(ps[n - 1]));
            flatg_push(hp, ps[n - 2]);
            flatg_push(hp.push(ps[n - 2]), ps[n - 1]);
            assert(flatg(hp) + (ps[n - 2] + ps[n - 1]) =~= flatg(hp) + ps[n - 2] + ps[n - 1]);
            if head.len() > 0 { assert(head[head.len() - 1] == cs[n - 3]); }
        } else {
            assert(flatg(cs) + Seq::<u8>::empty() =~= m);
            chunking_unique(m, b, cps, ct, cs, Seq::<u8>::empty());
        }
    } else {
        let prevc = cs[n - 1];
        let c_last = e(xor_seq(pad0(tail, b), prevc));
        lemma_xor_len(pad0(tail, b), prevc);
        let star = prevc.take(dl);
        let head = cs.take(n - 1);
        lemma_cbc_dec_prefix(e, d, b, iv, ps, n - 1);
        let prev = if n - 1 == 0 { iv } else { cs[n - 2] };
        assert(prevc == e(xor_seq(ps[n - 1], prev)));
        lemma_cbc_cs_tail_inverts(e, d, b, prev, prevc, ps[n - 1], tail);
        let hp = ps.take(n - 1);
        assert(ps =~= hp.push(ps[n - 1]));
        flatg_push(hp, ps[n - 1]);
        assert(flatg(hp) + (ps[n - 1] + tail) =~= flatg(hp) + ps[n - 1] + tail);
        if head.len() > 0 { assert(head[head.len() - 1] == cs[n - 2]); }
        if variant == 1 {
            let x = star + c_last;
            let mine = head.push(x.take(b as int));
            let mt = x.skip(b as int);
            flatg_push(head, x.take(b as int));
            assert(x.take(b as int) + x.skip(b as int) =~= x);
            assert(flatg(mine) + mt =~= m) by { assert(flatg(head) + x.take(b as int) + mt =~= flatg(head) + star + c_last); }
            assert forall |i: int| 0 <= i < mine.len() implies (#[trigger] mine[i]).len() == b by {
                if i < n - 1 { assert(mine[i] == cs[i]); }
            }
            chunking_unique(m, b, cps, ct, mine, mt);
            assert(cps.take(n - 1) =~= head);
            let xx = cps[n - 1] + ct;
            assert(xx =~= x);
            assert(xx.take(dl) =~= star);
            assert(xx.skip(dl) =~= c_last);
        } else {
            let mine = head.push(c_last);
            flatg_push(head, c_last);
            assert(flatg(mine) + star =~= m);
            assert forall |i: int| 0 <= i < mine.len() implies (#[trigger] mine[i]).len() == b by {
                if i < n - 1 { assert(mine[i] == cs[i]); }
            }
            chunking_unique(m, b, cps, ct, mine, star);
            assert(cps.take(n - 1) =~= head);
        }
    }
}

pub proof fn lemma_ecb_cs_roundtrip(variant: int, e: spec_fn(Blk) -> Blk, d: spec_fn(Blk) -> Blk, b: nat, ps: Seq<Blk>, tail: Seq<u8>,
                                   cps: Seq<Blk>, ct: Seq<u8>)
    requires
        1 <= variant <= 3, b >= 1,
        inverse_of(d, e), len_preserving(e), len_preserving(d),
        ps.len() >= 1, tail.len() < b,
        forall |i: int| 0 <= i < ps.len() ==> (#[trigger] ps[i]).len() == b,
        is_chunking(ecb_cs_enc(variant, e, b, ps, tail), b, cps, ct),
    ensures
        ecb_cs_dec(variant, d, cps, ct) == flatg(ps) + tail,
{
    let n = ps.len() as int;
    let dl = tail.len() as int;
    let cs = ecb_map(e, ps);
    let m = ecb_cs_enc(variant, e, b, ps, tail);
    assert forall |i: int| 0 <= i < n implies (#[trigger] cs[i]).len() == b by {}
    assert(ecb_map(d, cs) =~= ps);
    if dl == 0 {
        assert(tail =~= Seq::<u8>::empty());
        assert(flatg(ps) + tail =~= flatg(ps));
        if variant == 3 && n >= 2 {
            let head = cs.take(n - 2);
            let mine = head.push(cs[n - 1]).push(cs[n - 2]);
            flatg_push(head, cs[n - 1]);
            flatg_push(head.push(cs[n - 1]), cs[n - 2]);
            assert(flatg(mine) + Seq::<u8>::empty() =~= m);
            assert forall |i: int| 0 <= i < mine.len() implies (#[trigger] mine[i]).len() == b by {
                if i < n - 2 { assert(mine[i] == cs[i]); }
            }
            chunking_unique(m, b, cps, ct, mine, Seq::<u8>::empty());
            assert(cps.take(n - 2) =~= head);
            assert(ecb_map(d, head) =~= ps.take(n - 2));
            let c_star = cs[n - 2]; let c_n = cs[n - 1];
            let z = d(c_n);
            assert(z == ps[n - 1]);
            assert(c_star + z.skip(b as int) =~= c_star);
            assert(z.take(b as int) =~= ps[n - 1]);
            assert(ecb_cs_dec_tail(d, c_star, c_n) == ps[n - 2] + ps[n - 1]);
            let hp = ps.take(n - 2);
            assert(ps =~= hp.push(ps[n - 2]).push(ps[n - 1]));
            flatg_push(hp, ps[n - 2]);
            flatg_push(hp.push(ps[n - 2]), ps[n - 1]);
            assert(flatg(hp) + (ps[n - 2] + ps[n - 1]) =~= flatg(hp) + ps[n - 2] + ps[n - 1]);
        } else {
            assert(flatg(cs) + Seq::<u8>::empty() =~= m);
            chunking_unique(m, b, cps, ct, cs, Seq::<u8>::empty());
        }
    } else {
        let prevc = cs[n - 1];
        let c_last = e(tail + prevc.skip(dl));
        assert((tail + prevc.skip(dl)).len() == b);
        let star = prevc.take(dl);
        let head = cs.take(n - 1);
        assert(ecb_map(d, head) =~= ps.take(n - 1));
        lemma_ecb_cs_tail_inverts(e, d, b, prevc, ps[n - 1], tail);
        let hp = ps.take(n - 1);
        assert(ps =~= hp.push(ps[n - 1]));
        flatg_push(hp, ps[n - 1]);
        assert(flatg(hp) + (ps[n - 1] + tail) =~= flatg(hp) + ps[n - 1] + tail);
        if variant == 1 {
            let x = star + c_last;
            let mine = head.push(x.take(b as int));
            let mt = x.skip(b as int);
            flatg_push(head, x.take(b as int));
            assert(x.take(b as int) + x.skip(b as int) =~= x);
            assert(flatg(mine) + mt =~= m) by { assert(flatg(head) + x.take(b as int) + mt =~= flatg(head) + star + c_last); }
            assert forall |i: int| 0 <= i < mine.len() implies (#[trigger] mine[i]).len() == b by {
                if i < n - 1 { assert(mine[i] == cs[i]); }
            }
            chunking_unique(m, b, cps, ct, mine, mt);
            assert(cps.take(n - 1) =~= head);
            let xx = cps[n - 1] + ct;
            assert(xx =~= x);
            assert(xx.take(dl) =~= star);
            assert(xx.skip(dl) =~= c_last);
        } else {
            let mine = head.push(c_last);
            flatg_push(head, c_last);
            assert(flatg(mine) + star =~= m);
            assert forall |i: int| 0 <= i < mine.len() implies (#[trigger] mine[i]).len() == b by {
                if i < n - 1 { assert(mine[i] == cs[i]); }
            }
            chunking_unique(m, b, cps, ct, mine, star);
            assert(cps.take(n - 1) =~= head);
        }
    }
}
