// ===== spec library: byte-level keystream application through a buffering wrapper (C08, C10, C11) =====
// Abstract wrapper state: the core's state `ka` and the not-yet-used bytes `buf` of the last generated
// keystream block.  One byte at a time: use a buffered byte if there is one, otherwise generate the next
// block, use its first byte and buffer the rest.
pub open spec fn wks_run(k: KStep, ka: KAbs, buf: Seq<u8>, data: Seq<u8>) -> (KAbs, Seq<u8>, Seq<u8>)
    decreases data.len()
{
    if data.len() == 0 { (ka, buf, Seq::empty()) }
    else if buf.len() > 0 {
        let r = wks_run(k, ka, buf.skip(1), data.skip(1));
        (r.0, r.1, seq![data[0] ^ buf[0]] + r.2)
    } else {
        let s = k(ka);
        let r = wks_run(k, s.0, s.1.skip(1), data.skip(1));
        (r.0, r.1, seq![data[0] ^ s.1[0]] + r.2)
    }
}

pub proof fn wks_len(k: KStep, ka: KAbs, buf: Seq<u8>, data: Seq<u8>)
    ensures wks_run(k, ka, buf, data).2.len() == data.len()
    decreases data.len()
{
    if data.len() > 0 {
        if buf.len() > 0 { wks_len(k, ka, buf.skip(1), data.skip(1)); }
        else { let s = k(ka); wks_len(k, s.0, s.1.skip(1), data.skip(1)); }
    }
}

// C08: any split of the byte string gives the same bytes and the same state
pub proof fn wks_concat(k: KStep, ka: KAbs, buf: Seq<u8>, a: Seq<u8>, b: Seq<u8>)
    ensures ({
        let r1 = wks_run(k, ka, buf, a);
        let r2 = wks_run(k, r1.0, r1.1, b);
        wks_run(k, ka, buf, a + b) == (r2.0, r2.1, r1.2 + r2.2)
    })
    decreases a.len()
{
    if a.len() == 0 {
        assert(a + b =~= b);
        let r2 = wks_run(k, ka, buf, b);
        assert(Seq::<u8>::empty() + r2.2 =~= r2.2);
    } else {
        assert((a + b)[0] == a[0]);
        assert((a + b).skip(1) =~= a.skip(1) + b);
        if buf.len() > 0 {
            wks_concat(k, ka, buf.skip(1), a.skip(1), b);
            let ra = wks_run(k, ka, buf.skip(1), a.skip(1));
            let rb = wks_run(k, ra.0, ra.1, b);
            assert(seq![a[0] ^ buf[0]] + (ra.2 + rb.2) =~= (seq![a[0] ^ buf[0]] + ra.2) + rb.2);
        } else {
            let s = k(ka);
            wks_concat(k, s.0, s.1.skip(1), a.skip(1), b);
            let ra = wks_run(k, s.0, s.1.skip(1), a.skip(1));
            let rb = wks_run(k, ra.0, ra.1, b);
            assert(seq![a[0] ^ s.1[0]] + (ra.2 + rb.2) =~= (seq![a[0] ^ s.1[0]] + ra.2) + rb.2);
        }
    }
}

// enough buffered bytes: they are consumed in order, the core is not touched
pub proof fn wks_from_buffer(k: KStep, ka: KAbs, buf: Seq<u8>, data: Seq<u8>)
    requires data.len() <= buf.len()
    ensures wks_run(k, ka, buf, data) == (ka, buf.skip(data.len() as int), xor_seq(data, buf.take(data.len() as int)))
    decreases data.len()
{
    if data.len() == 0 {
        assert(buf.skip(0) =~= buf);
        assert(xor_seq(data, buf.take(0)) =~= Seq::<u8>::empty());
    } else {
        wks_from_buffer(k, ka, buf.skip(1), data.skip(1));
        let n = data.len() as int;
        assert(buf.skip(1).skip(n - 1) =~= buf.skip(n));
        assert(seq![data[0] ^ buf[0]] + xor_seq(data.skip(1), buf.skip(1).take(n - 1)) =~= xor_seq(data, buf.take(n)));
    }
}

// empty buffer, fewer bytes than a block: one block is generated, its unused rest is buffered
pub proof fn wks_partial(k: KStep, ka: KAbs, data: Seq<u8>)
    requires 1 <= data.len() <= k(ka).1.len()
    ensures ({ let s = k(ka); wks_run(k, ka, Seq::empty(), data) == (s.0, s.1.skip(data.len() as int), xor_seq(data, s.1.take(data.len() as int))) })
{
    let s = k(ka);
    let n = data.len() as int;
    wks_from_buffer(k, s.0, s.1.skip(1), data.skip(1));
    assert(s.1.skip(1).skip(n - 1) =~= s.1.skip(n));
    assert(seq![data[0] ^ s.1[0]] + xor_seq(data.skip(1), s.1.skip(1).take(n - 1)) =~= xor_seq(data, s.1.take(n)));
}

// empty buffer, whole blocks: block-level keystream application (what the core's block API computes)
pub proof fn wks_blocks(k: KStep, ka: KAbs, blocks: Seq<Blk>, b: nat)
    requires
        b >= 1,
        forall |i: int| 0 <= i < blocks.len() ==> (#[trigger] blocks[i]).len() == b,
        forall |a: KAbs| (#[trigger] k(a)).1.len() == b,
    ensures ({
        let r = ks_run(k, ka, blocks.len());
        wks_run(k, ka, Seq::empty(), flatg(blocks)) == (r.0, Seq::<u8>::empty(), flatg(xor_blocks(blocks, r.1)))
    })
    decreases blocks.len()
{
    let n = blocks.len();
    if n == 0 {
        assert(flatg(blocks) =~= Seq::<u8>::empty());
        assert(xor_blocks(blocks, ks_run(k, ka, 0).1) =~= Seq::<Blk>::empty());
    } else {
        // peel the LAST block (flatg is defined on the last block)
        let hd = blocks.drop_last();
        let lastb = blocks.last();
        assert forall |i: int| 0 <= i < hd.len() implies (#[trigger] hd[i]).len() == b by { assert(hd[i] == blocks[i]); }
        wks_blocks(k, ka, hd, b);
        let rh = ks_run(k, ka, hd.len());
        ks_run_step(k, ka, hd.len());
        ks_run_len(k, ka, hd.len());
        let s = k(rh.0);
        wks_concat(k, ka, Seq::empty(), flatg(hd), lastb);
        wks_partial(k, rh.0, lastb);
        assert(s.1.skip(b as int) =~= Seq::<u8>::empty());
        assert(s.1.take(b as int) =~= s.1);
        let r = ks_run(k, ka, n);
        assert(r.1 =~= rh.1.push(s.1));
        assert(xor_blocks(blocks, r.1) =~= xor_blocks(hd, rh.1).push(xor_seq(lastb, s.1)));
        flatg_push(xor_blocks(hd, rh.1), xor_seq(lastb, s.1));
    }
}

// ---------------------------------------------------------------- seeking (C10)
pub open spec fn step_law(k: KStep, m: int) -> bool {
    forall |a: KAbs| (#[trigger] k(a)).0 == (KAbs { base: a.base, pos: (a.pos + 1) % m })
}
pub open spec fn zeros(n: nat) -> Seq<u8> { Seq::new(n, |i: int| 0u8) }

// the wrapper state (core state, buffered bytes) at byte offset p of the keystream that starts at origin `o`
pub open spec fn wseek_state(k: KStep, o: KAbs, m: int, bs: int, p: int) -> (KAbs, Seq<u8>) {
    let a = KAbs { base: o.base, pos: (o.pos + p / bs) % m };
    if p % bs == 0 { (a, Seq::<u8>::empty()) } else { (k(a).0, k(a).1.skip(p % bs)) }
}

pub proof fn ks_run_pos(k: KStep, a: KAbs, n: nat, m: int)
    requires step_law(k, m), m > 0, 0 <= a.pos < m
    ensures ks_run(k, a, n).0 == (KAbs { base: a.base, pos: (a.pos + n) % m })
    decreases n
{
    if n == 0 {
        vstd::arithmetic::div_mod::lemma_small_mod(a.pos as nat, m as nat);
    } else {
        ks_run_pos(k, a, (n - 1) as nat, m);
        ks_run_step(k, a, (n - 1) as nat);
        let r = ks_run(k, a, (n - 1) as nat);
        assert(k(r.0).0 == (KAbs { base: r.0.base, pos: (r.0.pos + 1) % m }));
        mod_succ(a.pos + n - 1, m);
    }
}

// the state after a data call does not depend on the data, only on its length
pub proof fn wks_state_indep(k: KStep, ka: KAbs, buf: Seq<u8>, d1: Seq<u8>, d2: Seq<u8>)
    requires d1.len() == d2.len()
    ensures wks_run(k, ka, buf, d1).0 == wks_run(k, ka, buf, d2).0, wks_run(k, ka, buf, d1).1 == wks_run(k, ka, buf, d2).1
    decreases d1.len()
{
    if d1.len() > 0 {
        if buf.len() > 0 { wks_state_indep(k, ka, buf.skip(1), d1.skip(1), d2.skip(1)); }
        else { let s = k(ka); wks_state_indep(k, s.0, s.1.skip(1), d1.skip(1), d2.skip(1)); }
    }
}

// the output is the data XOR the keystream (= the output on zeros)
pub proof fn wks_xor_zero(k: KStep, ka: KAbs, buf: Seq<u8>, d: Seq<u8>)
    ensures wks_run(k, ka, buf, d).2 == xor_seq(d, wks_run(k, ka, buf, zeros(d.len())).2)
    decreases d.len()
{
    let z = zeros(d.len());
    wks_len(k, ka, buf, z);
    if d.len() == 0 {
        assert(xor_seq(d, wks_run(k, ka, buf, z).2) =~= Seq::<u8>::empty());
    } else {
        assert(z.skip(1) =~= zeros((d.len() - 1) as nat));
        assert(z[0] == 0u8);
        if buf.len() > 0 {
            wks_xor_zero(k, ka, buf.skip(1), d.skip(1));
            let r = wks_run(k, ka, buf.skip(1), d.skip(1));
            let rz = wks_run(k, ka, buf.skip(1), z.skip(1));
            wks_len(k, ka, buf.skip(1), z.skip(1));
            let bb = buf[0];
            assert(0u8 ^ bb == bb) by (bit_vector);
            assert(seq![d[0] ^ buf[0]] + xor_seq(d.skip(1), rz.2) =~= xor_seq(d, seq![buf[0]] + rz.2));
        } else {
            let s = k(ka);
            wks_xor_zero(k, s.0, s.1.skip(1), d.skip(1));
            let rz = wks_run(k, s.0, s.1.skip(1), z.skip(1));
            wks_len(k, s.0, s.1.skip(1), z.skip(1));
            let b0 = s.1[0];
            assert(0u8 ^ b0 == b0) by (bit_vector);
            assert(seq![d[0] ^ b0] + xor_seq(d.skip(1), rz.2) =~= xor_seq(d, seq![b0] + rz.2));
        }
    }
}

pub open spec fn zero_blocks(n: nat, b: nat) -> Seq<Blk> { Seq::new(n, |i: int| zeros(b)) }

pub proof fn flatg_zero_blocks(n: nat, b: nat)
    ensures flatg(zero_blocks(n, b)) == zeros(n * b)
    decreases n
{
    if n == 0 {
        assert(flatg(zero_blocks(0, b)) =~= Seq::<u8>::empty());
        assert(0 * b == 0) by (nonlinear_arith);
        assert(zeros(0) =~= Seq::<u8>::empty());
    } else {
        flatg_zero_blocks((n - 1) as nat, b);
        assert(zero_blocks(n, b).drop_last() =~= zero_blocks((n - 1) as nat, b));
        assert((n - 1) * b + b == n * b) by (nonlinear_arith);
        assert((n - 1) * b >= 0) by (nonlinear_arith) requires n >= 1;
        assert(zeros(((n - 1) * b) as nat) + zeros(b) =~= zeros(n * b));
    }
}

// C10: the state installed by a seek to byte offset p is the state reached by producing p bytes from offset 0
pub proof fn wseek_is_run(k: KStep, o: KAbs, m: int, bs: nat, p: nat)
    requires
        step_law(k, m), m > 0, 0 <= o.pos < m, bs >= 1,
        forall |a: KAbs| (#[trigger] k(a)).1.len() == bs,
    ensures ({
        let r = wks_run(k, o, Seq::empty(), zeros(p));
        (r.0, r.1) == wseek_state(k, o, m, bs as int, p as int)
    })
{
    let q = p / bs;
    let t = p % bs;
    vstd::arithmetic::div_mod::lemma_fundamental_div_mod(p as int, bs as int);
    assert(q * bs == bs * q) by (nonlinear_arith);
    assert(q * bs >= 0) by (nonlinear_arith) requires q >= 0;
    let zb = zero_blocks(q, bs);
    flatg_zero_blocks(q, bs);
    assert(zeros(p) =~= zeros(q * bs) + zeros(t));
    wks_blocks(k, o, zb, bs);
    wks_concat(k, o, Seq::empty(), flatg(zb), zeros(t));
    ks_run_pos(k, o, q, m);
    let a = ks_run(k, o, q).0;
    if t > 0 { wks_partial(k, a, zeros(t)); }
}

// ... and therefore the bytes produced after seek(p) are bytes p, p+1, ... of the keystream from offset 0
pub proof fn wseek_keystream(k: KStep, o: KAbs, m: int, bs: nat, p: nat, d: Seq<u8>)
    requires
        step_law(k, m), m > 0, 0 <= o.pos < m, bs >= 1,
        forall |a: KAbs| (#[trigger] k(a)).1.len() == bs,
    ensures ({
        let st = wseek_state(k, o, m, bs as int, p as int);
        let ks = wks_run(k, o, Seq::empty(), zeros(p + d.len())).2;
        wks_run(k, st.0, st.1, d).2 == xor_seq(d, ks.skip(p as int))
    })
{
    wseek_is_run(k, o, m, bs, p);
    let st = wseek_state(k, o, m, bs as int, p as int);
    wks_xor_zero(k, st.0, st.1, d);
    wks_concat(k, o, Seq::empty(), zeros(p), zeros(d.len()));
    assert(zeros(p) + zeros(d.len()) =~= zeros(p + d.len()));
    let r1 = wks_run(k, o, Seq::empty(), zeros(p));
    wks_len(k, o, Seq::empty(), zeros(p));
    let r2 = wks_run(k, r1.0, r1.1, zeros(d.len()));
    assert((r1.2 + r2.2).skip(p as int) =~= r2.2);
}

// the byte position a wrapper reports, as a function of its state: blocks generated since the origin times the
// block size, minus the bytes still buffered
pub open spec fn spos_of(a: KAbs, o: KAbs, m: int, bs: int, nbuf: int) -> int { ((a.pos - o.pos) % m) * bs - nbuf }

pub proof fn mod_diff(o: int, q: int, m: int)
    requires 0 <= o < m, 0 <= q < m
    ensures (((o + q) % m) - o) % m == q
{
    mod_add_wrap(o, q, m);
    if o + q < m {
        vstd::arithmetic::div_mod::lemma_small_mod(q as nat, m as nat);
    } else {
        vstd::arithmetic::div_mod::lemma_mod_add_multiples_vanish(q - m, m);
        vstd::arithmetic::div_mod::lemma_small_mod(q as nat, m as nat);
    }
}

// C10: at the state a seek to p installs, the reported position is p (p inside the usable keystream)
pub proof fn wseek_pos(k: KStep, o: KAbs, m: int, bs: nat, p: nat)
    requires
        step_law(k, m), m > 0, 0 <= o.pos < m, bs >= 1,
        forall |a: KAbs| (#[trigger] k(a)).1.len() == bs,
        p / bs + 1 < m,
    ensures ({
        let st = wseek_state(k, o, m, bs as int, p as int);
        spos_of(st.0, o, m, bs as int, st.1.len() as int) == p
    })
{
    let q = (p / bs) as int;
    let t = (p % bs) as int;
    vstd::arithmetic::div_mod::lemma_fundamental_div_mod(p as int, bs as int);
    vstd::arithmetic::div_mod::lemma_mod_bound(p as int, bs as int);
    assert(q >= 0) by { vstd::arithmetic::div_mod::lemma_div_pos_is_pos(p as int, bs as int); }
    let a = KAbs { base: o.base, pos: (o.pos + q) % m };
    if t == 0 {
        mod_diff(o.pos, q, m);
        assert(bs * q == q * bs) by (nonlinear_arith);
    } else {
        assert(k(a).0 == (KAbs { base: a.base, pos: (a.pos + 1) % m }));
        mod_succ(o.pos + q, m);
        mod_diff(o.pos, q + 1, m);
        assert((q + 1) * bs - (bs - t) == bs * q + t) by (nonlinear_arith);
    }
}

// C10: after any data call from the state at offset p the wrapper is in the state at offset p + n, so the
// reported position is p + n (by induction: after any interleaving of seeks and data calls)
pub proof fn wpos_after_run(k: KStep, o: KAbs, m: int, bs: nat, p: nat, d: Seq<u8>)
    requires
        step_law(k, m), m > 0, 0 <= o.pos < m, bs >= 1,
        forall |a: KAbs| (#[trigger] k(a)).1.len() == bs,
        (p + d.len()) / bs + 1 < m,
    ensures ({
        let st = wseek_state(k, o, m, bs as int, p as int);
        let r = wks_run(k, st.0, st.1, d);
        (r.0, r.1) == wseek_state(k, o, m, bs as int, (p + d.len()) as int) && spos_of(r.0, o, m, bs as int, r.1.len() as int) == p + d.len()
    })
{
    let n = d.len();
    wseek_is_run(k, o, m, bs, p);
    wseek_is_run(k, o, m, bs, p + n);
    wks_concat(k, o, Seq::empty(), zeros(p), zeros(n));
    assert(zeros(p) + zeros(n) =~= zeros(p + n));
    let st = wseek_state(k, o, m, bs as int, p as int);
    wks_state_indep(k, st.0, st.1, d, zeros(n));
    wseek_pos(k, o, m, bs, p + n);
}
