pub proof fn wks_len(k: KStep, ka: KAbs, buf: Seq<u8>, data: Seq<u8>)
    ensures wks_run(k, ka, buf, data).2.len() == data.len()
    decreases data.len()
{
    if data.len() > 0 {
        if buf.len() > 0 { wks_len(k, ka, buf.skip(1), data.skip(1)); }
        else { let s = k(ka); wks_len(k, s.0, s.1.skip(1), data.skip(1)); }
    }
}

// C08: any split of the byte string gives the same bytes and the same state
pub proof fn wks_concat(k: KStep, ka: KAbs, buf: Seq<u8>, a: Seq<u8>, b: Seq<u8>)
    ensures ({
        let r1 = wks_run(k, ka, buf, a);
        let r2 = wks_run(k, r1.0, r1.1, b);
        wks_run(k, ka, buf, a + b) == (r2.0, r2.1, r1.2 + r2.2)
    })
    decreases a.len()
{
    if a.len() == 0 {
        assert(a + b =~= b);
        let r2 = wks_run(k, ka, buf, b);
        assert(Seq::<u8>::empty() + r2.2 =~= r2.2);
    } else {
        assert((a + b)[0] == a[0]);
        assert((a + b).skip(1) =~= a.skip(1) + b);
        if buf.len() > 0 {
            wks_concat(k, ka, buf.skip(1), a.skip(1), b);
            let ra = wks_run(k, ka, buf.skip(1), a.skip(1));
            let rb = wks_run(k, ra.0, ra.1, b);
            assert(seq![a[0] ^ buf[0]] + (ra.2 + rb.2) =~= (seq![a[0] ^ buf[0]] + ra.2) + rb.2);
        } else {
            let s = k(ka);
            wks_concat(k, s.0, s.1.skip(1), a.skip(1), b);
            let ra = wks_run(k, s.0, s.1.skip(1), a.skip(1));
            let rb = wks_run(k, ra.0, ra.1, b);
            assert(seq![a[0] ^ s.1[0]] + (ra.2 + rb.2) =~= (seq![a[0] ^ s.1[0]] + ra.2) + rb.2);
        }
    }
}

// enough buffered bytes: they are consumed in order, the core is not touched
pub proof fn wks_from_buffer(k: KStep, ka: KAbs, buf: Seq<u8>, data: Seq<u8>)
    requires data.len() <= buf.len()
    ensures wks_run(k, ka, buf, data) == (ka, buf.skip(data.len() as int), xor_seq(data, buf.take(data.len() as int)))
    decreases data.len()
{
    if data.len() == 0 {
        assert(buf.skip(0) =~= buf);
        assert(xor_seq(data, buf.take(0)) =~= Seq::<u8>::empty());
    } else {
        wks_from_buffer(k, ka, buf.skip(1), data.skip(1));
        let n = data.len() as int;
        assert(buf.skip(1).skip(n - 1) =~= buf.skip(n));
        assert(seq![data[0] ^ buf[0]] + xor_seq(data.skip(1), buf.skip(1).take(n - 1)) =~= xor_seq(data, buf.take(n)));
    }
}

// empty buffer, fewer bytes than a block: one block is generated, its unused rest is buffered
pub proof fn wks_partial(k: KStep, ka: KAbs, data: Seq<u8>)
    requires 1 <= data.len() <= k(ka).1.len()
    ensures ({ let s = k(ka); wks_run(k, ka, Seq::empty(), data) == (s.0, s.1.skip(data.len() as int), xor_seq(data, s.1.take(data.len() as int))) })
{
    let s = k(ka);
    let n = data.len() as int;
    wks_from_buffer(k, s.0, s.1.skip(1), data.skip(1));
    assert(s.1.skip(1).skip(n - 1) =~= s.1.skip(n));
    assert(seq![data[0] ^ s.1[0]] + xor_seq(data.skip(1), s.1.skip(1).take(n - 1)) =~= xor_seq(data, s.1.take(n)));
}

// empty buffer, whole blocks: block-level keystream application (what the core's block API computes)
pub proof fn wks_blocks(k: KStep, ka: KAbs, blocks: Seq<Blk>, b: nat)
    requires
        b >= 1,
        forall |i: int| 0 <= i < blocks.len() ==> (#[trigger] blocks[i]).len() == b,
        forall |a: KAbs| (#[trigger] k(a)).1.len() == b,
    ensures ({
        let r = ks_run(k, ka, blocks.len());
        wks_run(k, ka, Seq::empty(), flatg(blocks)) == (r.0, Seq::<u8>::empty(), flatg(xor_blocks(blocks, r.1)))
    })
    decreases blocks.len()
{
    let n = blocks.len();
    if n == 0 {
        assert(flatg(blocks) =~= Seq::<u8>::empty());
        assert(xor_blocks(blocks, ks_run(k, ka, 0).1) =~= Seq::<Blk>::empty());
    } else {
        // peel the LAST block (flatg is defined on the last block)
        let hd = blocks.drop_last();
        let lastb = blocks.last();
        assert forall |i: int| 0 <= i < hd.len() implies (#[trigger] hd[i]).len() == b by { assert(hd[i] == blocks[i]); }
        wks_blocks(k, ka, hd, b);
        let rh = ks_run(k, ka, hd.len());
        ks_run_step(k, ka, hd.len());
        ks_run_len(k, ka, hd.len());
        let s = k(rh.0);
        wks_concat(k, ka, Seq::empty(), flatg(hd), lastb);
        wks_partial(k, rh.0, lastb);
        assert(s.1.skip(b as int) =~= Seq::<u8>::empty());
        assert(s.1.take(b as int) =~= s.1);
        let r = ks_run(k, ka, n);
        assert(r.1 =~= rh.1.push(s.1));
        assert(xor_blocks(blocks, r.1) =~= xor_blocks(hd, rh.1).push(xor_seq(lastb, s.1)));
        flatg_push(xor_blocks(hd, rh.1), xor_seq(lastb, s.1));
    }
}

pub proof fn ks_run_pos(k: KStep, a: KAbs, n: nat, m: int)
    requires step_law(k, m), m > 0, 0 <= a.pos < m
    ensures ks_run(k, a, n).0 == (KAbs { base: a.base, pos: (a.pos + n) % m })
    decreases n
{
    if n == 0 {
        vstd::arithmetic::div_mod::lemma_small_mod(a.pos as nat, m as nat);
    } else {
        ks_run_pos(k, a, (n - 1) as nat, m);
        ks_run_step(k, a, (n - 1) as nat);
        let r = ks_run(k, a, (n - 1) as nat);
        assert(k(r.0).0 == (KAbs { base: r.0.base, pos: (r.0.pos + 1) % m }));
        mod_succ(a.pos + n - 1, m);
    }
}

// the state after a data call does not depend on the data, only on its length
pub proof fn wks_state_indep(k: KStep, ka: KAbs, buf: Seq<u8>, d1: Seq<u8>, d2: Seq<u8>)
    requires d1.len() == d2.len()
    ensures wks_run(k, ka, buf, d1).0 == wks_run(k, ka, buf, d2).0, wks_run(k, ka, buf, d1).1 == wks_run(k, ka, buf, d2).1
    decreases d1.len()
{
    if d1.len() > 0 {
        if buf.len() > 0 { wks_state_indep(k, ka, buf.skip(1), d1.skip(1), d2.skip(1)); }
        else { let s = k(ka); wks_state_indep(k, s.0, s.1.skip(1), d1.skip(1), d2.skip(1)); }
    }
}

// the output is the data XOR the keystream (= the output on zeros)
pub proof fn wks_xor_zero(k: KStep, ka: KAbs, buf: Seq<u8>, d: Seq<u8>)
    ensures wks_run(k, ka, buf, d).2 == xor_seq(d, wks_run(k, ka, buf, zeros(d.len())).2)
    decreases d.len()
{
    let z = zeros(d.len());
    wks_len(k, ka, buf, z);
    if d.len() == 0 {
        assert(xor_seq(d, wks_run(k, ka, buf, z).2) =~= Seq::<u8>::empty());
    } else {
        assert(z.skip(1) =~= zeros((d.len() - 1) as nat));
        assert(z[0] == 0u8);
        if buf.len() > 0 {
            wks_xor_zero(k, ka, buf.skip(1), d.skip(1));
            let r = wks_run(k, ka, buf.skip(1), d.skip(1));
            let rz = wks_run(k, ka, buf.skip(1), z.skip(1));
            wks_len(k, ka, buf.skip(1), z.skip(1));
            let bb = buf[0];
            assert(0u8 ^ bb == bb) by (bit_vector);
            assert(seq![d[0] ^ buf[0]] + xor_seq(d.skip(1), rz.2) =~= xor_seq(d, seq![buf[0]] + rz.2));
        } else {
            let s = k(ka);
            wks_xor_zero(k, s.0, s.1.skip(1), d.skip(1));
            let rz = wks_run(k, s.0, s.1.skip(1), z.skip(1));
            wks_len(k, s.0, s.1.skip(1), z.skip(1));
            let b0 = s.1[0];
            assert(0u8 ^ b0 == b0) by (bit_vector);
            assert(seq![d[0] ^ b0] + xor_seq(d.skip(1), rz.2) =~= xor_seq(d, seq![b0] + rz.2));
        }
    }
}

pub proof fn flatg_zero_blocks(n: nat, b: nat)
    ensures flatg(zero_blocks(n, b)) == zeros(n * b)
    decreases n
{
    if n == 0 {
        assert(flatg(zero_blocks(0, b)) =~= Seq::<u8>::empty());
        assert(0 * b == 0) by (nonlinear_arith);
        assert(zeros(0) =~= Seq::<u8>::empty());
    } else {
        flatg_zero_blocks((n - 1) as nat, b);
        assert(zero_blocks(n, b).drop_last() =~= zero_blocks((n - 1) as nat, b));
        assert((n - 1) * b + b == n * b) by (nonlinear_arith);
        assert((n - 1) * b >= 0) by (nonlinear_arith) requires n >= 1;
        assert(zeros(((n - 1) * b) as nat) + zeros(b) =~= zeros(n * b));
    }
}

// C10: the state installed by a seek to byte offset p is the state reached by producing p bytes from offset 0
pub proof fn wseek_is_run(k: KStep, o: KAbs, m: int, bs: nat, p: nat)
    requires
        step_law(k, m), m > 0, 0 <= o.pos < m, bs >= 1,
        forall |a: KAbs| (#[trigger] k(a)).1.len() == bs,
    ensures ({
        let r = wks_run(k, o, Seq::empty(), zeros(p));
        (r.0, r.1) == wseek_state(k, o, m, bs as int, p as int)
    })
{
    let q = p / bs;
    let t = p % bs;
    vstd::arithmetic::div_mod::lemma_fundamental_div_mod(p as int, bs as int);
    assert(q * bs == bs * q) by (nonlinear_arith);
    assert(q * bs >= 0) by (nonlinear_arith) requires q >= 0;
    let zb = zero_blocks(q, bs);
    flatg_zero_blocks(q, bs);
    assert(zeros(p) =~= zeros(q * bs) + zeros(t));
    wks_blocks(k, o, zb, bs);
    wks_concat(k, o, Seq::empty(), flatg(zb), zeros(t));
    ks_run_pos(k, o, q, m);
    let a = ks_run(k, o, q).0;
    if t > 0 { wks_partial(k, a, zeros(t)); }
}

// ... and therefore the bytes produced after seek(p) are bytes p, p+1, ... of the keystream from offset 0
pub proof fn wseek_keystream(k: KStep, o: KAbs, m: int, bs: nat, p: nat, d: Seq<u8>)
    requires
        step_law(k, m), m > 0, 0 <= o.pos < m, bs >= 1,
        forall |a: KAbs| (#[trigger] k(a)).1.len() == bs,
    ensures ({
        let st = wseek_state(k, o, m, bs as int, p as int);
        let ks = wks_run(k, o, Seq::empty(), zeros(p + d.len())).2;
        wks_run(k, st.0, st.1, d).2 == xor_seq(d, ks.skip(p as int))
    })
{
    wseek_is_run(k, o, m, bs, p);
    let st = wseek_state(k, o, m, bs as int, p as int);
    wks_xor_zero(k, st.0, st.1, d);
    wks_concat(k, o, Seq::empty(), zeros(p), zeros(d.len()));
    assert(zeros(p) + zeros(d.len()) =~= zeros(p + d.len()));
    let r1 = wks_run(k, o, Seq::empty(), zeros(p));
    wks_len(k, o, Seq::empty(), zeros(p));
    let r2 = wks_run(k, r1.0, r1.1, zeros(d.len()));
    assert((r1.2 + r2.2).skip(p as int) =~= r2.2);
}


// C10: at the state a seek to p installs, the reported position is p (p inside the usable keystream)
pub proof fn wseek_pos(k: KStep, o: KAbs, m: int, bs: nat, p: nat)
    requires
        step_law(k, m), m > 0, 0 <= o.pos < m, bs >= 1,
        forall |a: KAbs| (#[trigger] k(a)).1.len() == bs,
        p / bs + 1 < m,
    ensures ({
        let st = wseek_state(k, o, m, bs as int, p as int);
        spos_of(st.0, o, m, bs as int, st.1.len() as int) == p
    })
{
    let q = (p / bs) as int;
    let t = (p % bs) as int;
    vstd::arithmetic::div_mod::lemma_fundamental_div_mod(p as int, bs as int);
    vstd::arithmetic::div_mod::lemma_mod_bound(p as int, bs as int);
    assert(q >= 0) by { vstd::arithmetic::div_mod::lemma_div_pos_is_pos(p as int, bs as int); }
    let a = KAbs { base: o.base, pos: (o.pos + q) % m };
    if t == 0 {
        mod_diff(o.pos, q, m);
        assert(bs * q == q * bs) by (nonlinear_arith);
    } else {
        assert(k(a).0 == (KAbs { base: a.base, pos: (a.pos + 1) % m }));
        mod_succ(o.pos + q, m);
        mod_diff(o.pos, q + 1, m);
        assert((q + 1) * bs - (bs - t) == bs * q + t) by (nonlinear_arith);
    }
}

// C10: after any data call from the state at offset p the wrapper is in the state at offset p + n, so the
// reported position is p + n (by induction: after any interleaving of seeks and data calls)
pub proof fn wpos_after_run(k: KStep, o: KAbs, m: int, bs: nat, p: nat, d: Seq<u8>)
    requires
        step_law(k, m), m > 0, 0 <= o.pos < m, bs >= 1,
        forall |a: KAbs| (#[trigger] k(a)).1.len() == bs,
        (p + d.len()) / bs + 1 < m,
    ensures ({
        let st = wseek_state(k, o, m, bs as int, p as int);
        let r = wks_run(k, st.0, st.1, d);
        (r.0, r.1) == wseek_state(k, o, m, bs as int, (p + d.len()) as int) && spos_of(r.0, o, m, bs as int, r.1.len() as int) == p + d.len()
    })
{
    let n = d.len();
    wseek_is_run(k, o, m, bs, p);
    wseek_is_run(k, o, m, bs, p + n);
    wks_concat(k, o, Seq::empty(), zeros(p), zeros(n));
    assert(zeros(p) + zeros(n) =~= zeros(p + n));
    let st = wseek_state(k, o, m, bs as int, p as int);
    wks_state_indep(k, st.0, st.1, d, zeros(n));
    wseek_pos(k, o, m, bs, p + n);
}

pub proof fn flatg_concat<T>(x: Seq<Seq<T>>, y: Seq<Seq<T>>)
    ensures flatg(x + y) == flatg(x) + flatg(y)
    decreases y.len()
{
    if y.len() == 0 {
        assert(x + y =~= x);
        assert(flatg(y) =~= Seq::<T>::empty());
        assert(flatg(x) + flatg(y) =~= flatg(x));
    } else {
        flatg_concat(x, y.drop_last());
        assert((x + y).drop_last() =~= x + y.drop_last());
        assert((x + y).last() == y.last());
        assert(flatg(x) + (flatg(y.drop_last()) + y.last()) =~= (flatg(x) + flatg(y.drop_last())) + y.last());
    }
}

pub proof fn flatg_head<T>(s: Seq<Seq<T>>)
    requires s.len() >= 1
    ensures flatg(s) == s[0] + flatg(s.skip(1))
{
    assert(s =~= seq![s[0]] + s.skip(1));
    flatg_concat(seq![s[0]], s.skip(1));
    flatg_one(seq![s[0]]);
}

pub proof fn run_out_lens(step: Step, a: Abs, xs: Seq<Blk>, b: nat)
    requires
        forall |i: int| 0 <= i < xs.len() ==> (#[trigger] xs[i]).len() == b,
        forall |a: Abs, x: Blk| x.len() == b ==> (#[trigger] step(a, x)).1.len() == b,
    ensures
        run(step, a, xs).1.len() == xs.len(),
        forall |i: int| 0 <= i < xs.len() ==> (#[trigger] run(step, a, xs).1[i]).len() == b,
    decreases xs.len()
{
    run_len(step, a, xs);
    if xs.len() > 0 {
        let k = xs.len() - 1;
        run_concat(step, a, xs.take(k), xs.skip(k));
        assert(xs.take(k) + xs.skip(k) =~= xs);
        let r1 = run(step, a, xs.take(k));
        assert forall |i: int| 0 <= i < xs.take(k).len() implies (#[trigger] xs.take(k)[i]).len() == b by { assert(xs.take(k)[i] == xs[i]); }
        run_out_lens(step, a, xs.take(k), b);
        assert(xs.skip(k) =~= seq![xs[k]]);
        run_one(step, r1.0, xs[k]);
        run_len(step, a, xs.take(k));
        let r2 = run(step, r1.0, xs.skip(k));
        assert forall |i: int| 0 <= i < xs.len() implies (#[trigger] run(step, a, xs).1[i]).len() == b by {
            if i < k { assert((r1.1 + r2.1)[i] == r1.1[i]); } else { assert((r1.1 + r2.1)[i] == r2.1[0]); }
        }
    }
}

pub proof fn cfb_bytewise(e: spec_fn(Blk) -> Blk, b: nat)
    ensures bytewise(cfb_enc_step(e), b), bytewise(cfb_dec_step(e), b)
{
    assert forall |a: Abs, x: Blk, y: Blk, n: int| x.len() == b && y.len() == b && 0 <= n <= b && x.take(n) == y.take(n)
        implies (#[trigger] cfb_enc_step(e)(a, x).1.take(n)) == (#[trigger] cfb_enc_step(e)(a, y)).1.take(n) by {
        let ox = xor_seq(x, a[0]); let oy = xor_seq(y, a[0]);
        assert forall |i: int| 0 <= i < ox.take(n).len() implies ox.take(n)[i] == oy.take(n)[i] by { assert(x[i] == x.take(n)[i]); assert(y[i] == y.take(n)[i]); }
        assert(ox.take(n) =~= oy.take(n));
    }
    assert forall |a: Abs, x: Blk, y: Blk, n: int| x.len() == b && y.len() == b && 0 <= n <= b && x.take(n) == y.take(n)
        implies (#[trigger] cfb_dec_step(e)(a, x).1.take(n)) == (#[trigger] cfb_dec_step(e)(a, y)).1.take(n) by {
        let ox = xor_seq(x, a[0]); let oy = xor_seq(y, a[0]);
        assert forall |i: int| 0 <= i < ox.take(n).len() implies ox.take(n)[i] == oy.take(n)[i] by { assert(x[i] == x.take(n)[i]); assert(y[i] == y.take(n)[i]); }
        assert(ox.take(n) =~= oy.take(n));
    }
}

// C08 (one-shot CFB through AsyncStreamCipher): the output for a message is the same-length prefix of the output for
// any extension of it.  (blocks, tail) and (blocks2, tail2) are the cuts of the message and of its extension.
pub proof fn lemma_async_prefix(step: Step, a: Abs, blocks: Seq<Blk>, tail: Seq<u8>, blocks2: Seq<Blk>, tail2: Seq<u8>, b: nat)
    requires
        bytewise(step, b), b >= 1,
        forall |i: int| 0 <= i < blocks2.len() ==> (#[trigger] blocks2[i]).len() == b,
        forall |a: Abs, x: Blk| x.len() == b ==> (#[trigger] step(a, x)).1.len() == b,
        tail.len() < b, tail2.len() < b,
        blocks.len() <= blocks2.len(), blocks2.take(blocks.len() as int) == blocks,
        if blocks2.len() == blocks.len() { tail.len() <= tail2.len() && tail2.take(tail.len() as int) == tail }
        else { blocks2[blocks.len() as int].take(tail.len() as int) == tail },
    ensures
        async_out(step, a, blocks, tail, b) == async_out(step, a, blocks2, tail2, b).take((blocks.len() * b + tail.len()) as int),
{
    let k = blocks.len() as int;
    let n = tail.len() as int;
    let r = run(step, a, blocks);
    let r2 = run(step, a, blocks2);
    assert(blocks2 =~= blocks + blocks2.skip(k));
    run_concat(step, a, blocks, blocks2.skip(k));
    run_len(step, a, blocks);
    run_len(step, a, blocks2);
    let rest = run(step, r.0, blocks2.skip(k));
    assert(r2.1 == r.1 + rest.1);
    // lengths of output blocks
    run_out_lens(step, a, blocks2, b);
    assert forall |i: int| 0 <= i < r.1.len() implies (#[trigger] r.1[i]).len() == b by { assert(r.1[i] == r2.1[i]); }
    flatg_len(r.1, b);
    flatg_len(r2.1, b);
    flatg_concat(r.1, rest.1);
    let o2 = async_out(step, a, blocks2, tail2, b);
    if blocks2.len() == k {
        assert(blocks2.skip(k) =~= Seq::<Blk>::empty());
        assert(rest.1 =~= Seq::<Blk>::empty());
        assert(r2 == r);
        if n == 0 {
            assert(tail =~= Seq::<u8>::empty());
            if tail2.len() == 0 { assert(flatg(r.1).take(k * b) =~= flatg(r.1)); }
            else { assert((flatg(r.1) + step(r.0, zero_pad(tail2, b)).1.take(tail2.len() as int)).take(k * b) =~= flatg(r.1)); }
        } else {
            let x = zero_pad(tail, b); let y = zero_pad(tail2, b);
            assert(x.take(n) =~= y.take(n)) by {
                assert forall |i: int| 0 <= i < n implies x.take(n)[i] == y.take(n)[i] by { assert(tail2.take(n)[i] == tail[i]); }
            }
            assert(step(r.0, x).1.take(n) == step(r.0, y).1.take(n));
            let m2 = tail2.len() as int;
            assert(step(r.0, y).1.take(m2).take(n) =~= step(r.0, y).1.take(n));
            assert((flatg(r.1) + step(r.0, y).1.take(m2)).take(k * b + n) =~= flatg(r.1) + step(r.0, y).1.take(m2).take(n));
        }
    } else {
        // the extension has at least one more whole block, whose first n bytes are the tail
        let nb = blocks2[k];
        assert(blocks2.skip(k)[0] == nb);
        reveal_with_fuel(run, 2);
        let s1 = step(r.0, nb);
        assert(rest.1.len() >= 1 && rest.1[0] == s1.1) by {
            run_len(step, r.0, blocks2.skip(k));
            assert(blocks2.skip(k) =~= seq![nb] + blocks2.skip(k).skip(1));
            run_concat(step, r.0, seq![nb], blocks2.skip(k).skip(1));
            run_one(step, r.0, nb);
        }
        flatg_head(rest.1);
        let tailpart = if tail2.len() == 0 { Seq::<u8>::empty() } else { step(r2.0, zero_pad(tail2, b)).1.take(tail2.len() as int) };
        assert(o2 =~= flatg(r.1) + flatg(rest.1) + tailpart);
        assert(flatg(rest.1).take(n) =~= s1.1.take(n));
        if n > 0 {
            let x = zero_pad(tail, b);
            assert(x.take(n) =~= nb.take(n)) by {
                assert forall |i: int| 0 <= i < n implies x.take(n)[i] == nb.take(n)[i] by { assert(nb.take(n)[i] == tail[i]); }
            }
            assert(step(r.0, x).1.take(n) == s1.1.take(n));
        }
        assert((flatg(r.1) + flatg(rest.1) + tailpart).take(k * b + n) =~= flatg(r.1) + flatg(rest.1).take(n));
        if n == 0 { assert(flatg(r.1) + flatg(rest.1).take(0) =~= flatg(r.1)); }
    }
}

