// ===== spec library: byte-level keystream application through a buffering wrapper (C08, C10, C11) =====
// Abstract wrapper state: the core's state `ka` and the not-yet-used bytes `buf` of the last generated
// keystream block.  One byte at a time: use a buffered byte if there is one, otherwise generate the next
// block, use its first byte and buffer the rest.
pub open spec fn wks_run(k: KStep, ka: KAbs, buf: Seq<u8>, data: Seq<u8>) -> (KAbs, Seq<u8>, Seq<u8>)
    decreases data.len()
{
    if data.len() == 0 { (ka, buf, Seq::empty()) }
    else if buf.len() > 0 {
        let r = wks_run(k, ka, buf.skip(1), data.skip(1));
        (r.0, r.1, seq![data[0] ^ buf[0]] + r.2)
    } else {
        let s = k(ka);
        let r = wks_run(k, s.0, s.1.skip(1), data.skip(1));
        (r.0, r.1, seq![data[0] ^ s.1[0]] + r.2)
    }
}

pub proof fn wks_len(k: KStep, ka: KAbs, buf: Seq<u8>, data: Seq<u8>)
    ensures wks_run(k, ka, buf, data).2.len() == data.len()
    decreases data.len()
{
    if data.len() > 0 {
        if buf.len() > 0 { wks_len(k, ka, buf.skip(1), data.skip(1)); }
        else { let s = k(ka); wks_len(k, s.0, s.1.skip(1), data.skip(1)); }
    }
}

// C08: any split of the byte string gives the same bytes and the same state
pub proof fn wks_concat(k: KStep, ka: KAbs, buf: Seq<u8>, a: Seq<u8>, b: Seq<u8>)
    ensures ({
        let r1 = wks_run(k, ka, buf, a);
        let r2 = wks_run(k, r1.0, r1.1, b);
        wks_run(k, ka, buf, a + b) == (r2.0, r2.1, r1.2 + r2.2)
    })
    decreases a.len()
{
    if a.len() == 0 {
        assert(a + b =~= b);
        let r2 = wks_run(k, ka, buf, b);
        assert(Seq::<u8>::empty() + r2.2 =~= r2.2);
    } else {
        assert((a + b)[0] == a[0]);
        assert((a + b).skip(1) =~= a.skip(1) + b);
        if buf.len() > 0 {
            wks_concat(k, ka, buf.skip(1), a.skip(1), b);
            let ra = wks_run(k, ka, buf.skip(1), a.skip(1));
            let rb = wks_run(k, ra.0, ra.1, b);
            assert(seq![a[0] ^ buf[0]] + (ra.2 + rb.2) =~= (seq![a[0] ^ buf[0]] + ra.2) + rb.2);
        } else {
            let s = k(ka);
            wks_concat(k, s.0, s.1.skip(1), a.skip(1), b);
            let ra = wks_run(k, s.0, s.1.skip(1), a.skip(1));
            let rb = wks_run(k, ra.0, ra.1, b);
            assert(seq![a[0] ^ s.1[0]] + (ra.2 + rb.2) =~= (seq![a[0] ^ s.1[0]] + ra.2) + rb.2);
        }
    }
}

// enough buffered bytes: they are consumed in order, the core is not touched
pub proof fn wks_from_buffer(k: KStep, ka: KAbs, buf: Seq<u8>, data: Seq<u8>)
    requires data.len() <= buf.len()
    ensures wks_run(k, ka, buf, data) == (ka, buf.skip(data.len() as int), xor_seq(data, buf.take(data.len() as int)))
    decreases data.len()
{
    if data.len() == 0 {
        assert(buf.skip(0) =~= buf);
        assert(xor_seq(data, buf.take(0)) =~= Seq::<u8>::empty());
    } else {
        wks_from_buffer(k, ka, buf.skip(1), data.skip(1));
        let n = data.len() as int;
        assert(buf.skip(1).skip(n - 1) =~= buf.skip(n));
        assert(seq![data[0] ^ buf[0]] + xor_seq(data.skip(1), buf.skip(1).take(n - 1)) =~= xor_seq(data, buf.take(n)));
    }
}

// empty buffer, fewer bytes than a block: one block is generated, its unused rest is buffered
pub proof fn wks_partial(k: KStep, ka: KAbs, data: Seq<u8>)
    requires 1 <= data.len() <= k(ka).1.len()
    ensures ({ let s = k(ka); wks_run(k, ka, Seq::empty(), data) == (s.0, s.1.skip(data.len() as int), xor_seq(data, s.1.take(data.len() as int))) })
{
    let s = k(ka);
    let n = data.len() as int;
    wks_from_buffer(k, s.0, s.1.skip(1), data.skip(1));
    assert(s.1.skip(1).skip(n - 1) =~= s.1.skip(n));
    assert(seq![data[0] ^ s.1[0]] + xor_seq(data.skip(1), s.1.skip(1).take(n - 1)) =~= xor_seq(data, s.1.take(n)));
}

// empty buffer, whole blocks: block-level keystream application (what the core's block API computes)
pub proof fn wks_blocks(k: KStep, ka: KAbs, blocks: Seq<Blk>, b: nat)
    requires
        b >= 1,
        forall |i: int| 0 <= i < blocks.len() ==> (#[trigger] blocks[i]).len() == b,
        forall |a: KAbs| (#[trigger] k(a)).1.len() == b,
    ensures ({
        let r = ks_run(k, ka, blocks.len());
        wks_run(k, ka, Seq::empty(), flatg(blocks)) == (r.0, Seq::<u8>::empty(), flatg(xor_blocks(blocks, r.1)))
    })
    decreases blocks.len()
{
    let n = blocks.len();
    if n == 0 {
        assert(flatg(blocks) =~= Seq::<u8>::empty());
        assert(xor_blocks(blocks, ks_run(k, ka, 0).1) =~= Seq::<Blk>::empty());
    } else {
        // peel the LAST block (flatg is defined on the last block)
        let hd = blocks.drop_last();
        let lastb = blocks.last();
        assert forall |i: int| 0 <= i < hd.len() implies (#[trigger] hd[i]).len() == b by { assert(hd[i] == blocks[i]); }
        wks_blocks(k, ka, hd, b);
        let rh = ks_run(k, ka, hd.len());
        ks_run_step(k, ka, hd.len());
        ks_run_len(k, ka, hd.len());
        let s = k(rh.0);
        wks_concat(k, ka, Seq::empty(), flatg(hd), lastb);
        wks_partial(k, rh.0, lastb);
        assert(s.1.skip(b as int) =~= Seq::<u8>::empty());
        assert(s.1.take(b as int) =~= s.1);
        let r = ks_run(k, ka, n);
        assert(r.1 =~= rh.1.push(s.1));
        assert(xor_blocks(blocks, r.1) =~= xor_blocks(hd, rh.1).push(xor_seq(lastb, s.1)));
        flatg_push(xor_blocks(hd, rh.1), xor_seq(lastb, s.1));
    }
}
