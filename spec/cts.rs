// ===== spec library: ciphertext stealing, NIST SP 800-38A Addendum (C05 / C14) =====
// A message m of at least one block is seen as its full blocks ps (= m.len() / b of them) followed by a
// tail of d = m.len() % b bytes.  cs = the chained (CBC) or independent (ECB) ciphertext of the full
// blocks.  With a non-empty tail, the final block is the zero-padded tail (CBC) resp. the tail completed
// with the stolen end of the last full ciphertext block (ECB), and C* = the first d bytes of the last
// full ciphertext block.
pub open spec fn pad0(t: Seq<u8>, b: nat) -> Seq<u8> { Seq::new(b, |i: int| if i < t.len() { t[i] } else { 0u8 }) }

pub open spec fn cbc_chain(e: spec_fn(Blk) -> Blk, iv: Blk, ps: Seq<Blk>) -> Seq<Blk> { run(cbc_enc_step(e), seq![iv], ps).1 }
pub open spec fn ecb_map(e: spec_fn(Blk) -> Blk, ps: Seq<Blk>) -> Seq<Blk> { Seq::new(ps.len(), |i: int| e(ps[i])) }

// variant 1/2/3; `cs` = ciphertext of the full blocks, `c_last` = final block when the tail is not empty
pub open spec fn cs_arrange(variant: int, cs: Seq<Blk>, tail_len: nat, c_last: Blk) -> Seq<u8> {
    let n = cs.len() as int;
    if tail_len == 0 {
        if variant == 3 && n >= 2 { flatg(cs.take(n - 2)) + cs[n - 1] + cs[n - 2] } else { flatg(cs) }
    } else {
        let star = cs[n - 1].take(tail_len as int);
        if variant == 1 { flatg(cs.take(n - 1)) + star + c_last } else { flatg(cs.take(n - 1)) + c_last + star }
    }
}
pub open spec fn cbc_cs_enc(variant: int, e: spec_fn(Blk) -> Blk, iv: Blk, ps: Seq<Blk>, tail: Seq<u8>) -> Seq<u8> {
    let cs = cbc_chain(e, iv, ps);
    let prev = if ps.len() == 0 { iv } else { cs[ps.len() - 1] };
    cs_arrange(variant, cs, tail.len(), e(xor_seq(pad0(tail, iv.len()), prev)))
}
pub open spec fn ecb_cs_enc(variant: int, e: spec_fn(Blk) -> Blk, b: nat, ps: Seq<Blk>, tail: Seq<u8>) -> Seq<u8> {
    let cs = ecb_map(e, ps);
    cs_arrange(variant, cs, tail.len(), e(tail + cs[ps.len() - 1].skip(tail.len() as int)))
}

// index form of the CBC chain (used by loop invariants): C_{-1} = IV, C_i = E(P_i ^ C_{i-1})
pub open spec fn cbc_c(e: spec_fn(Blk) -> Blk, iv: Blk, ps: Seq<Blk>, i: int) -> Blk
    decreases i + 1
{
    if i < 0 { iv } else { e(xor_seq(ps[i], cbc_c(e, iv, ps, i - 1))) }
}
pub proof fn cbc_c_is_run(e: spec_fn(Blk) -> Blk, iv: Blk, ps: Seq<Blk>)
    ensures run(cbc_enc_step(e), seq![iv], ps) == (seq![cbc_c(e, iv, ps, ps.len() - 1)], Seq::new(ps.len(), |i: int| cbc_c(e, iv, ps, i)))
{
    let st = cbc_enc_step(e);
    let outs = Seq::new(ps.len(), |i: int| cbc_c(e, iv, ps, i));
    let states = |i: int| seq![cbc_c(e, iv, ps, i - 1)];
    assert forall |i: int| 0 <= i < ps.len() implies #[trigger] st(states(i), ps[i]) == (states(i + 1), outs[i]) by {
        assert(states(i)[0] == cbc_c(e, iv, ps, i - 1));
    }
    run_by_states(st, seq![iv], ps, states, outs);
}
// CBC decryption chain: P_i = D(C_i) ^ C_{i-1}
pub open spec fn cbc_p(d: spec_fn(Blk) -> Blk, iv: Blk, cs: Seq<Blk>, i: int) -> Blk {
    xor_seq(d(cs[i]), if i == 0 { iv } else { cs[i - 1] })
}
pub proof fn cbc_p_is_run(d: spec_fn(Blk) -> Blk, iv: Blk, cs: Seq<Blk>)
    ensures run(cbc_dec_step(d), seq![iv], cs) == (seq![if cs.len() == 0 { iv } else { cs[cs.len() - 1] }], Seq::new(cs.len(), |i: int| cbc_p(d, iv, cs, i)))
{
    let st = cbc_dec_step(d);
    let outs = Seq::new(cs.len(), |i: int| cbc_p(d, iv, cs, i));
    let states = |i: int| seq![if i == 0 { iv } else { cs[i - 1] }];
    assert forall |i: int| 0 <= i < cs.len() implies #[trigger] st(states(i), cs[i]) == (states(i + 1), outs[i]) by {
        assert(states(i)[0] == (if i == 0 { iv } else { cs[i - 1] }));
    }
    run_by_states(st, seq![iv], cs, states, outs);
}

// a message cut into full blocks and a shorter tail (the cut is unique: chunking_unique)
pub open spec fn is_chunking(m: Seq<u8>, b: nat, ps: Seq<Blk>, t: Seq<u8>) -> bool {
    &&& flatg(ps) + t == m
    &&& t.len() < b
    &&& forall |i: int| 0 <= i < ps.len() ==> (#[trigger] ps[i]).len() == b
}
pub proof fn chunking_unique(m: Seq<u8>, b: nat, ps1: Seq<Blk>, t1: Seq<u8>, ps2: Seq<Blk>, t2: Seq<u8>)
    requires b > 0, is_chunking(m, b, ps1, t1), is_chunking(m, b, ps2, t2)
    ensures ps1 == ps2, t1 == t2
{
    flatg_len(ps1, b); flatg_len(ps2, b);
    let n1 = ps1.len() as int; let n2 = ps2.len() as int; let bb = b as int;
    assert(m.len() == flatg(ps1).len() + t1.len());
    assert(m.len() == flatg(ps2).len() + t2.len());
    assert(flatg(ps1).len() == n1 * bb && flatg(ps2).len() == n2 * bb);
    assert(n1 * bb + t1.len() == n2 * bb + t2.len());
    if n1 > n2 { assert(n1 * bb >= n2 * bb + bb) by (nonlinear_arith) requires n1 >= n2 + 1, bb > 0; }
    if n2 > n1 { assert(n2 * bb >= n1 * bb + bb) by (nonlinear_arith) requires n2 >= n1 + 1, bb > 0; }
    assert(n1 == n2);
    flatg_unique(ps1, t1, ps2, t2, b);
}
pub proof fn chunking_len(m: Seq<u8>, b: nat, ps: Seq<Blk>, t: Seq<u8>)
    requires b > 0, is_chunking(m, b, ps, t)
    ensures ps.len() == m.len() / b, t.len() == m.len() % b, m.len() == ps.len() * b + t.len()
{
    flatg_len(ps, b);
    vstd::arithmetic::div_mod::lemma_fundamental_div_mod_converse(m.len() as int, b as int, ps.len() as int, t.len() as int);
}

// decryption counterparts (NIST): un-arrange the last two pieces, undo the stealing
// CBC: Z = D(C_n); C_{n-1} = C* || Z[d..]; P_n* = (Z ^ C_{n-1})[..d]; P_{n-1} = D(C_{n-1}) ^ C_{n-2}
pub open spec fn cbc_cs_dec_tail(d: spec_fn(Blk) -> Blk, prev: Blk, c_star: Seq<u8>, c_n: Blk) -> Seq<u8> {
    let z = d(c_n);
    let c_pen = c_star + z.skip(c_star.len() as int);
    xor_seq(d(c_pen), prev) + xor_seq(z, c_pen).take(c_star.len() as int)
}
pub open spec fn ecb_cs_dec_tail(d: spec_fn(Blk) -> Blk, c_star: Seq<u8>, c_n: Blk) -> Seq<u8> {
    let z = d(c_n);
    let c_pen = c_star + z.skip(c_star.len() as int);
    d(c_pen) + z.take(c_star.len() as int)
}
// ciphertext pieces of a stolen message, by variant: (head blocks, C*, C_n) from full blocks cs and tail t
// CS1: [.. , C*(d) , C_n]  i.e. the last full block of the buffer is split across a block boundary
pub open spec fn cbc_dec_chain(d: spec_fn(Blk) -> Blk, iv: Blk, cs: Seq<Blk>) -> Seq<Blk> { run(cbc_dec_step(d), seq![iv], cs).1 }

// pieces of a stolen ciphertext by variant: (head blocks decrypted as plain CBC/ECB, C*, C_n)
pub open spec fn cs_dec_pieces(variant: int, cs: Seq<Blk>, t: Seq<u8>) -> (Seq<Blk>, Seq<u8>, Blk) {
    let nb = cs.len() as int; let dl = t.len() as int;
    if dl == 0 { (cs.take(nb - 2), cs[nb - 1], cs[nb - 2]) }                                   // CS3, whole blocks: exchanged
    else if variant == 1 { let x = cs[nb - 1] + t; (cs.take(nb - 1), x.take(dl), x.skip(dl)) }  // C* then C_n
    else { (cs.take(nb - 1), t, cs[nb - 1]) }                                                   // C_n then C*
}
pub open spec fn cbc_cs_dec(variant: int, d: spec_fn(Blk) -> Blk, iv: Blk, cs: Seq<Blk>, t: Seq<u8>) -> Seq<u8> {
    let nb = cs.len() as int;
    if t.len() == 0 && !(variant == 3 && nb >= 2) { flatg(cbc_dec_chain(d, iv, cs)) }
    else {
        let pc = cs_dec_pieces(variant, cs, t);
        let head = pc.0;
        let prev = if head.len() == 0 { iv } else { head[head.len() - 1] };
        flatg(cbc_dec_chain(d, iv, head)) + cbc_cs_dec_tail(d, prev, pc.1, pc.2)
    }
}
pub open spec fn ecb_cs_dec(variant: int, d: spec_fn(Blk) -> Blk, cs: Seq<Blk>, t: Seq<u8>) -> Seq<u8> {
    let nb = cs.len() as int;
    if t.len() == 0 && !(variant == 3 && nb >= 2) { flatg(ecb_map(d, cs)) }
    else {
        let pc = cs_dec_pieces(variant, cs, t);
        flatg(ecb_map(d, pc.0)) + ecb_cs_dec_tail(d, pc.1, pc.2)
    }
}
