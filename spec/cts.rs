// ===== spec library: ciphertext stealing, NIST SP 800-38A Addendum (C05 / C14) =====
// A message m of at least one block is seen as its full blocks ps (= m.len() / b of them) followed by a
// tail of d = m.len() % b bytes.  cs = the chained (CBC) or independent (ECB) ciphertext of the full
// blocks.  With a non-empty tail, the final block is the zero-padded tail (CBC) resp. the tail completed
// with the stolen end of the last full ciphertext block (ECB), and C* = the first d bytes of the last
// full ciphertext block.
pub open spec fn pad0(t: Seq<u8>, b: nat) -> Seq<u8> { Seq::new(b, |i: int| if i < t.len() { t[i] } else { 0u8 }) }

pub open spec fn cbc_chain(e: spec_fn(Blk) -> Blk, iv: Blk, ps: Seq<Blk>) -> Seq<Blk> { run(cbc_enc_step(e), seq![iv], ps).1 }
pub open spec fn ecb_map(e: spec_fn(Blk) -> Blk, ps: Seq<Blk>) -> Seq<Blk> { Seq::new(ps.len(), |i: int| e(ps[i])) }

// variant 1/2/3; `cs` = ciphertext of the full blocks, `c_last` = final block when the tail is not empty
pub open spec fn cs_arrange(variant: int, cs: Seq<Blk>, tail_len: nat, c_last: Blk) -> Seq<u8> {
    let n = cs.len() as int;
    if tail_len == 0 {
        if variant == 3 && n >= 2 { flatg(cs.take(n - 2)) + cs[n - 1] + cs[n - 2] } else { flatg(cs) }
    } else {
        let star = cs[n - 1].take(tail_len as int);
        if variant == 1 { flatg(cs.take(n - 1)) + star + c_last } else { flatg(cs.take(n - 1)) + c_last + star }
    }
}
pub open spec fn cbc_cs_enc(variant: int, e: spec_fn(Blk) -> Blk, iv: Blk, ps: Seq<Blk>, tail: Seq<u8>) -> Seq<u8> {
    let cs = cbc_chain(e, iv, ps);
    let prev = if ps.len() == 0 { iv } else { cs[ps.len() - 1] };
    cs_arrange(variant, cs, tail.len(), e(xor_seq(pad0(tail, iv.len()), prev)))
}
pub open spec fn ecb_cs_enc(variant: int, e: spec_fn(Blk) -> Blk, b: nat, ps: Seq<Blk>, tail: Seq<u8>) -> Seq<u8> {
    let cs = ecb_map(e, ps);
    cs_arrange(variant, cs, tail.len(), e(tail + cs[ps.len() - 1].skip(tail.len() as int)))
}

// index form of the CBC chain (used by loop invariants): C_{-1} = IV, C_i = E(P_i ^ C_{i-1})
pub open spec fn cbc_c(e: spec_fn(Blk) -> Blk, iv: Blk, ps: Seq<Blk>, i: int) -> Blk
    decreases i + 1
{
    if i < 0 { iv } else { e(xor_seq(ps[i], cbc_c(e, iv, ps, i - 1))) }
}
pub proof fn cbc_c_is_run(e: spec_fn(Blk) -> Blk, iv: Blk, ps: Seq<Blk>)
    ensures run(cbc_enc_step(e), seq![iv], ps) == (seq![cbc_c(e, iv, ps, ps.len() - 1)], Seq::new(ps.len(), |i: int| cbc_c(e, iv, ps, i)))
{
    let st = cbc_enc_step(e);
    let outs = Seq::new(ps.len(), |i: int| cbc_c(e, iv, ps, i));
    let states = |i: int| seq![cbc_c(e, iv, ps, i - 1)];
    assert forall |i: int| 0 <= i < ps.len() implies #[trigger] st(states(i), ps[i]) == (states(i + 1), outs[i]) by {
        assert(states(i)[0] == cbc_c(e, iv, ps, i - 1));
    }
    run_by_states(st, seq![iv], ps, states, outs);
}
// CBC decryption chain: P_i = D(C_i) ^ C_{i-1}
pub open spec fn cbc_p(d: spec_fn(Blk) -> Blk, iv: Blk, cs: Seq<Blk>, i: int) -> Blk {
    xor_seq(d(cs[i]), if i == 0 { iv } else { cs[i - 1] })
}
pub proof fn cbc_p_is_run(d: spec_fn(Blk) -> Blk, iv: Blk, cs: Seq<Blk>)
    ensures run(cbc_dec_step(d), seq![iv], cs) == (seq![if cs.len() == 0 { iv } else { cs[cs.len() - 1] }], Seq::new(cs.len(), |i: int| cbc_p(d, iv, cs, i)))
{
    let st = cbc_dec_step(d);
    let outs = Seq::new(cs.len(), |i: int| cbc_p(d, iv, cs, i));
    let states = |i: int| seq![if i == 0 { iv } else { cs[i - 1] }];
    assert forall |i: int| 0 <= i < cs.len() implies #[trigger] st(states(i), cs[i]) == (states(i + 1), outs[i]) by {
        assert(states(i)[0] == (if i == 0 { iv } else { cs[i - 1] }));
    }
    run_by_states(st, seq![iv], cs, states, outs);
}
