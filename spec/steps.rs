// ===== spec library: one transducer step per mode and direction, transcribed from the property
// statements C02 / C03 (DESIGN 3.3).  The state is Abs = Seq<Seq<u8>>. =====

// CBC: C_i = E(P_i xor C_{i-1}), C_0 = IV                      state = [C_{i-1}]
pub open spec fn cbc_enc_step(e: spec_fn(Blk) -> Blk) -> Step {
    |a: Abs, p: Blk| { let c = e(xor_seq(p, a[0])); (seq![c], c) }
}
pub open spec fn cbc_dec_step(d: spec_fn(Blk) -> Blk) -> Step {
    |a: Abs, c: Blk| (seq![c], xor_seq(d(c), a[0]))
}

// PCBC: C_i = E(P_i xor S_{i-1}), S_0 = IV, S_i = P_i xor C_i    state = [S_{i-1}]
pub open spec fn pcbc_enc_step(e: spec_fn(Blk) -> Blk) -> Step {
    |a: Abs, p: Blk| { let c = e(xor_seq(p, a[0])); (seq![xor_seq(p, c)], c) }
}
pub open spec fn pcbc_dec_step(d: spec_fn(Blk) -> Blk) -> Step {
    |a: Abs, c: Blk| { let p = xor_seq(d(c), a[0]); (seq![xor_seq(p, c)], p) }
}

// IGE: C_i = E(P_i xor C_{i-1}) xor P_{i-1}; IV = C_0 || P_0     state = [P_{i-1}, C_{i-1}]  (x, y)
pub open spec fn ige_enc_step(e: spec_fn(Blk) -> Blk) -> Step {
    |a: Abs, p: Blk| { let c = xor_seq(e(xor_seq(p, a[1])), a[0]); (seq![p, c], c) }
}
pub open spec fn ige_dec_step(d: spec_fn(Blk) -> Blk) -> Step {
    |a: Abs, c: Blk| { let p = xor_seq(d(xor_seq(c, a[0])), a[1]); (seq![p, c], p) }
}

// full-block CFB: C_i = P_i xor E(C_{i-1}), C_0 = IV             state = [E(C_{i-1})]  (the keystream block)
pub open spec fn cfb_enc_step(e: spec_fn(Blk) -> Blk) -> Step {
    |a: Abs, p: Blk| { let c = xor_seq(p, a[0]); (seq![e(c)], c) }
}
pub open spec fn cfb_dec_step(e: spec_fn(Blk) -> Blk) -> Step {
    |a: Abs, c: Blk| (seq![e(c)], xor_seq(c, a[0]))
}

// CFB-8 (blocks are single bytes): c = p xor E(S)[0]; S' = S[1..] ++ [c]   state = [S]
pub open spec fn cfb8_enc_step(e: spec_fn(Blk) -> Blk) -> Step {
    |a: Abs, p: Blk| { let c = p[0] ^ e(a[0])[0]; (seq![a[0].skip(1).push(c)], seq![c]) }
}
pub open spec fn cfb8_dec_step(e: spec_fn(Blk) -> Blk) -> Step {
    |a: Abs, c: Blk| { let p = c[0] ^ e(a[0])[0]; (seq![a[0].skip(1).push(c[0])], seq![p]) }
}

// OFB: O_i = E(O_{i-1}), O_0 = IV, out = in xor O_i              state = [O_{i-1}]
pub open spec fn ofb_step(e: spec_fn(Blk) -> Blk) -> Step {
    |a: Abs, x: Blk| { let o = e(a[0]); (seq![o], xor_seq(x, o)) }
}

// buffered CFB (byte granular): state (iv, pos) with iv = the current keystream block whose first
// `pos` bytes have already been replaced by ciphertext bytes; pos < |iv| is the representation
// invariant.  Per byte: o = x ^ iv[pos]; the ciphertext byte is fed back into iv[pos]; when the block
// is full it is enciphered to give the next keystream block.
pub open spec fn cfb_buf_run(e: spec_fn(Blk) -> Blk, iv: Seq<u8>, pos: int, data: Seq<u8>, enc: bool) -> (Seq<u8>, int, Seq<u8>)
    decreases data.len()
{
    if data.len() == 0 { (iv, pos, Seq::empty()) } else {
        let x = data[0];
        let o = x ^ iv[pos];
        let fb = if enc { o } else { x };
        let iv1 = iv.update(pos, fb);
        let (iv2, pos2) = if pos + 1 == iv.len() { (e(iv1), 0int) } else { (iv1, pos + 1) };
        let r = cfb_buf_run(e, iv2, pos2, data.skip(1), enc);
        (r.0, r.1, seq![o] + r.2)
    }
}

// OFB as a keystream generator: O_i = E(O_{i-1})
pub open spec fn ofb_ks(e: spec_fn(Blk) -> Blk) -> KStep {
    |a: KAbs| { let o = e(a.base); (KAbs { base: o, pos: a.pos }, o) }
}

// BelT-CTR (STB 34.101.31): keystream block = E(le128(s + 1)), s := s + 1 mod 2^128.  pos = s.
pub open spec fn two128() -> int { u128::MAX as int + 1 }
pub open spec fn belt_ks(e: spec_fn(Blk) -> Blk) -> KStep {
    |a: KAbs| { let s1 = (a.pos + 1) % two128(); (KAbs { base: a.base, pos: s1 }, e(le_bytes(s1, 16))) }
}
