// ===== spec library: CTR counter-block layout (C04) =====
// keystream block i = E(layout(IV, i)): the IV with its counter field -- the last `wb` bytes read
// big-endian (BE flavours) or the first `wb` bytes read little-endian (LE flavours) -- replaced by
// (field + i) mod 2^(8 wb); every other byte unchanged.
pub open spec fn ctr_layout(iv: Seq<u8>, i: int, wb: nat, be: bool) -> Seq<u8> {
    let m = pow256(wb);
    if be {
        let k = iv.len() - wb;
        iv.take(k) + be_bytes((be_val(iv.skip(k)) + i) % m, wb)
    } else {
        le_bytes((le_val(iv.take(wb as int)) + i) % m, wb) + iv.skip(wb as int)
    }
}

pub open spec fn ctr_ks(e: spec_fn(Blk) -> Blk, wb: nat, be: bool) -> KStep {
    |a: KAbs| (KAbs { base: a.base, pos: (a.pos + 1) % pow256(wb) }, e(ctr_layout(a.base, a.pos, wb, be)))
}

// whole steps of a CTR keystream generator keep the base (nonce part)
pub proof fn ctr_run_base(e: spec_fn(Blk) -> Blk, wb: nat, be: bool, a: KAbs, n: nat)
    ensures ks_run(ctr_ks(e, wb, be), a, n).0.base == a.base
    decreases n
{
    if n > 0 { ctr_run_base(e, wb, be, ctr_ks(e, wb, be)(a).0, (n - 1) as nat); }
}

pub proof fn ctr_reach_base(e: spec_fn(Blk) -> Blk, wb: nat, be: bool, a0: KAbs, a1: KAbs)
    requires ks_reach(ctr_ks(e, wb, be), a0, a1)
    ensures a1.base == a0.base
{
    let n = choose |n: nat| a1 == #[trigger] ks_run(ctr_ks(e, wb, be), a0, n).0;
    ctr_run_base(e, wb, be, a0, n);
}
