// ===== spec library: CTR counter-block layout (C04) =====
// keystream block i = E(layout(IV, i)): the IV with its counter field -- the last `wb` bytes read
// big-endian (BE flavours) or the first `wb` bytes read little-endian (LE flavours) -- replaced by
// (field + i) mod 2^(8 wb); every other byte unchanged.
pub open spec fn ctr_layout(iv: Seq<u8>, i: int, wb: nat, be: bool) -> Seq<u8> {
    let m = pow256(wb);
    if be {
        let k = iv.len() - wb;
        iv.take(k) + be_bytes((be_val(iv.skip(k)) + i) % m, wb)
    } else {
        le_bytes((le_val(iv.take(wb as int)) + i) % m, wb) + iv.skip(wb as int)
    }
}

pub open spec fn ctr_ks(e: spec_fn(Blk) -> Blk, wb: nat, be: bool) -> KStep {
    |a: KAbs| (KAbs { base: a.base, pos: (a.pos + 1) % pow256(wb) }, e(ctr_layout(a.base, a.pos, wb, be)))
}
