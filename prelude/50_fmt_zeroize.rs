// ===== shim prelude: core::fmt, AlgorithmName, zeroize (ASSUMED contracts; D9) =====
pub uninterp spec fn fmt_out(f: &fmt::Formatter<'_>) -> Seq<char>;

pub assume_specification<'a> [fmt::Formatter::<'a>::write_str] (f: &mut fmt::Formatter<'a>, s: &str) -> (r: fmt::Result)
    ensures
        r is Ok ==> fmt_out(final(f)) == fmt_out(old(f)) + s@,
        r is Err ==> fmt_out(final(f)) == fmt_out(old(f));

// text appended to a formatter: all of `t` on Ok, a prefix of `t` on Err
pub open spec fn wrote(f0: &fmt::Formatter<'_>, f1: &fmt::Formatter<'_>, r: fmt::Result, t: Seq<char>) -> bool {
    &&& r is Ok ==> fmt_out(f1) == fmt_out(f0) + t
    &&& r is Err ==> exists |k: int| 0 <= k <= t.len() && fmt_out(f1) == fmt_out(f0) + #[trigger] t.take(k)
}

pub trait AlgorithmName {
    spec fn alg_name() -> Seq<char>;
    fn write_alg_name(f: &mut fmt::Formatter<'_>) -> (r: fmt::Result)
        ensures wrote(old(f), final(f), r, Self::alg_name());
}

pub proof fn wrote_first(f0: &fmt::Formatter<'_>, f1: &fmt::Formatter<'_>, a: Seq<char>, t: Seq<char>)
    requires fmt_out(f1) == fmt_out(f0), t.len() >= 0
    ensures exists |k: int| 0 <= k <= t.len() && fmt_out(f1) == fmt_out(f0) + #[trigger] t.take(k)
{
    assert(fmt_out(f0) + t.take(0) =~= fmt_out(f0));
}

// a prefix of `a` followed... : prefix of a+b
pub proof fn prefix_of_concat(base: Seq<char>, cur: Seq<char>, a: Seq<char>, b: Seq<char>, k: int)
    requires 0 <= k <= a.len(), cur == base + a.take(k)
    ensures exists |m: int| 0 <= m <= (a + b).len() && cur == base + #[trigger] (a + b).take(m)
{
    assert((a + b).take(k) =~= a.take(k));
}
pub proof fn prefix_of_concat2(base: Seq<char>, cur: Seq<char>, a: Seq<char>, b: Seq<char>, k: int)
    requires 0 <= k <= b.len(), cur == base + a + b.take(k)
    ensures exists |m: int| 0 <= m <= (a + b).len() && cur == base + #[trigger] (a + b).take(m)
{
    assert((a + b).take(a.len() + k) =~= a + b.take(k));
    assert(base + (a + b.take(k)) =~= base + a + b.take(k));
}

pub trait Zeroize {
    spec fn is_zero(&self) -> bool;
    fn zeroize(&mut self) ensures final(self).is_zero() opens_invariants none no_unwind;
}
pub open spec fn all_zero_u8(s: Seq<u8>) -> bool { forall |i: int| 0 <= i < s.len() ==> #[trigger] s[i] == 0u8 }
impl<U: ArraySize> Zeroize for Array<u8, U> {
    open spec fn is_zero(&self) -> bool { all_zero_u8(self@) }
    #[verifier::external_body]
    fn zeroize(&mut self) { unimplemented!() }
}
impl<U: ArraySize> Zeroize for Array<u32, U> {
    open spec fn is_zero(&self) -> bool { forall |i: int| 0 <= i < self@.len() ==> #[trigger] self@[i] == 0u32 }
    #[verifier::external_body]
    fn zeroize(&mut self) { unimplemented!() }
}
impl<U: ArraySize> Zeroize for Array<u64, U> {
    open spec fn is_zero(&self) -> bool { forall |i: int| 0 <= i < self@.len() ==> #[trigger] self@[i] == 0u64 }
    #[verifier::external_body]
    fn zeroize(&mut self) { unimplemented!() }
}
impl<U: ArraySize> Zeroize for Array<u128, U> {
    open spec fn is_zero(&self) -> bool { forall |i: int| 0 <= i < self@.len() ==> #[trigger] self@[i] == 0u128 }
    #[verifier::external_body]
    fn zeroize(&mut self) { unimplemented!() }
}
impl Zeroize for u32 {
    open spec fn is_zero(&self) -> bool { *self == 0u32 }
    #[verifier::external_body]
    fn zeroize(&mut self) { unimplemented!() }
}
impl Zeroize for u64 {
    open spec fn is_zero(&self) -> bool { *self == 0u64 }
    #[verifier::external_body]
    fn zeroize(&mut self) { unimplemented!() }
}
impl Zeroize for u128 {
    open spec fn is_zero(&self) -> bool { *self == 0u128 }
    #[verifier::external_body]
    fn zeroize(&mut self) { unimplemented!() }
}
