// ===== shim prelude: pieces of hybrid-array / inout used only by the stream drivers of `cipher` (ASSUMED) =====
impl<'a, T, U: ArraySize> IntoIterator for &'a mut Array<T, U> {
    type Item = &'a mut T;
    type IntoIter = ArrIterMut<'a, T>;
    #[verifier::external_body]
    fn into_iter(self) -> (r: ArrIterMut<'a, T>)
        ensures
            aim_remaining(&r).len() == U::USIZE,
            final(self)@.len() == U::USIZE,
            forall |i: int| #![trigger aim_remaining(&r)[i]] #![trigger final(self)@[i]] 0 <= i < U::USIZE ==> {
                &&& *aim_remaining(&r)[i] == old(self)@[i]
                &&& mut_ref_future(aim_remaining(&r)[i]) == final(self)@[i]
            },
    { unimplemented!() }
}

impl<'inp, 'out, N: ArraySize, M: ArraySize> InOut<'inp, 'out, Array<Array<u8, N>, M>> {
    #[verifier::external_body]
    pub fn xor_in2out(&mut self, data: &Array<Array<u8, N>, M>)
        ensures
            forall |i: int| 0 <= i < M::USIZE ==> (#[trigger] final(self).out@[i])@ == xor_seq(old(self).in_val()@[i]@, data@[i]@),
            mut_ref_future(final(self).out) == mut_ref_future(old(self).out),
            final(self).inp == old(self).inp,
            final(self).aliased == old(self).aliased,
    { unimplemented!() }
}

impl<'inp, 'out, T> InOutBuf<'inp, 'out, T> {
    // panics in the real crate if pos >= len: precondition
    #[verifier::external_body]
    pub fn get<'a>(&'a mut self, pos: usize) -> (r: InOut<'a, 'a, T>)
        requires pos < old(self).out_cur().len(), old(self).wf()
        ensures
            r.in_val() == old(self).in_val()[pos as int],
            *r.out == old(self).out_cur()[pos as int],
            r.aliased == old(self).aliased,
            final(self).out_cur() == old(self).out_cur().update(pos as int, mut_ref_future(r.out)),
            final(self).out_fut() == old(self).out_fut(),
            final(self).inp == old(self).inp,
            final(self).aliased == old(self).aliased,
    { unimplemented!() }
}

// keystream application: out_i = in_i ^ ks_i
pub open spec fn xor_blocks(ins: Seq<Blk>, ks: Seq<Blk>) -> Seq<Blk> { Seq::new(ins.len(), |i: int| xor_seq(ins[i], ks[i])) }
pub proof fn xor_blocks_concat(a: Seq<Blk>, b: Seq<Blk>, k1: Seq<Blk>, k2: Seq<Blk>)
    requires a.len() == k1.len(), b.len() == k2.len()
    ensures xor_blocks(a + b, k1 + k2) == xor_blocks(a, k1) + xor_blocks(b, k2)
{
    assert(xor_blocks(a + b, k1 + k2) =~= xor_blocks(a, k1) + xor_blocks(b, k2)) by {
        assert forall |i: int| 0 <= i < (a + b).len() implies xor_blocks(a + b, k1 + k2)[i] == (xor_blocks(a, k1) + xor_blocks(b, k2))[i] by {
            if i >= a.len() { assert((a + b)[i] == b[i - a.len()]); assert((k1 + k2)[i] == k2[i - a.len()]); }
        }
    }
}
pub proof fn ks_run_step(k: KStep, s: KAbs, n: nat)
    ensures ({ let r = ks_run(k, s, n); let r1 = k(r.0); ks_run(k, s, n + 1) == (r1.0, r.1.push(r1.1)) })
{
    ks_run_concat(k, s, n, 1);
    reveal_with_fuel(ks_run, 3);
    let r = ks_run(k, s, n);
    let r1 = k(r.0);
    assert(ks_run(k, r.0, 1).1 =~= seq![r1.1]);
    assert(r.1 + seq![r1.1] =~= r.1.push(r1.1));
}

// ---- pieces used by cipher::stream::{StreamCipher, StreamCipherSeek, wrapper} ----
impl<'inp, 'out> InOutBuf<'inp, 'out, u8> {
    // `assert_eq!(self.len(), data.len())` in the real crate: precondition
    #[verifier::external_body]
    pub fn xor_in2out(&mut self, data: &[u8])
        requires old(self).out_cur().len() == data@.len(), old(self).wf()
        ensures
            final(self).out_cur() == xor_seq(old(self).in_val(), data@),
            final(self).out_fut() == old(self).out_fut(),
            final(self).inp == old(self).inp,
            final(self).aliased == old(self).aliased,
    { unimplemented!() }
}

#[derive(Debug)]
pub struct StreamCipherError;
#[derive(Debug)]
pub struct OverflowError;
impl From<OverflowError> for StreamCipherError {
    #[verifier::external_body]
    fn from(_x: OverflowError) -> StreamCipherError { StreamCipherError }
}

// SeekNum (trait + the macro-generated impls for i32 u32 u64 u128 usize) is extracted from the dependency and verified
// (contracts/dep_wrapper.py, unit `deps`): no longer assumed.

// ---- block-padding (ASSUMED): the padding scheme is abstract -- `unpad_spec` says which sequences of decrypted blocks
// carry valid padding and what message they hold
#[derive(Debug)]
pub struct UnpadError;
#[derive(Debug)]
pub struct PadError;
pub trait Padding<BlockSize: ArraySize> {
    spec fn unpad_spec(blocks: Seq<Blk>) -> Option<Seq<u8>>;
    fn unpad_blocks(blocks: &[Array<u8, BlockSize>]) -> (r: Result<&[u8], UnpadError>)
        ensures
            r is Ok <==> Self::unpad_spec(aviews(blocks@)) is Some,
            r is Ok ==> r->Ok_0@ == Self::unpad_spec(aviews(blocks@))->Some_0;
}
impl<'inp, 'out, T> InOutBuf<'inp, 'out, T> {
    // gives up the input side; the returned reference is the output side itself
    #[verifier::external_body]
    pub fn into_out(self) -> (r: &'out mut [T])
        ensures r@ == self.out_cur(), final(r)@ == self.out_fut()
    { unimplemented!() }
}
