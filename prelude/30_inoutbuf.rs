// ===== shim prelude: inout::InOutBuf, slice helpers of core used by `cts` (ASSUMED contracts; D9) =====
pub struct InOutBuf<'inp, 'out, T> { pub inp: &'inp [T], pub out: &'out mut [T], pub aliased: Ghost<bool> }

#[derive(Debug)]
pub struct NotEqualError;

// concatenation of blocks (recursive on the last block: the tail code works on the last one or two)
pub open spec fn flatb(s: Seq<Blk>) -> Seq<u8>
    decreases s.len()
{
    if s.len() == 0 { Seq::empty() } else { flatb(s.drop_last()) + s.last() }
}
pub open spec fn aviews<T, N: ArraySize>(s: Seq<Array<T, N>>) -> Seq<Seq<T>> { Seq::new(s.len(), |i: int| s[i]@) }
pub open spec fn flatg<T>(s: Seq<Seq<T>>) -> Seq<T>
    decreases s.len()
{
    if s.len() == 0 { Seq::empty() } else { flatg(s.drop_last()) + s.last() }
}

impl<'inp, 'out, T> InOutBuf<'inp, 'out, T> {
    pub open spec fn out_cur(&self) -> Seq<T> { self.out@ }
    #[verifier::prophetic]
    pub open spec fn out_fut(&self) -> Seq<T> { final(self.out)@ }
    pub open spec fn in_val(&self) -> Seq<T> { if self.aliased@ { self.out@ } else { self.inp@ } }
    // representation invariant of the real type: both sides have the same length
    pub open spec fn wf(&self) -> bool { self.inp@.len() == self.out@.len() }

    #[verifier::external_body]
    pub fn new(in_buf: &'inp [T], out_buf: &'out mut [T]) -> (r: Result<Self, NotEqualError>)
        ensures
            r is Ok <==> in_buf@.len() == old(out_buf)@.len(),
            r is Ok ==> r->Ok_0.wf() && !r->Ok_0.aliased@ && r->Ok_0.inp == in_buf && r->Ok_0.out@ == old(out_buf)@
                && r->Ok_0.out_fut() == final(out_buf)@,
            r is Err ==> final(out_buf)@ == old(out_buf)@,
    { unimplemented!() }

    #[verifier::external_body]
    pub fn len(&self) -> (r: usize) ensures r == self.out_cur().len() { unimplemented!() }

    #[verifier::external_body]
    pub fn is_empty(&self) -> (r: bool) ensures r == (self.out_cur().len() == 0) { unimplemented!() }

    #[verifier::external_body]
    pub fn get_in<'a>(&'a self) -> (r: &'a [T]) ensures r@ == self.in_val() { unimplemented!() }

    #[verifier::external_body]
    pub fn get_out<'a>(&'a mut self) -> (r: &'a mut [T])
        ensures r@ == old(self).out_cur(),
                final(r)@.len() == r@.len(),
                final(self).out_cur() == final(r)@,
                final(self).out_fut() == old(self).out_fut(),
                final(self).inp == old(self).inp,
                final(self).aliased == old(self).aliased,
    { unimplemented!() }

    #[verifier::external_body]
    pub fn reborrow<'a>(&'a mut self) -> (r: InOutBuf<'a, 'a, T>)
        ensures r.out_cur() == old(self).out_cur(), r.in_val() == old(self).in_val(), r.aliased == old(self).aliased,
                r.wf() == old(self).wf(),
                r.out_fut().len() == r.out_cur().len(),
                final(self).out_cur() == r.out_fut(),
                final(self).out_fut() == old(self).out_fut(),
                final(self).inp == old(self).inp,
                final(self).aliased == old(self).aliased,
    { unimplemented!() }

    // panics if mid > len in the real crate: precondition
    #[verifier::external_body]
    pub fn split_at(self, mid: usize) -> (r: (InOutBuf<'inp, 'out, T>, InOutBuf<'inp, 'out, T>))
        requires mid <= self.out_cur().len(), self.wf()
        ensures
            r.0.wf(), r.1.wf(),
            r.0.aliased == self.aliased, r.1.aliased == self.aliased,
            r.0.out_cur() == self.out_cur().take(mid as int), r.1.out_cur() == self.out_cur().skip(mid as int),
            r.0.in_val() == self.in_val().take(mid as int), r.1.in_val() == self.in_val().skip(mid as int),
            r.0.out_fut().len() == mid, r.1.out_fut().len() == self.out_cur().len() - mid,
            self.out_fut() == r.0.out_fut() + r.1.out_fut(),
    { unimplemented!() }

    // chunks of N elements and the remainder (fewer than N elements)
    #[verifier::external_body]
    pub fn into_chunks<N: ArraySize>(self) -> (r: (InOutBuf<'inp, 'out, Array<T, N>>, InOutBuf<'inp, 'out, T>))
        requires N::USIZE > 0, self.wf()
        ensures
            r.0.wf(), r.1.wf(),
            r.0.aliased == self.aliased, r.1.aliased == self.aliased,
            r.0.out_cur().len() == self.out_cur().len() / (N::USIZE as nat),
            r.1.out_cur().len() == self.out_cur().len() % (N::USIZE as nat),
            flatg(aviews(r.0.out_cur())) + r.1.out_cur() == self.out_cur(),
            flatg(aviews(r.0.in_val())) + r.1.in_val() == self.in_val(),
            r.0.out_fut().len() == r.0.out_cur().len(), r.1.out_fut().len() == r.1.out_cur().len(),
            self.out_fut() == flatg(aviews(r.0.out_fut())) + r.1.out_fut(),
    { unimplemented!() }
}

impl<'a, T> From<&'a mut [T]> for InOutBuf<'a, 'a, T> {
    #[verifier::external_body]
    fn from(x: &'a mut [T]) -> (r: Self) ensures r.aliased@, r.out@ == old(x)@, r.out_fut() == final(x)@, r.wf() { unimplemented!() }
}
impl<'a, T> InOutBuf<'a, 'a, T> {
    #[verifier::external_body]
    pub fn from_mut(x: &'a mut T) -> (r: Self) ensures r.aliased@, r.out@ == seq![*old(x)], r.wf(), *final(x) == r.out_fut()[0] { unimplemented!() }
}

// ---------- iteration: `for block in buf` yields InOut items ----------
#[verifier::external_body]
#[verifier::accept_recursive_types(T)]
pub struct InOutBufIter<'inp, 'out, T> { buf: InOutBuf<'inp, 'out, T>, pos: usize }

pub uninterp spec fn iob_remaining<'inp, 'out, T>(it: &InOutBufIter<'inp, 'out, T>) -> Seq<InOut<'inp, 'out, T>>;

impl<'inp, 'out, T> vstd::std_specs::iter::IteratorSpecImpl for InOutBufIter<'inp, 'out, T> {
    open spec fn obeys_prophetic_iter_laws(&self) -> bool { true }
    open spec fn remaining(&self) -> Seq<InOut<'inp, 'out, T>> { iob_remaining(self) }
    open spec fn will_return_none(&self) -> bool { true }
    open spec fn decrease(&self) -> Option<nat> { Some(iob_remaining(self).len()) }
    open spec fn peek(&self, i: int) -> Option<InOut<'inp, 'out, T>> {
        if 0 <= i < iob_remaining(self).len() { Some(iob_remaining(self)[i]) } else { None }
    }
}
impl<'inp, 'out, T> Iterator for InOutBufIter<'inp, 'out, T> {
    type Item = InOut<'inp, 'out, T>;
    #[verifier::external_body]
    fn next(&mut self) -> (r: Option<InOut<'inp, 'out, T>>) { unimplemented!() }
}
impl<'inp, 'out, T> IntoIterator for InOutBuf<'inp, 'out, T> {
    type Item = InOut<'inp, 'out, T>;
    type IntoIter = InOutBufIter<'inp, 'out, T>;
    #[verifier::external_body]
    fn into_iter(self) -> (r: InOutBufIter<'inp, 'out, T>)
        ensures
            iob_remaining(&r).len() == self.out_cur().len(),
            self.out_fut().len() == self.out_cur().len(),
            forall |i: int| #![trigger iob_remaining(&r)[i]] #![trigger self.out_fut()[i]] 0 <= i < self.out_cur().len() ==> {
                &&& iob_remaining(&r)[i].in_val() == self.in_val()[i]
                &&& *iob_remaining(&r)[i].out == self.out_cur()[i]
                &&& iob_remaining(&r)[i].aliased == self.aliased
                &&& mut_ref_future(iob_remaining(&r)[i].out) == self.out_fut()[i]
            },
    { unimplemented!() }
}

// ---------- core: slice / mem helpers without a vstd specification ----------
pub assume_specification<T, E, U, O: FnOnce(T) -> Result<U, E>>[Result::<T, E>::and_then](r: Result<T, E>, op: O) -> (res: Result<U, E>)
    requires r is Ok ==> op.requires((r->Ok_0,))
    ensures r is Err ==> res is Err && res->Err_0 == r->Err_0,
            r is Ok ==> op.ensures((r->Ok_0,), res);

pub assume_specification<T> [<[T]>::split_last_mut] (s: &mut [T]) -> (r: Option<(&mut T, &mut [T])>)
    ensures
        old(s)@.len() == 0 ==> r is None && final(s)@ == old(s)@,
        old(s)@.len() > 0 ==> r is Some
            && *r.unwrap().0 == old(s)@.last()
            && r.unwrap().1@ == old(s)@.drop_last()
            && final(r.unwrap().1)@.len() == old(s)@.len() - 1
            && final(s)@ == final(r.unwrap().1)@.push(*final(r.unwrap().0));
pub assume_specification<T> [core::mem::replace] (dest: &mut T, src: T) -> (r: T)
    ensures r == *old(dest), *final(dest) == src;

pub assume_specification [usize::div_ceil] (a: usize, b: usize) -> (r: usize)
    requires b > 0
    ensures r as int == (a as int + b as int - 1) / (b as int);

// Deref of hybrid-array's Array to a slice (used by `copy_from_slice(&block)` etc.)
impl<T, U: ArraySize> core::ops::Deref for Array<T, U> {
    type Target = [T];
    #[verifier::external_body]
    fn deref(&self) -> (r: &[T]) ensures r@ == self@ { unimplemented!() }
}

// ---------- lemmas about flatg ----------
pub proof fn flatg_one<T>(s: Seq<Seq<T>>)
    requires s.len() == 1
    ensures flatg(s) == s[0]
{
    reveal_with_fuel(flatg, 2);
    assert(s.drop_last() =~= Seq::<Seq<T>>::empty());
    assert(Seq::<T>::empty() + s[0] =~= s[0]);
}
pub proof fn flatg_push<T>(s: Seq<Seq<T>>, x: Seq<T>)
    ensures flatg(s.push(x)) == flatg(s) + x
{
    assert(s.push(x).drop_last() =~= s);
}
pub proof fn flatg_len<T>(s: Seq<Seq<T>>, b: nat)
    requires forall |i: int| 0 <= i < s.len() ==> (#[trigger] s[i]).len() == b
    ensures flatg(s).len() == s.len() * b
    decreases s.len()
{
    if s.len() > 0 {
        flatg_len(s.drop_last(), b);
        assert((s.len() - 1) * b + b == s.len() * b) by (nonlinear_arith);
    } else {
        assert(0 * b == 0) by (nonlinear_arith);
    }
}
// two decompositions of the same string into equal-size blocks plus equally long tails agree
pub proof fn flatg_unique<T>(a: Seq<Seq<T>>, ta: Seq<T>, c: Seq<Seq<T>>, tc: Seq<T>, b: nat)
    requires
        b > 0, a.len() == c.len(), ta.len() == tc.len(),
        forall |i: int| 0 <= i < a.len() ==> (#[trigger] a[i]).len() == b,
        forall |i: int| 0 <= i < c.len() ==> (#[trigger] c[i]).len() == b,
        flatg(a) + ta == flatg(c) + tc,
    ensures a == c, ta == tc
    decreases a.len()
{
    flatg_len(a, b); flatg_len(c, b);
    let x = flatg(a) + ta; let y = flatg(c) + tc;
    assert(ta =~= x.skip(flatg(a).len() as int));
    assert(tc =~= y.skip(flatg(c).len() as int));
    if a.len() > 0 {
        flatg_len(a.drop_last(), b); flatg_len(c.drop_last(), b);
        let fa = flatg(a.drop_last()); let fc = flatg(c.drop_last());
        assert(flatg(a) == fa + a.last()); assert(flatg(c) == fc + c.last());
        assert(fa + (a.last() + ta) =~= x);
        assert(fc + (c.last() + tc) =~= y);
        flatg_unique(a.drop_last(), a.last() + ta, c.drop_last(), c.last() + tc, b);
        assert(a.last() =~= (a.last() + ta).take(b as int));
        assert(c.last() =~= (c.last() + tc).take(b as int));
        assert(a =~= a.drop_last().push(a.last()));
        assert(c =~= c.drop_last().push(c.last()));
    } else {
        assert(a =~= c);
    }
}

// pointwise relation lifted through flatg: if every element of every chunk is related, so is every
// element of the concatenation
pub proof fn flatg_rel<T>(outs: Seq<Seq<T>>, ins: Seq<Seq<T>>, rel: spec_fn(T, T) -> bool)
    requires
        outs.len() == ins.len(),
        forall |k: int| 0 <= k < outs.len() ==> (#[trigger] outs[k]).len() == ins[k].len(),
        forall |k: int, j: int| 0 <= k < outs.len() && 0 <= j < outs[k].len() ==> rel(#[trigger] outs[k][j], #[trigger] ins[k][j]),
    ensures
        flatg(outs).len() == flatg(ins).len(),
        forall |i: int| 0 <= i < flatg(outs).len() ==> rel(#[trigger] flatg(outs)[i], flatg(ins)[i]),
    decreases outs.len()
{
    if outs.len() > 0 {
        let o2 = outs.drop_last(); let i2 = ins.drop_last();
        assert forall |k: int, j: int| 0 <= k < o2.len() && 0 <= j < o2[k].len() implies rel(#[trigger] o2[k][j], #[trigger] i2[k][j]) by {
            assert(o2[k] == outs[k] && i2[k] == ins[k]);
        }
        assert forall |k: int| 0 <= k < o2.len() implies (#[trigger] o2[k]).len() == i2[k].len() by { assert(o2[k] == outs[k] && i2[k] == ins[k]); }
        flatg_rel(o2, i2, rel);
        let n = outs.len() - 1;
        assert forall |i: int| 0 <= i < flatg(outs).len() implies rel(#[trigger] flatg(outs)[i], flatg(ins)[i]) by {
            let l = flatg(o2).len();
            if i >= l { assert(flatg(outs)[i] == outs[n][i - l]); assert(flatg(ins)[i] == ins[n][i - l]); }
        }
    }
}

// last element of a concatenation of non-empty equal-size chunks
pub proof fn flatg_last<T>(s: Seq<Seq<T>>, w: nat)
    requires s.len() >= 1, w >= 1, forall |k: int| 0 <= k < s.len() ==> (#[trigger] s[k]).len() == w
    ensures flatg(s).len() == s.len() * w, flatg(s).len() >= 1, flatg(s).last() == s.last()[w - 1]
{
    flatg_len(s, w);
    flatg_len(s.drop_last(), w);
    assert(s.len() * w >= 1) by (nonlinear_arith) requires s.len() >= 1, w >= 1;
    assert((s.len() - 1) * w + w == s.len() * w) by (nonlinear_arith);
}

// chunk-wise CBC decryption relation (each chunk chained to the previous chunk's last input) lifts to the
// flat sequence: out_i = D(in_i) ^ (i == 0 ? iv0 : in_{i-1})
pub proof fn flatg_cbc_dec<T>(outs: Seq<Seq<T>>, ins: Seq<Seq<T>>, v: spec_fn(T) -> Blk, d: spec_fn(Blk) -> Blk, iv0: Blk, w: nat)
    requires
        w >= 1, outs.len() == ins.len(),
        forall |k: int| 0 <= k < outs.len() ==> (#[trigger] outs[k]).len() == w && ins[k].len() == w,
        forall |k: int, j: int| 0 <= k < outs.len() && 0 <= j < w ==> v(#[trigger] outs[k][j]) ==
            xor_seq(d(v(ins[k][j])), if j > 0 { v(ins[k][j - 1]) } else if k > 0 { v(ins[k - 1][w - 1]) } else { iv0 }),
    ensures
        flatg(outs).len() == flatg(ins).len(), flatg(outs).len() == outs.len() * w,
        forall |i: int| 0 <= i < flatg(outs).len() ==> v(#[trigger] flatg(outs)[i]) ==
            xor_seq(d(v(flatg(ins)[i])), if i == 0 { iv0 } else { v(flatg(ins)[i - 1]) }),
    decreases outs.len()
{
    assert forall |k: int| 0 <= k < ins.len() implies (#[trigger] ins[k]).len() == w by { assert(outs[k].len() == w); }
    flatg_len(outs, w); flatg_len(ins, w);
    if outs.len() > 0 {
        let o2 = outs.drop_last(); let i2 = ins.drop_last();
        let n = outs.len() - 1;
        assert forall |k: int| 0 <= k < o2.len() implies (#[trigger] o2[k]).len() == w && i2[k].len() == w by { assert(o2[k] == outs[k] && i2[k] == ins[k]); }
        assert forall |k: int| 0 <= k < i2.len() implies (#[trigger] i2[k]).len() == w by { assert(i2[k] == ins[k]); }
        assert forall |k: int, j: int| 0 <= k < o2.len() && 0 <= j < w implies v(#[trigger] o2[k][j]) ==
            xor_seq(d(v(i2[k][j])), if j > 0 { v(i2[k][j - 1]) } else if k > 0 { v(i2[k - 1][w - 1]) } else { iv0 }) by {
            assert(o2[k] == outs[k] && i2[k] == ins[k]);
            if k > 0 { assert(i2[k - 1] == ins[k - 1]); }
            assert(v(outs[k][j]) == xor_seq(d(v(ins[k][j])), if j > 0 { v(ins[k][j - 1]) } else if k > 0 { v(ins[k - 1][w - 1]) } else { iv0 }));
        }
        flatg_cbc_dec(o2, i2, v, d, iv0, w);
        flatg_len(o2, w); flatg_len(i2, w);
        let l = flatg(o2).len() as int;
        assert(l == flatg(i2).len());
        if n > 0 { flatg_last(i2, w); }
        assert forall |i: int| 0 <= i < flatg(outs).len() implies v(#[trigger] flatg(outs)[i]) ==
            xor_seq(d(v(flatg(ins)[i])), if i == 0 { iv0 } else { v(flatg(ins)[i - 1]) }) by {
            if i >= l {
                let j = i - l;
                assert(flatg(outs)[i] == outs[n][j]);
                assert(flatg(ins)[i] == ins[n][j]);
                assert(v(outs[n][j]) == xor_seq(d(v(ins[n][j])), if j > 0 { v(ins[n][j - 1]) } else if n > 0 { v(ins[n - 1][w - 1]) } else { iv0 }));
                if j > 0 { assert(flatg(ins)[i - 1] == ins[n][j - 1]); }
                else if n > 0 { assert(flatg(ins)[i - 1] == flatg(i2)[l - 1]); assert(i2.last() == ins[n - 1]); }
                else { assert(l == 0) by { assert(0 * w == 0) by (nonlinear_arith); } }
            } else {
                assert(flatg(outs)[i] == flatg(o2)[i]);
                assert(flatg(ins)[i] == flatg(i2)[i]);
                if i > 0 { assert(flatg(ins)[i - 1] == flatg(i2)[i - 1]); }
            }
        }
    } else {
        assert(0 * w == 0) by (nonlinear_arith);
    }
}

// prefix / suffix of a concatenation at a block boundary
pub proof fn flatg_take<T>(s: Seq<Seq<T>>, k: int, b: nat)
    requires 0 <= k <= s.len(), forall |i: int| 0 <= i < s.len() ==> (#[trigger] s[i]).len() == b
    ensures flatg(s).take(k * b) == flatg(s.take(k)), flatg(s).skip(k * b) == flatg(s.skip(k)), k * b <= flatg(s).len()
    decreases s.len()
{
    flatg_len(s, b);
    assert(k * b <= s.len() * b) by (nonlinear_arith) requires 0 <= k <= s.len();
    if k == s.len() {
        assert(s.take(k) =~= s);
        assert(flatg(s).take(k * b) =~= flatg(s));
        assert(s.skip(k) =~= Seq::<Seq<T>>::empty());
        assert(flatg(s).skip(k * b) =~= Seq::<T>::empty());
    } else {
        let dl = s.drop_last();
        flatg_len(dl, b);
        flatg_take(dl, k, b);
        assert(k * b <= (s.len() - 1) * b) by (nonlinear_arith) requires 0 <= k <= s.len() - 1;
        assert(dl.take(k) =~= s.take(k));
        assert(flatg(s).take(k * b) =~= flatg(dl).take(k * b));
        assert(s.skip(k) =~= dl.skip(k).push(s.last()));
        flatg_push(dl.skip(k), s.last());
        assert(flatg(s).skip(k * b) =~= flatg(dl).skip(k * b) + s.last());
    }
}

// ceil(l / b) for l = n*b + d, 0 <= d < b
pub proof fn div_ceil_of_chunks(n: int, d: int, b: int)
    requires n >= 0, 0 <= d < b
    ensures (n * b + d + b - 1) / b == (if d == 0 { n } else { n + 1 }), (n * b) % b == 0, (n * b) / b == n
{
    vstd::arithmetic::div_mod::lemma_fundamental_div_mod_converse(n * b, b, n, 0);
    if d == 0 {
        vstd::arithmetic::div_mod::lemma_fundamental_div_mod_converse(n * b + b - 1, b, n, b - 1);
    } else {
        assert(n * b + d + b - 1 == (n + 1) * b + (d - 1)) by (nonlinear_arith);
        vstd::arithmetic::div_mod::lemma_fundamental_div_mod_converse((n + 1) * b + (d - 1), b, n + 1, d - 1);
    }
}
