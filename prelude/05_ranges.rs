// ===== shim prelude: range indexing, slice <-> Array conversions, concat (ASSUMED contracts; D9) =====
pub type Sum<A, B> = <A as core::ops::Add<B>>::Output;
// typenum addition: value of the sum type
#[verifier::external_body]
pub proof fn axiom_sum<A: Unsigned + core::ops::Add<B>, B: Unsigned>()
    where <A as core::ops::Add<B>>::Output: Unsigned
    ensures <A as core::ops::Add<B>>::Output::USIZE == A::USIZE + B::USIZE
{}

impl<T, U: ArraySize> vstd::std_specs::core::IndexSpecImpl<core::ops::RangeTo<usize>> for Array<T, U> {
    open spec fn index_req(&self, r: &core::ops::RangeTo<usize>) -> bool { r.end <= U::USIZE }
}
impl<T, U: ArraySize> Index<core::ops::RangeTo<usize>> for Array<T, U> {
    type Output = [T];
    #[verifier::external_body]
    fn index(&self, r: core::ops::RangeTo<usize>) -> (o: &[T]) ensures o@ == self@.take(r.end as int) { unimplemented!() }
}
impl<T, U: ArraySize> vstd::std_specs::core::IndexSpecImpl<core::ops::RangeFrom<usize>> for Array<T, U> {
    open spec fn index_req(&self, r: &core::ops::RangeFrom<usize>) -> bool { r.start <= U::USIZE }
}
impl<T, U: ArraySize> Index<core::ops::RangeFrom<usize>> for Array<T, U> {
    type Output = [T];
    #[verifier::external_body]
    fn index(&self, r: core::ops::RangeFrom<usize>) -> (o: &[T]) ensures o@ == self@.skip(r.start as int) { unimplemented!() }
}
impl<T, U: ArraySize> IndexMut<core::ops::RangeTo<usize>> for Array<T, U> {
    #[verifier::external_body]
    fn index_mut(&mut self, r: core::ops::RangeTo<usize>) -> (o: &mut [T])
        ensures o@ == old(self)@.take(r.end as int), final(o)@.len() == o@.len(),
                final(self)@ == final(o)@ + old(self)@.skip(r.end as int)
    { unimplemented!() }
}
impl<T, U: ArraySize> IndexMut<core::ops::RangeFrom<usize>> for Array<T, U> {
    #[verifier::external_body]
    fn index_mut(&mut self, r: core::ops::RangeFrom<usize>) -> (o: &mut [T])
        ensures o@ == old(self)@.skip(r.start as int), final(o)@.len() == o@.len(),
                final(self)@ == old(self)@.take(r.start as int) + final(o)@
    { unimplemented!() }
}

#[derive(Debug)]
pub struct TryFromSliceError;
impl<T, U: ArraySize> vstd::std_specs::core::IndexSpecImpl<core::ops::Range<usize>> for Array<T, U> {
    open spec fn index_req(&self, r: &core::ops::Range<usize>) -> bool { r.start <= r.end <= U::USIZE }
}
impl<T, U: ArraySize> Index<core::ops::Range<usize>> for Array<T, U> {
    type Output = [T];
    #[verifier::external_body]
    fn index(&self, r: core::ops::Range<usize>) -> (o: &[T]) ensures o@ == self@.subrange(r.start as int, r.end as int) { unimplemented!() }
}
impl<T, U: ArraySize> IndexMut<core::ops::Range<usize>> for Array<T, U> {
    #[verifier::external_body]
    fn index_mut(&mut self, r: core::ops::Range<usize>) -> (o: &mut [T])
        ensures o@ == old(self)@.subrange(r.start as int, r.end as int), final(o)@.len() == o@.len(),
                final(self)@ == old(self)@.take(r.start as int) + final(o)@ + old(self)@.skip(r.end as int)
    { unimplemented!() }
}
// `x.try_into()` is renamed token-wise to `x.shim_try_into()` (DESIGN 3.1): vstd's specification of the
// blanket TryInto impl does not reach std's TryFrom<&[T]> for [T; N], so the conversions the repo uses
// are declared here with the std / hybrid-array semantics as assumed contracts.
pub trait ShimTryInto<U>: Sized {
    type Error: core::fmt::Debug;
    spec fn conv_ok(self) -> bool;
    spec fn conv_eq(self, u: U) -> bool;
    fn shim_try_into(self) -> (r: Result<U, Self::Error>)
        ensures r is Ok <==> self.conv_ok(), r is Ok ==> self.conv_eq(r->Ok_0);
}
impl<'a, T: Clone, U: ArraySize> ShimTryInto<Array<T, U>> for &'a [T] {
    type Error = TryFromSliceError;
    #[verifier::external_body]
    fn shim_try_into(self) -> (r: Result<Array<T, U>, TryFromSliceError>) { unimplemented!() }
    open spec fn conv_ok(self) -> bool { self@.len() == U::USIZE }
    open spec fn conv_eq(self, u: Array<T, U>) -> bool { u@ == self@ }
}
impl<'a, T, U: ArraySize> ShimTryInto<&'a Array<T, U>> for &'a [T] {
    type Error = TryFromSliceError;
    #[verifier::external_body]
    fn shim_try_into(self) -> (r: Result<&'a Array<T, U>, TryFromSliceError>) { unimplemented!() }
    open spec fn conv_ok(self) -> bool { self@.len() == U::USIZE }
    open spec fn conv_eq(self, u: &'a Array<T, U>) -> bool { u@ == self@ }
}
impl<'a, T: Copy, const N: usize> ShimTryInto<[T; N]> for &'a [T] {
    type Error = TryFromSliceError;
    #[verifier::external_body]
    fn shim_try_into(self) -> (r: Result<[T; N], TryFromSliceError>) { unimplemented!() }
    open spec fn conv_ok(self) -> bool { self@.len() == N }
    open spec fn conv_eq(self, u: [T; N]) -> bool { u@ == self@ }
}
#[derive(Debug)]
pub struct TryFromIntError;
// ASSUMED (conformance: harness shim_int_conversions): widening u8 -> i32 keeps the value (vstd specifies the unsigned targets only)
pub assume_specification[<i32 as core::convert::From<u8>>::from](x: u8) -> (r: i32) ensures r == x as i32;
impl ShimTryInto<usize> for u32 {
    type Error = TryFromIntError;
    #[verifier::external_body]
    fn shim_try_into(self) -> (r: Result<usize, TryFromIntError>) { unimplemented!() }
    open spec fn conv_ok(self) -> bool { self as int <= usize::MAX as int }
    open spec fn conv_eq(self, u: usize) -> bool { u as int == self as int }
}
impl ShimTryInto<usize> for u64 {
    type Error = TryFromIntError;
    #[verifier::external_body]
    fn shim_try_into(self) -> (r: Result<usize, TryFromIntError>) { unimplemented!() }
    open spec fn conv_ok(self) -> bool { self as int <= usize::MAX as int }
    open spec fn conv_eq(self, u: usize) -> bool { u as int == self as int }
}
impl ShimTryInto<usize> for u128 {
    type Error = TryFromIntError;
    #[verifier::external_body]
    fn shim_try_into(self) -> (r: Result<usize, TryFromIntError>) { unimplemented!() }
    open spec fn conv_ok(self) -> bool { self as int <= usize::MAX as int }
    open spec fn conv_eq(self, u: usize) -> bool { u as int == self as int }
}

impl<T, U: ArraySize> Array<T, U> {
    #[verifier::external_body]
    pub fn concat<N: ArraySize>(self, other: Array<T, N>) -> (r: Array<T, Sum<U, N>>)
        where U: core::ops::Add<N>, Sum<U, N>: ArraySize
        ensures r@ == self@ + other@
    { unimplemented!() }

    #[verifier::external_body]
    pub fn as_mut_slice(&mut self) -> (o: &mut [T])
        ensures o@ == old(self)@, final(o)@.len() == o@.len(), final(self)@ == final(o)@
    { unimplemented!() }

    #[verifier::external_body]
    pub fn as_slice(&self) -> (o: &[T]) ensures o@ == self@ { unimplemented!() }
}

// `<&Array<T, N>>::try_from(slice)` is renamed token-wise to `shim_try_from` (same reason as shim_try_into)
pub trait ShimTryFrom<S>: Sized {
    type Error: core::fmt::Debug;
    spec fn from_ok(s: S) -> bool;
    spec fn from_eq(s: S, u: Self) -> bool;
    fn shim_try_from(s: S) -> (r: Result<Self, Self::Error>)
        ensures r is Ok <==> Self::from_ok(s), r is Ok ==> Self::from_eq(s, r->Ok_0);
}
impl<'a, T, U: ArraySize> ShimTryFrom<&'a [T]> for &'a Array<T, U> {
    type Error = TryFromSliceError;
    #[verifier::external_body]
    fn shim_try_from(s: &'a [T]) -> (r: Result<&'a Array<T, U>, TryFromSliceError>) { unimplemented!() }
    open spec fn from_ok(s: &'a [T]) -> bool { s@.len() == U::USIZE }
    open spec fn from_eq(s: &'a [T], u: &'a Array<T, U>) -> bool { u@ == s@ }
}
