// ===== shim prelude: range indexing, slice <-> Array conversions, concat (ASSUMED contracts; D9) =====
pub type Sum<A, B> = <A as core::ops::Add<B>>::Output;
// typenum addition: value of the sum type
#[verifier::external_body]
pub proof fn axiom_sum<A: Unsigned + core::ops::Add<B>, B: Unsigned>()
    where <A as core::ops::Add<B>>::Output: Unsigned
    ensures <A as core::ops::Add<B>>::Output::USIZE == A::USIZE + B::USIZE
{}

impl<T, U: ArraySize> vstd::std_specs::core::IndexSpecImpl<core::ops::RangeTo<usize>> for Array<T, U> {
    open spec fn index_req(&self, r: &core::ops::RangeTo<usize>) -> bool { r.end <= U::USIZE }
}
impl<T, U: ArraySize> Index<core::ops::RangeTo<usize>> for Array<T, U> {
    type Output = [T];
    #[verifier::external_body]
    fn index(&self, r: core::ops::RangeTo<usize>) -> (o: &[T]) ensures o@ == self@.take(r.end as int) { unimplemented!() }
}
impl<T, U: ArraySize> vstd::std_specs::core::IndexSpecImpl<core::ops::RangeFrom<usize>> for Array<T, U> {
    open spec fn index_req(&self, r: &core::ops::RangeFrom<usize>) -> bool { r.start <= U::USIZE }
}
impl<T, U: ArraySize> Index<core::ops::RangeFrom<usize>> for Array<T, U> {
    type Output = [T];
    #[verifier::external_body]
    fn index(&self, r: core::ops::RangeFrom<usize>) -> (o: &[T]) ensures o@ == self@.skip(r.start as int) { unimplemented!() }
}
impl<T, U: ArraySize> IndexMut<core::ops::RangeTo<usize>> for Array<T, U> {
    #[verifier::external_body]
    fn index_mut(&mut self, r: core::ops::RangeTo<usize>) -> (o: &mut [T])
        ensures o@ == old(self)@.take(r.end as int), final(o)@.len() == o@.len(),
                final(self)@ == final(o)@ + old(self)@.skip(r.end as int)
    { unimplemented!() }
}
impl<T, U: ArraySize> IndexMut<core::ops::RangeFrom<usize>> for Array<T, U> {
    #[verifier::external_body]
    fn index_mut(&mut self, r: core::ops::RangeFrom<usize>) -> (o: &mut [T])
        ensures o@ == old(self)@.skip(r.start as int), final(o)@.len() == o@.len(),
                final(self)@ == old(self)@.take(r.start as int) + final(o)@
    { unimplemented!() }
}

#[derive(Debug)]
pub struct TryFromSliceError;
impl<T, U: ArraySize> vstd::std_specs::core::IndexSpecImpl<core::ops::Range<usize>> for Array<T, U> {
    open spec fn index_req(&self, r: &core::ops::Range<usize>) -> bool { r.start <= r.end <= U::USIZE }
}
impl<T, U: ArraySize> Index<core::ops::Range<usize>> for Array<T, U> {
    type Output = [T];
    #[verifier::external_body]
    fn index(&self, r: core::ops::Range<usize>) -> (o: &[T]) ensures o@ == self@.subrange(r.start as int, r.end as int) { unimplemented!() }
}
impl<T, U: ArraySize> IndexMut<core::ops::Range<usize>> for Array<T, U> {
    #[verifier::external_body]
    fn index_mut(&mut self, r: core::ops::Range<usize>) -> (o: &mut [T])
        ensures o@ == old(self)@.subrange(r.start as int, r.end as int), final(o)@.len() == o@.len(),
                final(self)@ == old(self)@.take(r.start as int) + final(o)@ + old(self)@.skip(r.end as int)
    { unimplemented!() }
}
impl<'a, T: Clone, U: ArraySize> TryFrom<&'a [T]> for Array<T, U> {
    type Error = TryFromSliceError;
    #[verifier::external_body]
    fn try_from(slice: &'a [T]) -> (r: Result<Array<T, U>, TryFromSliceError>)
        ensures r is Ok <==> slice@.len() == U::USIZE, r is Ok ==> r->Ok_0@ == slice@
    { unimplemented!() }
}
impl<'a, T, U: ArraySize> TryFrom<&'a [T]> for &'a Array<T, U> {
    type Error = TryFromSliceError;
    #[verifier::external_body]
    fn try_from(slice: &'a [T]) -> (r: Result<&'a Array<T, U>, TryFromSliceError>)
        ensures r is Ok <==> slice@.len() == U::USIZE, r is Ok ==> r->Ok_0@ == slice@
    { unimplemented!() }
}

impl<T, U: ArraySize> Array<T, U> {
    #[verifier::external_body]
    pub fn concat<N: ArraySize>(self, other: Array<T, N>) -> (r: Array<T, Sum<U, N>>)
        where U: core::ops::Add<N>, Sum<U, N>: ArraySize
        ensures r@ == self@ + other@
    { unimplemented!() }

    #[verifier::external_body]
    pub fn as_mut_slice(&mut self) -> (o: &mut [T])
        ensures o@ == old(self)@, final(o)@.len() == o@.len(), final(self)@ == final(o)@
    { unimplemented!() }

    #[verifier::external_body]
    pub fn as_slice(&self) -> (o: &[T]) ensures o@ == self@ { unimplemented!() }
}
