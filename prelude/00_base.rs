// ===== shim prelude: typenum / hybrid-array / spec basics (ASSUMED contracts; see DESIGN 3.2) =====
pub type Blk = Seq<u8>;
pub type Abs = Seq<Seq<u8>>;
pub type Step = spec_fn(Abs, Blk) -> (Abs, Blk);

pub trait Unsigned { const USIZE: usize; const U8: u8; }
pub trait ArraySize: Unsigned + Sized + 'static {}
pub trait BlockSizes: ArraySize {
    // typenum: U8 is the same number as USIZE (it fits because block sizes are below 256)
    proof fn block_size_bounds() ensures 1 <= Self::USIZE <= 255, Self::U8 as int == Self::USIZE as int;
}

pub struct U1;
impl Unsigned for U1 { #[verifier::external_body] const USIZE: usize = 1; #[verifier::external_body] const U8: u8 = 1; }
impl ArraySize for U1 {}
#[verifier::external_body]
pub broadcast proof fn axiom_u1() ensures #[trigger] U1::USIZE == 1 {}
#[verifier::external_body]
pub broadcast proof fn axiom_u1_u8() ensures #[trigger] U1::U8 == 1 {}
impl BlockSizes for U1 { proof fn block_size_bounds() { broadcast use axiom_u1, axiom_u1_u8; } }

#[verifier::external_body]
#[verifier::accept_recursive_types(T)]
#[verifier::accept_recursive_types(U)]
pub struct Array<T, U: ArraySize> { v: Vec<T>, _p: PhantomData<U> }

impl<T, U: ArraySize> Array<T, U> {
    pub uninterp spec fn view(&self) -> Seq<T>;

    #[verifier::external_body]
    pub broadcast proof fn axiom_len(&self)
        ensures #[trigger] self@.len() == U::USIZE
    {}

    #[verifier::external_body]
    pub fn len(&self) -> (r: usize) ensures r == U::USIZE { unimplemented!() }
}

impl<T: Clone, U: ArraySize> Clone for Array<T, U> {
    // T is u8/u32/u64/u128 or an Array of u8 in every use: clone is a bit copy
    #[verifier::external_body]
    fn clone(&self) -> (r: Self) ensures r@ == self@ { unimplemented!() }
}

impl<T, U: ArraySize> vstd::std_specs::core::IndexSpecImpl<usize> for Array<T, U> {
    open spec fn index_req(&self, i: &usize) -> bool { *i < U::USIZE }
}
impl<T, U: ArraySize> Index<usize> for Array<T, U> {
    type Output = T;
    #[verifier::external_body]
    fn index(&self, i: usize) -> (r: &T) ensures *r == self@[i as int] { unimplemented!() }
}
impl<T, U: ArraySize> IndexMut<usize> for Array<T, U> {
    #[verifier::external_body]
    fn index_mut(&mut self, i: usize) -> (r: &mut T)
        ensures *r == old(self)@[i as int],
                final(self)@ == old(self)@.update(i as int, *final(r))
    { unimplemented!() }
}

pub uninterp spec fn zero_of<T>() -> T;
#[verifier::external_body]
pub broadcast proof fn axiom_zero_u8() ensures #[trigger] zero_of::<u8>() == 0u8 {}
#[verifier::external_body]
pub broadcast proof fn axiom_zero_u32() ensures #[trigger] zero_of::<u32>() == 0u32 {}
#[verifier::external_body]
pub broadcast proof fn axiom_zero_u64() ensures #[trigger] zero_of::<u64>() == 0u64 {}
#[verifier::external_body]
pub broadcast proof fn axiom_zero_u128() ensures #[trigger] zero_of::<u128>() == 0u128 {}
#[verifier::external_body]
pub proof fn axiom_zero_array<T, U: ArraySize>()
    ensures forall |i: int| 0 <= i < U::USIZE ==> (#[trigger] zero_of::<Array<T, U>>()@[i]) == zero_of::<T>() {}

impl<T, U: ArraySize> Default for Array<T, U> {
    #[verifier::external_body]
    fn default() -> (r: Self) ensures r == zero_of::<Array<T, U>>() { unimplemented!() }
}

// `out.iter_mut().zip(buf)` over two Arrays (the `xor` helpers): Array is a shim type, so the element-wise pairing of the
// real std::iter::Zip is MODELLED by an inherent method of the shim iterator (assumed): pair i = (element i, element i)
#[verifier::external_body]
#[verifier::accept_recursive_types(T)]
pub struct ArrZip<'a, 'b, T> { it: core::iter::Zip<core::slice::IterMut<'a, T>, core::slice::Iter<'b, T>> }
pub uninterp spec fn azip_remaining<'a, 'b, T>(it: &ArrZip<'a, 'b, T>) -> Seq<(&'a mut T, &'b T)>;
impl<'a, 'b, T> vstd::std_specs::iter::IteratorSpecImpl for ArrZip<'a, 'b, T> {
    open spec fn obeys_prophetic_iter_laws(&self) -> bool { true }
    open spec fn remaining(&self) -> Seq<(&'a mut T, &'b T)> { azip_remaining(self) }
    open spec fn will_return_none(&self) -> bool { true }
    open spec fn decrease(&self) -> Option<nat> { Some(azip_remaining(self).len()) }
    open spec fn peek(&self, i: int) -> Option<(&'a mut T, &'b T)> {
        if 0 <= i < azip_remaining(self).len() { Some(azip_remaining(self)[i]) } else { None }
    }
}
impl<'a, 'b, T> Iterator for ArrZip<'a, 'b, T> {
    type Item = (&'a mut T, &'b T);
    #[verifier::external_body]
    fn next(&mut self) -> (r: Option<(&'a mut T, &'b T)>) { unimplemented!() }
}
impl<'a, T> ArrIterMut<'a, T> {
    #[verifier::external_body]
    pub fn zip<'b, U: ArraySize>(self, other: &'b Array<T, U>) -> (r: ArrZip<'a, 'b, T>)
        ensures
            azip_remaining(&r).len() == (if aim_remaining(&self).len() <= U::USIZE { aim_remaining(&self).len() } else { U::USIZE as nat }),
            forall |i: int| #![trigger azip_remaining(&r)[i]] #![trigger aim_remaining(&self)[i]] 0 <= i < azip_remaining(&r).len() ==> {
                &&& *azip_remaining(&r)[i].0 == *aim_remaining(&self)[i]
                &&& mut_ref_future(azip_remaining(&r)[i].0) == mut_ref_future(aim_remaining(&self)[i])
                &&& *azip_remaining(&r)[i].1 == other@[i]
            },
    { unimplemented!() }
}

pub open spec fn xor_seq(a: Seq<u8>, b: Seq<u8>) -> Seq<u8> {
    Seq::new(a.len(), |i: int| a[i] ^ b[i])
}

pub proof fn xor_comm(a: Seq<u8>, b: Seq<u8>)
    requires a.len() == b.len()
    ensures xor_seq(a, b) == xor_seq(b, a)
{
    assert forall |i: int| 0 <= i < a.len() implies a[i] ^ b[i] == b[i] ^ a[i] by {
        let x = a[i]; let y = b[i];
        assert(x ^ y == y ^ x) by (bit_vector);
    }
    assert(xor_seq(a, b) =~= xor_seq(b, a));
}

// (a ^ b) ^ b == a : the keystream / chaining XOR is an involution
pub proof fn xor_cancel(a: Seq<u8>, b: Seq<u8>)
    requires a.len() == b.len()
    ensures xor_seq(xor_seq(a, b), b) == a
{
    assert forall |i: int| 0 <= i < a.len() implies (a[i] ^ b[i]) ^ b[i] == a[i] by {
        let x = a[i]; let y = b[i];
        assert((x ^ y) ^ y == x) by (bit_vector);
    }
    assert(xor_seq(xor_seq(a, b), b) =~= a);
}

pub open spec fn views<N: ArraySize>(s: Seq<Array<u8, N>>) -> Seq<Blk> { Seq::new(s.len(), |i: int| s[i]@) }

// ---------- the sequential transducer and its fold (spec library core) ----------
pub open spec fn run(step: Step, s: Abs, xs: Seq<Blk>) -> (Abs, Seq<Blk>)
    decreases xs.len()
{
    if xs.len() == 0 { (s, Seq::empty()) } else {
        let (s1, y) = step(s, xs[0]);
        let (s2, ys) = run(step, s1, xs.skip(1));
        (s2, seq![y] + ys)
    }
}

pub proof fn run_one(step: Step, s: Abs, x: Blk)
    ensures run(step, s, seq![x]) == (step(s, x).0, seq![step(s, x).1])
{
    reveal_with_fuel(run, 3);
    assert(seq![x].skip(1) =~= Seq::<Blk>::empty());
    assert(run(step, s, seq![x]).1 =~= seq![step(s, x).1]);
}

pub proof fn run_len(step: Step, s: Abs, xs: Seq<Blk>)
    ensures run(step, s, xs).1.len() == xs.len()
    decreases xs.len()
{
    if xs.len() > 0 {
        run_len(step, step(s, xs[0]).0, xs.skip(1));
    }
}

pub proof fn run_concat(step: Step, s: Abs, a: Seq<Blk>, b: Seq<Blk>)
    ensures run(step, s, a + b) == ({ let (s1, ya) = run(step, s, a); let (s2, yb) = run(step, s1, b); (s2, ya + yb) })
    decreases a.len()
{
    if a.len() == 0 {
        assert(a + b =~= b);
        assert(Seq::<Blk>::empty() + run(step, s, b).1 =~= run(step, s, b).1);
    } else {
        let (s1, y) = step(s, a[0]);
        assert((a + b)[0] == a[0]);
        assert((a + b).skip(1) =~= a.skip(1) + b);
        run_concat(step, s1, a.skip(1), b);
        let (sa, ya) = run(step, s1, a.skip(1));
        let (sb, yb) = run(step, sa, b);
        assert(seq![y] + (ya + yb) =~= (seq![y] + ya) + yb);
    }
}

// run over n blocks where the caller knows the per-index states: unrolled characterisation used by
// the parallel bodies.  states(i) is the state before block i.
pub proof fn run_by_states(step: Step, s: Abs, xs: Seq<Blk>, states: spec_fn(int) -> Abs, ys: Seq<Blk>)
    requires
        ys.len() == xs.len(),
        states(0) == s,
        forall |i: int| 0 <= i < xs.len() ==> #[trigger] step(states(i), xs[i]) == (states(i + 1), ys[i]),
    ensures run(step, s, xs) == (states(xs.len() as int), ys)
    decreases xs.len()
{
    if xs.len() == 0 {
        assert(ys =~= Seq::<Blk>::empty());
    } else {
        let st2 = |i: int| states(i + 1);
        assert(step(states(0), xs[0]) == (states(1), ys[0]));
        assert forall |i: int| 0 <= i < xs.skip(1).len() implies #[trigger] step(st2(i), xs.skip(1)[i]) == (st2(i + 1), ys.skip(1)[i]) by {
            assert(step(states(i + 1), xs[i + 1]) == (states(i + 2), ys[i + 1]));
        }
        run_by_states(step, states(1), xs.skip(1), st2, ys.skip(1));
        assert(seq![ys[0]] + ys.skip(1) =~= ys);
    }
}

// ---------- Array::iter_mut / IntoIterator (iterator protocol of vstd; DESIGN Appendix A.4) ----------
#[verifier::external]
impl<'a, T, U: ArraySize> IntoIterator for &'a Array<T, U> { type Item = &'a T; type IntoIter = core::slice::Iter<'a, T>; fn into_iter(self) -> Self::IntoIter { self.v.iter() } }

#[verifier::external_body]
#[verifier::accept_recursive_types(T)]
pub struct ArrIterMut<'a, T> { it: core::slice::IterMut<'a, T> }
pub uninterp spec fn aim_remaining<'a, T>(it: &ArrIterMut<'a, T>) -> Seq<&'a mut T>;
impl<'a, T> vstd::std_specs::iter::IteratorSpecImpl for ArrIterMut<'a, T> {
    open spec fn obeys_prophetic_iter_laws(&self) -> bool { true }
    open spec fn remaining(&self) -> Seq<&'a mut T> { aim_remaining(self) }
    open spec fn will_return_none(&self) -> bool { true }
    open spec fn decrease(&self) -> Option<nat> { Some(aim_remaining(self).len()) }
    open spec fn peek(&self, i: int) -> Option<&'a mut T> {
        if 0 <= i < aim_remaining(self).len() { Some(aim_remaining(self)[i]) } else { None }
    }
}
impl<'a, T> Iterator for ArrIterMut<'a, T> {
    type Item = &'a mut T;
    #[verifier::external_body]
    fn next(&mut self) -> (r: Option<&'a mut T>) { unimplemented!() }
}
impl<T, U: ArraySize> Array<T, U> {
    #[verifier::external_body]
    pub fn iter_mut<'a>(&'a mut self) -> (r: ArrIterMut<'a, T>)
        ensures
            aim_remaining(&r).len() == U::USIZE,
            final(self)@.len() == U::USIZE,
            forall |i: int| #![trigger aim_remaining(&r)[i]] #![trigger final(self)@[i]] 0 <= i < U::USIZE ==> {
                &&& *aim_remaining(&r)[i] == old(self)@[i]
                &&& mut_ref_future(aim_remaining(&r)[i]) == final(self)@[i]
            },
    { unimplemented!() }
}
