// ===== shim prelude: inout::InOut (ASSUMED contracts) =====
// `aliased` is ghost: true = in-place (one pointer), false = disjoint input and output.  These are
// the only two cases the safe constructors of the real `inout` crate allow.
pub struct InOut<'inp, 'out, T> { pub inp: &'inp T, pub out: &'out mut T, pub aliased: Ghost<bool> }

#[verifier::prophetic]
pub open spec fn fut_of<T>(r: &mut T) -> T { mut_ref_future(r) }

impl<'inp, 'out, T> InOut<'inp, 'out, T> {
    pub open spec fn in_val(&self) -> T { if self.aliased@ { *self.out } else { *self.inp } }
    pub open spec fn out_cur(&self) -> T { *self.out }
    #[verifier::prophetic]
    pub open spec fn out_fut(&self) -> T { mut_ref_future(self.out) }

    #[verifier::external_body]
    pub fn get_in(&self) -> (r: &T) ensures *r == self.in_val() { unimplemented!() }

    #[verifier::external_body]
    pub fn get_out(&mut self) -> (r: &mut T)
        ensures *r == *old(self).out,
                *final(self).out == *final(r),
                mut_ref_future(final(self).out) == mut_ref_future(old(self).out),
                final(self).inp == old(self).inp,
                final(self).aliased == old(self).aliased,
    { unimplemented!() }

    #[verifier::external_body]
    pub fn reborrow<'a>(&'a mut self) -> (r: InOut<'a, 'a, T>)
        ensures r.in_val() == old(self).in_val(), *r.out == *old(self).out, r.aliased == old(self).aliased,
                *final(self).out == mut_ref_future(r.out),
                mut_ref_future(final(self).out) == mut_ref_future(old(self).out),
                final(self).inp == old(self).inp,
                final(self).aliased == old(self).aliased,
    { unimplemented!() }
}
impl<'inp, 'out, T: Clone> InOut<'inp, 'out, T> {
    // T is an Array of bytes (or of such arrays) in every use: clone is a bit copy
    #[verifier::external_body]
    pub fn clone_in(&self) -> (r: T) ensures r == self.in_val() { unimplemented!() }
}
impl<'a, T> From<&'a mut T> for InOut<'a, 'a, T> {
    #[verifier::external_body]
    fn from(x: &'a mut T) -> (r: Self) ensures r.aliased@, r.out == x { unimplemented!() }
}
impl<'inp, 'out, T> From<(&'inp T, &'out mut T)> for InOut<'inp, 'out, T> {
    #[verifier::external_body]
    fn from(x: (&'inp T, &'out mut T)) -> (r: Self) ensures !r.aliased@, r.inp == x.0, r.out == x.1 { unimplemented!() }
}
impl<'inp, 'out, T, N: ArraySize> InOut<'inp, 'out, Array<T, N>> {
    #[verifier::external_body]
    pub fn get<'a>(&'a mut self, pos: usize) -> (r: InOut<'a, 'a, T>)
        requires pos < N::USIZE
        ensures
            r.in_val() == old(self).in_val()@[pos as int],
            *r.out == old(self).out@[pos as int],
            r.aliased == old(self).aliased,
            final(self).out@ == old(self).out@.update(pos as int, mut_ref_future(r.out)),
            mut_ref_future(final(self).out) == mut_ref_future(old(self).out),
            final(self).inp == old(self).inp,
            final(self).aliased == old(self).aliased,
    { unimplemented!() }
}
impl<'inp, 'out, N: ArraySize> InOut<'inp, 'out, Array<u8, N>> {
    #[verifier::external_body]
    pub fn xor_in2out(&mut self, data: &Array<u8, N>)
        ensures
            final(self).out@ == xor_seq(old(self).in_val()@, data@),
            mut_ref_future(final(self).out) == mut_ref_future(old(self).out),
            final(self).inp == old(self).inp,
            final(self).aliased == old(self).aliased,
    { unimplemented!() }
}
