// ===== shim prelude: crypto-common / cipher block traits (ASSUMED contracts; drivers D1, D2, D7, D8) =====
pub trait BlockSizeUser { type BlockSize: BlockSizes; }
pub trait ParBlocksSizeUser: BlockSizeUser { type ParBlocksSize: ArraySize; }
pub type Block<B> = Array<u8, <B as BlockSizeUser>::BlockSize>;
pub type ParBlocks<B> = Array<Block<B>, <B as ParBlocksSizeUser>::ParBlocksSize>;
pub trait InnerUser { type Inner; }
pub trait IvSizeUser { type IvSize: ArraySize; }
pub type Iv<B> = Array<u8, <B as IvSizeUser>::IvSize>;

pub trait InnerIvInit: InnerUser + IvSizeUser + Sized {
    fn inner_iv_init(cipher: Self::Inner, iv: &Iv<Self>) -> Self;
}
pub trait InnerInit: InnerUser + Sized {
    fn inner_init(cipher: Self::Inner) -> Self;
}
pub trait IvState: IvSizeUser {
    fn iv_state(&self) -> Iv<Self>;
}

// ---- the block cipher itself: an uninterpreted pair of functions per backend ----
pub trait BlockCipherEncBackend: ParBlocksSizeUser + Sized {
    spec fn enc_fn(&self) -> spec_fn(Blk) -> Blk;

    fn encrypt_block(&self, block: InOut<'_, '_, Block<Self>>)
        ensures block.out_fut()@ == self.enc_fn()(block.in_val()@);

    fn encrypt_par_blocks(&self, blocks: InOut<'_, '_, ParBlocks<Self>>)
        ensures forall |i: int| 0 <= i < Self::ParBlocksSize::USIZE ==>
            (#[trigger] mut_ref_future(blocks.out)@[i])@ == self.enc_fn()(blocks.in_val()@[i]@);

    fn encrypt_block_inplace(&self, block: &mut Block<Self>)
        ensures final(block)@ == self.enc_fn()(old(block)@);

    fn encrypt_par_blocks_inplace(&self, blocks: &mut ParBlocks<Self>)
        ensures forall |i: int| 0 <= i < Self::ParBlocksSize::USIZE ==>
            (#[trigger] final(blocks)@[i])@ == self.enc_fn()(old(blocks)@[i]@);
}

pub trait BlockCipherDecBackend: ParBlocksSizeUser + Sized {
    spec fn dec_fn(&self) -> spec_fn(Blk) -> Blk;

    fn decrypt_block(&self, block: InOut<'_, '_, Block<Self>>)
        ensures block.out_fut()@ == self.dec_fn()(block.in_val()@);

    fn decrypt_par_blocks(&self, blocks: InOut<'_, '_, ParBlocks<Self>>)
        ensures forall |i: int| 0 <= i < Self::ParBlocksSize::USIZE ==>
            (#[trigger] mut_ref_future(blocks.out)@[i])@ == self.dec_fn()(blocks.in_val()@[i]@);

    fn decrypt_block_inplace(&self, block: &mut Block<Self>)
        ensures final(block)@ == self.dec_fn()(old(block)@);

    fn decrypt_par_blocks_inplace(&self, blocks: &mut ParBlocks<Self>)
        ensures forall |i: int| 0 <= i < Self::ParBlocksSize::USIZE ==>
            (#[trigger] final(blocks)@[i])@ == self.dec_fn()(old(blocks)@[i]@);
}

// ---- block-mode backends: the transducer contract, stated once (DESIGN 3.3) ----
pub trait BlockModeEncBackend: ParBlocksSizeUser {
    spec fn abs(&self) -> Abs;
    #[verifier::prophetic]
    spec fn abs_fut(&self) -> Abs;
    spec fn step(&self) -> Step;

    fn encrypt_block(&mut self, block: InOut<'_, '_, Block<Self>>)
        ensures
            final(self).step() == old(self).step(),
            final(self).abs_fut() == old(self).abs_fut(),
            (final(self).abs(), seq![block.out_fut()@]) == run(old(self).step(), old(self).abs(), seq![block.in_val()@]);
}

pub trait BlockModeDecBackend: ParBlocksSizeUser {
    spec fn abs(&self) -> Abs;
    #[verifier::prophetic]
    spec fn abs_fut(&self) -> Abs;
    spec fn step(&self) -> Step;

    fn decrypt_block(&mut self, block: InOut<'_, '_, Block<Self>>)
        ensures
            final(self).step() == old(self).step(),
            final(self).abs_fut() == old(self).abs_fut(),
            (final(self).abs(), seq![block.out_fut()@]) == run(old(self).step(), old(self).abs(), seq![block.in_val()@]);

    // precondition derived from the single call site in cipher::block::ctx (BlocksCtx::call takes the
    // parallel path only if ParBlocksSize > 1).  The default body below is the dependency's own text
    // (cipher-0.5.0-pre.8 src/block/backends.rs), verified here against the transducer contract.
    fn decrypt_par_blocks(&mut self, mut blocks: InOut<'_, '_, ParBlocks<Self>>)
        requires Self::ParBlocksSize::USIZE > 1
        ensures
            final(self).step() == old(self).step(),
            final(self).abs_fut() == old(self).abs_fut(),
            (final(self).abs(), views(blocks.out_fut()@)) == run(old(self).step(), old(self).abs(), views(blocks.in_val()@))
    {
        broadcast use Array::axiom_len;
        let ghost step0 = self.step();
        let ghost abs0 = self.abs();
        let ghost in0 = blocks.in_val()@;
        let ghost b0 = blocks;
        for i in 0..Self::ParBlocksSize::USIZE
            invariant
                self.step() == step0, self.abs_fut() == old(self).abs_fut(),
                in0.len() == Self::ParBlocksSize::USIZE, blocks.out@.len() == in0.len(),
                mut_ref_future(blocks.out) == mut_ref_future(b0.out), blocks.inp == b0.inp, blocks.aliased == b0.aliased,
                forall |j: int| i <= j < in0.len() ==> #[trigger] blocks.in_val()@[j] == in0[j],
                (self.abs(), views(blocks.out@.take(i as int))) == run(step0, abs0, views(in0.take(i as int))),
        {
            let ghost a1 = self.abs();
            let ghost o1 = blocks.out@;
            self.decrypt_block(blocks.get(i));
            proof {
                let xs = views(in0.take(i as int));
                run_concat(step0, abs0, xs, seq![in0[i as int]@]);
                assert(views(in0.take(i + 1)) =~= xs + seq![in0[i as int]@]);
                assert(views(blocks.out@.take(i + 1)) =~= views(o1.take(i as int)) + seq![blocks.out@[i as int]@]);
            }
        }
        proof {
            assert(in0.take(in0.len() as int) =~= in0);
            assert(blocks.out@.take(in0.len() as int) =~= blocks.out@);
        }
    }
}

// ---- rank-2 closures, contracts at the abstract level ----
pub trait BlockModeEncClosure: BlockSizeUser + Sized {
    #[verifier::prophetic]
    spec fn post(&self, step: Step, a0: Abs, a1: Abs) -> bool;
    fn call<B: BlockModeEncBackend<BlockSize = Self::BlockSize>>(self, backend: &mut B)
        ensures self.post(old(backend).step(), old(backend).abs(), final(backend).abs()),
                final(backend).step() == old(backend).step(),
                final(backend).abs_fut() == old(backend).abs_fut();
}
pub trait BlockModeDecClosure: BlockSizeUser + Sized {
    #[verifier::prophetic]
    spec fn post(&self, step: Step, a0: Abs, a1: Abs) -> bool;
    fn call<B: BlockModeDecBackend<BlockSize = Self::BlockSize>>(self, backend: &mut B)
        ensures self.post(old(backend).step(), old(backend).abs(), final(backend).abs()),
                final(backend).step() == old(backend).step(),
                final(backend).abs_fut() == old(backend).abs_fut();
}
pub trait BlockCipherEncClosure: BlockSizeUser + Sized {
    // what the closure needs from whoever hands it to a cipher (true for the mode crates; the `cts`
    // closures need a well-formed buffer of at least one block, which their length gate establishes)
    spec fn pre_c(&self) -> bool;
    #[verifier::prophetic]
    spec fn post_c(&self, enc: spec_fn(Blk) -> Blk) -> bool;
    fn call<B: BlockCipherEncBackend<BlockSize = Self::BlockSize>>(self, backend: &B)
        requires self.pre_c()
        ensures self.post_c(backend.enc_fn());
}
pub trait BlockCipherDecClosure: BlockSizeUser + Sized {
    spec fn pre_c(&self) -> bool;
    #[verifier::prophetic]
    spec fn post_c(&self, dec: spec_fn(Blk) -> Blk) -> bool;
    fn call<B: BlockCipherDecBackend<BlockSize = Self::BlockSize>>(self, backend: &B)
        requires self.pre_c()
        ensures self.post_c(backend.dec_fn());
}

// ---- D8: a cipher object runs the closure exactly once on a backend computing its fixed function ----
pub trait BlockCipherEncrypt: BlockSizeUser + Sized {
    spec fn enc_fn(&self) -> spec_fn(Blk) -> Blk;
    fn encrypt_with_backend<F: BlockCipherEncClosure<BlockSize = Self::BlockSize>>(&self, f: F)
        requires f.pre_c()
        ensures f.post_c(self.enc_fn());
    fn encrypt_block(&self, block: &mut Block<Self>)
        ensures final(block)@ == self.enc_fn()(old(block)@);
    fn encrypt_block_b2b(&self, in_block: &Block<Self>, out_block: &mut Block<Self>)
        ensures final(out_block)@ == self.enc_fn()(in_block@);
}
pub trait BlockCipherDecrypt: BlockSizeUser + Sized {
    spec fn dec_fn(&self) -> spec_fn(Blk) -> Blk;
    fn decrypt_with_backend<F: BlockCipherDecClosure<BlockSize = Self::BlockSize>>(&self, f: F)
        requires f.pre_c()
        ensures f.post_c(self.dec_fn());
    fn decrypt_block(&self, block: &mut Block<Self>)
        ensures final(block)@ == self.dec_fn()(old(block)@);
    fn decrypt_block_b2b(&self, in_block: &Block<Self>, out_block: &mut Block<Self>)
        ensures final(out_block)@ == self.dec_fn()(in_block@);
}

// ---- the mode objects as seen by the drivers ----
pub trait BlockModeEncrypt: BlockSizeUser + Sized {
    spec fn abs(&self) -> Abs;
    spec fn step(&self) -> Step;
    fn encrypt_with_backend<F: BlockModeEncClosure<BlockSize = Self::BlockSize>>(&mut self, f: F)
        ensures f.post(old(self).step(), old(self).abs(), final(self).abs()),
                final(self).step() == old(self).step();
}
pub trait BlockModeDecrypt: BlockSizeUser + Sized {
    spec fn abs(&self) -> Abs;
    spec fn step(&self) -> Step;
    fn decrypt_with_backend<F: BlockModeDecClosure<BlockSize = Self::BlockSize>>(&mut self, f: F)
        ensures f.post(old(self).step(), old(self).abs(), final(self).abs()),
                final(self).step() == old(self).step();
}
