// ===== shim prelude: crypto-common / cipher block traits (ASSUMED contracts; drivers D1, D2, D7, D8) =====
pub trait BlockSizeUser { type BlockSize: BlockSizes; }
pub trait ParBlocksSizeUser: BlockSizeUser { type ParBlocksSize: ArraySize; }
pub type Block<B> = Array<u8, <B as BlockSizeUser>::BlockSize>;
pub type ParBlocks<B> = Array<Block<B>, <B as ParBlocksSizeUser>::ParBlocksSize>;
pub trait InnerUser { type Inner; }
pub trait IvSizeUser { type IvSize: ArraySize; }
pub type Iv<B> = Array<u8, <B as IvSizeUser>::IvSize>;

// `trait InnerIvInit` is extracted from the pinned crypto-common crate (contracts/dep_common.py): its default
// `inner_iv_slice_init` (IV slice of the wrong length -> Err) is verified text
pub trait IvState: IvSizeUser {
    fn iv_state(&self) -> Iv<Self>;
}

// ---- the block cipher itself: an uninterpreted pair of functions per backend ----
pub trait BlockCipherEncBackend: ParBlocksSizeUser + Sized {
    spec fn enc_fn(&self) -> spec_fn(Blk) -> Blk;

    fn encrypt_block(&self, block: InOut<'_, '_, Block<Self>>)
        ensures block.out_fut()@ == self.enc_fn()(block.in_val()@);

    fn encrypt_par_blocks(&self, blocks: InOut<'_, '_, ParBlocks<Self>>)
        ensures forall |i: int| 0 <= i < Self::ParBlocksSize::USIZE ==>
            (#[trigger] mut_ref_future(blocks.out)@[i])@ == self.enc_fn()(blocks.in_val()@[i]@);

    fn encrypt_block_inplace(&self, block: &mut Block<Self>)
        ensures final(block)@ == self.enc_fn()(old(block)@);

    fn encrypt_par_blocks_inplace(&self, blocks: &mut ParBlocks<Self>)
        ensures forall |i: int| 0 <= i < Self::ParBlocksSize::USIZE ==>
            (#[trigger] final(blocks)@[i])@ == self.enc_fn()(old(blocks)@[i]@);
}

pub trait BlockCipherDecBackend: ParBlocksSizeUser + Sized {
    spec fn dec_fn(&self) -> spec_fn(Blk) -> Blk;

    fn decrypt_block(&self, block: InOut<'_, '_, Block<Self>>)
        ensures block.out_fut()@ == self.dec_fn()(block.in_val()@);

    fn decrypt_par_blocks(&self, blocks: InOut<'_, '_, ParBlocks<Self>>)
        ensures forall |i: int| 0 <= i < Self::ParBlocksSize::USIZE ==>
            (#[trigger] mut_ref_future(blocks.out)@[i])@ == self.dec_fn()(blocks.in_val()@[i]@);

    fn decrypt_block_inplace(&self, block: &mut Block<Self>)
        ensures final(block)@ == self.dec_fn()(old(block)@);

    fn decrypt_par_blocks_inplace(&self, blocks: &mut ParBlocks<Self>)
        ensures forall |i: int| 0 <= i < Self::ParBlocksSize::USIZE ==>
            (#[trigger] final(blocks)@[i])@ == self.dec_fn()(old(blocks)@[i]@);
}

// ---- block-mode backends, rank-2 closures and the BlockMode{Encrypt,Decrypt} traits are NOT declared here:
// they are extracted from the pinned `cipher` crate (contracts/dep_block.py) so that their default methods and
// the BlocksCtx / BlockCtx drivers are verified text, not assumptions (DESIGN 3.2, D1/D2) ----

pub trait BlockCipherEncClosure: BlockSizeUser + Sized {
    // what the closure needs from whoever hands it to a cipher (true for the mode crates; the `cts`
    // closures need a well-formed buffer of at least one block, which their length gate establishes)
    spec fn pre_c(&self) -> bool;
    #[verifier::prophetic]
    spec fn post_c(&self, enc: spec_fn(Blk) -> Blk) -> bool;
    fn call<B: BlockCipherEncBackend<BlockSize = Self::BlockSize>>(self, backend: &B)
        requires self.pre_c()
        ensures self.post_c(backend.enc_fn());
}
pub trait BlockCipherDecClosure: BlockSizeUser + Sized {
    spec fn pre_c(&self) -> bool;
    #[verifier::prophetic]
    spec fn post_c(&self, dec: spec_fn(Blk) -> Blk) -> bool;
    fn call<B: BlockCipherDecBackend<BlockSize = Self::BlockSize>>(self, backend: &B)
        requires self.pre_c()
        ensures self.post_c(backend.dec_fn());
}

// ---- D8: a cipher object runs the closure exactly once on a backend computing its fixed function ----
pub trait BlockCipherEncrypt: BlockSizeUser + Sized {
    spec fn enc_fn(&self) -> spec_fn(Blk) -> Blk;
    fn encrypt_with_backend<F: BlockCipherEncClosure<BlockSize = Self::BlockSize>>(&self, f: F)
        requires f.pre_c()
        ensures f.post_c(self.enc_fn());
    fn encrypt_block(&self, block: &mut Block<Self>)
        ensures final(block)@ == self.enc_fn()(old(block)@);
    fn encrypt_block_b2b(&self, in_block: &Block<Self>, out_block: &mut Block<Self>)
        ensures final(out_block)@ == self.enc_fn()(in_block@);
}
pub trait BlockCipherDecrypt: BlockSizeUser + Sized {
    spec fn dec_fn(&self) -> spec_fn(Blk) -> Blk;
    fn decrypt_with_backend<F: BlockCipherDecClosure<BlockSize = Self::BlockSize>>(&self, f: F)
        requires f.pre_c()
        ensures f.post_c(self.dec_fn());
    fn decrypt_block(&self, block: &mut Block<Self>)
        ensures final(block)@ == self.dec_fn()(old(block)@);
    fn decrypt_block_b2b(&self, in_block: &Block<Self>, out_block: &mut Block<Self>)
        ensures final(out_block)@ == self.dec_fn()(in_block@);
}


// ---- key-based construction.  `KeyInit` is the (block) cipher's own constructor: ASSUMED, with an abstract relation
// `key_init_post(key, r)` = "r is the cipher keyed with `key`".  `KeyIvInit` and its blanket impl for the modes are
// extracted from crypto-common (contracts/dep_common.py).
pub trait KeySizeUser { type KeySize: ArraySize; }
pub type Key<B> = Array<u8, <B as KeySizeUser>::KeySize>;
#[derive(Debug)]
pub struct WeakKeyError;
pub trait KeyInit: KeySizeUser + Sized {
    spec fn key_init_post(key: Key<Self>, r: Self) -> bool;
    fn new(key: &Key<Self>) -> (r: Self)
        ensures Self::key_init_post(*key, r);
    fn weak_key_test(key: &Key<Self>) -> (r: Result<(), WeakKeyError>);
    fn new_from_slice(key: &[u8]) -> (r: Result<Self, InvalidLength>)
        ensures
            r is Ok <==> key@.len() == <Self as KeySizeUser>::KeySize::USIZE,
            r is Ok ==> exists |k: Key<Self>| k@ == key@ && Self::key_init_post(k, r->Ok_0);
}
