// ===== byte-order spec functions and shims for {to,from}_{be,le,ne}_bytes (ASSUMED; D9) =====
// This Verus can neither specify nor assume_specification the std methods (array length in the
// signature), so the extractor renames them token-wise to these shims (DESIGN 3.1).
pub open spec fn pow256(n: nat) -> int decreases n { if n == 0 { 1 } else { 256 * pow256((n - 1) as nat) } }

pub open spec fn le_bytes(x: int, n: nat) -> Seq<u8>
    decreases n
{
    if n == 0 { Seq::empty() } else { seq![(x % 256) as u8] + le_bytes(x / 256, (n - 1) as nat) }
}
pub open spec fn le_val(b: Seq<u8>) -> int
    decreases b.len()
{
    if b.len() == 0 { 0 } else { b[0] as int + 256 * le_val(b.skip(1)) }
}
pub open spec fn be_bytes(x: int, n: nat) -> Seq<u8> { le_bytes(x, n).reverse() }
pub open spec fn be_val(b: Seq<u8>) -> int { le_val(b.reverse()) }
// native endianness: an unspecified bijection between w-bit integers and w/8-byte strings
pub uninterp spec fn ne_bytes(x: int, n: nat) -> Seq<u8>;

pub proof fn le_bytes_len(x: int, n: nat)
    ensures le_bytes(x, n).len() == n
    decreases n
{
    if n > 0 { le_bytes_len(x / 256, (n - 1) as nat); }
}
pub proof fn pow256_pos(n: nat) ensures pow256(n) > 0 decreases n { if n > 0 { pow256_pos((n - 1) as nat); } }

pub proof fn le_val_bound(b: Seq<u8>)
    ensures 0 <= le_val(b) < pow256(b.len())
    decreases b.len()
{
    if b.len() > 0 {
        le_val_bound(b.skip(1));
        pow256_pos((b.len() - 1) as nat);
        assert(b.skip(1).len() == b.len() - 1);
        let v = le_val(b.skip(1)); let p = pow256((b.len() - 1) as nat); let b0 = b[0] as int;
        assert(b0 + 256 * v < 256 * p) by (nonlinear_arith) requires 0 <= b0 < 256, 0 <= v < p;
        assert(b0 + 256 * v >= 0) by (nonlinear_arith) requires 0 <= b0, 0 <= v;
    }
}

// reading back what was written: le_val(le_bytes(x, n)) == x for 0 <= x < 256^n
pub proof fn le_val_of_bytes(x: int, n: nat)
    requires 0 <= x < pow256(n)
    ensures le_val(le_bytes(x, n)) == x
    decreases n
{
    if n > 0 {
        let rest = le_bytes(x / 256, (n - 1) as nat);
        let p = pow256((n - 1) as nat);
        assert(0 <= x / 256 < p) by (nonlinear_arith) requires 0 <= x < 256 * p;
        le_val_of_bytes(x / 256, (n - 1) as nat);
        let s = seq![(x % 256) as u8] + rest;
        assert(s.skip(1) =~= rest);
        assert(s[0] == (x % 256) as u8);
        assert(0 <= x % 256 < 256);
        assert(x == (x % 256) + 256 * (x / 256)) by (nonlinear_arith) requires x >= 0;
    }
}

// writing what was read: le_bytes(le_val(b), |b|) == b
pub proof fn le_bytes_of_val(b: Seq<u8>)
    ensures le_bytes(le_val(b), b.len()) == b
    decreases b.len()
{
    if b.len() > 0 {
        let v = le_val(b.skip(1));
        le_bytes_of_val(b.skip(1));
        le_val_bound(b.skip(1));
        let b0 = b[0] as int;
        let x = b0 + 256 * v;
        assert(x % 256 == b0 && x / 256 == v) by (nonlinear_arith) requires x == b0 + 256 * v, 0 <= b0 < 256, v >= 0;
        assert(b.skip(1).len() == b.len() - 1);
        assert(seq![(x % 256) as u8] + le_bytes(x / 256, (b.len() - 1) as nat) =~= b);
    } else {
        assert(le_bytes(le_val(b), 0) =~= b);
    }
}

pub proof fn be_val_of_bytes(x: int, n: nat)
    requires 0 <= x < pow256(n)
    ensures be_val(be_bytes(x, n)) == x
{
    le_val_of_bytes(x, n);
    assert(le_bytes(x, n).reverse().reverse() =~= le_bytes(x, n));
}
pub proof fn be_bytes_of_val(b: Seq<u8>)
    ensures be_bytes(be_val(b), b.len()) == b
{
    le_bytes_of_val(b.reverse());
    assert(b.reverse().reverse() =~= b);
    assert(b.reverse().len() == b.len());
}
pub proof fn be_bytes_len(x: int, n: nat) ensures be_bytes(x, n).len() == n { le_bytes_len(x, n); }
#[verifier::external_body]
pub proof fn ne_bytes_len(x: int, n: nat) ensures ne_bytes(x, n).len() == n {}

pub proof fn pow256_values()
    ensures pow256(4) == 0x1_0000_0000, pow256(8) == 0x1_0000_0000_0000_0000, pow256(16) == u128::MAX as int + 1
{
    reveal_with_fuel(pow256, 17);
    assert(pow256(4) == 0x1_0000_0000) by (compute);
    assert(pow256(8) == 0x1_0000_0000_0000_0000) by (compute);
    assert(pow256(16) == 0x1_0000_0000_0000_0000int * 0x1_0000_0000_0000_0000int) by (compute);
    assert(0x1_0000_0000_0000_0000int * 0x1_0000_0000_0000_0000int == u128::MAX as int + 1) by (compute);
}

// modular arithmetic of wrapping counters
pub proof fn mod_sub_wrap(a: int, b: int, m: int)
    requires 0 <= a < m, 0 <= b < m
    ensures (a - b) % m == if a >= b { a - b } else { a - b + m }
{
    if a >= b { vstd::arithmetic::div_mod::lemma_small_mod((a - b) as nat, m as nat); }
    else {
        vstd::arithmetic::div_mod::lemma_mod_add_multiples_vanish(a - b, m);
        vstd::arithmetic::div_mod::lemma_small_mod((a - b + m) as nat, m as nat);
    }
}
pub proof fn mod_add_wrap(a: int, b: int, m: int)
    requires 0 <= a < m, 0 <= b < m
    ensures (a + b) % m == if a + b < m { a + b } else { a + b - m }
{
    if a + b < m { vstd::arithmetic::div_mod::lemma_small_mod((a + b) as nat, m as nat); }
    else {
        vstd::arithmetic::div_mod::lemma_mod_sub_multiples_vanish(a + b, m);
        vstd::arithmetic::div_mod::lemma_small_mod((a + b - m) as nat, m as nat);
    }
}
// ((a + i) % m + 1) % m == (a + i + 1) % m
pub proof fn mod_succ(x: int, m: int)
    requires m > 0, x >= 0
    ensures (x % m + 1) % m == (x + 1) % m
{
    vstd::arithmetic::div_mod::lemma_add_mod_noop(x, 1, m);
    vstd::arithmetic::div_mod::lemma_mod_twice(x, m);
    vstd::arithmetic::div_mod::lemma_add_mod_noop(x % m, 1, m);
}

pub trait ShimBytes<const N: usize>: Sized {
    spec fn ival(self) -> int;
    fn shim_to_be_bytes(self) -> (r: [u8; N]) ensures r@ == be_bytes(self.ival(), N as nat);
    fn shim_to_le_bytes(self) -> (r: [u8; N]) ensures r@ == le_bytes(self.ival(), N as nat);
    fn shim_to_ne_bytes(self) -> (r: [u8; N]) ensures r@ == ne_bytes(self.ival(), N as nat);
    fn shim_from_be_bytes(b: [u8; N]) -> (r: Self) ensures r.ival() == be_val(b@);
    fn shim_from_le_bytes(b: [u8; N]) -> (r: Self) ensures r.ival() == le_val(b@);
    // every byte string is the native encoding of exactly one integer
    fn shim_from_ne_bytes(b: [u8; N]) -> (r: Self) ensures ne_bytes(r.ival(), N as nat) == b@;
}
impl ShimBytes<4> for u32 {
    open spec fn ival(self) -> int { self as int }
    #[verifier::external_body] fn shim_to_be_bytes(self) -> (r: [u8; 4]) { self.to_be_bytes() }
    #[verifier::external_body] fn shim_to_le_bytes(self) -> (r: [u8; 4]) { self.to_le_bytes() }
    #[verifier::external_body] fn shim_to_ne_bytes(self) -> (r: [u8; 4]) { self.to_ne_bytes() }
    #[verifier::external_body] fn shim_from_be_bytes(b: [u8; 4]) -> (r: Self) { u32::from_be_bytes(b) }
    #[verifier::external_body] fn shim_from_le_bytes(b: [u8; 4]) -> (r: Self) { u32::from_le_bytes(b) }
    #[verifier::external_body] fn shim_from_ne_bytes(b: [u8; 4]) -> (r: Self) { u32::from_ne_bytes(b) }
}
impl ShimBytes<8> for u64 {
    open spec fn ival(self) -> int { self as int }
    #[verifier::external_body] fn shim_to_be_bytes(self) -> (r: [u8; 8]) { self.to_be_bytes() }
    #[verifier::external_body] fn shim_to_le_bytes(self) -> (r: [u8; 8]) { self.to_le_bytes() }
    #[verifier::external_body] fn shim_to_ne_bytes(self) -> (r: [u8; 8]) { self.to_ne_bytes() }
    #[verifier::external_body] fn shim_from_be_bytes(b: [u8; 8]) -> (r: Self) { u64::from_be_bytes(b) }
    #[verifier::external_body] fn shim_from_le_bytes(b: [u8; 8]) -> (r: Self) { u64::from_le_bytes(b) }
    #[verifier::external_body] fn shim_from_ne_bytes(b: [u8; 8]) -> (r: Self) { u64::from_ne_bytes(b) }
}
impl ShimBytes<16> for u128 {
    open spec fn ival(self) -> int { self as int }
    #[verifier::external_body] fn shim_to_be_bytes(self) -> (r: [u8; 16]) { self.to_be_bytes() }
    #[verifier::external_body] fn shim_to_le_bytes(self) -> (r: [u8; 16]) { self.to_le_bytes() }
    #[verifier::external_body] fn shim_to_ne_bytes(self) -> (r: [u8; 16]) { self.to_ne_bytes() }
    #[verifier::external_body] fn shim_from_be_bytes(b: [u8; 16]) -> (r: Self) { u128::from_be_bytes(b) }
    #[verifier::external_body] fn shim_from_le_bytes(b: [u8; 16]) -> (r: Self) { u128::from_le_bytes(b) }
    #[verifier::external_body] fn shim_from_ne_bytes(b: [u8; 16]) -> (r: Self) { u128::from_ne_bytes(b) }
}

// typenum constants used by the counter modes
pub struct U4;
impl Unsigned for U4 { #[verifier::external_body] const USIZE: usize = 4; #[verifier::external_body] const U8: u8 = 4; }
impl ArraySize for U4 {}
#[verifier::external_body]
pub broadcast proof fn axiom_u4() ensures #[trigger] U4::USIZE == 4 {}
pub struct U8;
impl Unsigned for U8 { #[verifier::external_body] const USIZE: usize = 8; #[verifier::external_body] const U8: u8 = 8; }
impl ArraySize for U8 {}
#[verifier::external_body]
pub broadcast proof fn axiom_u8() ensures #[trigger] U8::USIZE == 8 {}
pub struct U16;
impl Unsigned for U16 { #[verifier::external_body] const USIZE: usize = 16; #[verifier::external_body] const U8: u8 = 16; }
impl ArraySize for U16 {}
#[verifier::external_body]
pub broadcast proof fn axiom_u16() ensures #[trigger] U16::USIZE == 16 {}
#[verifier::external_body]
pub broadcast proof fn axiom_u16_u8() ensures #[trigger] U16::U8 == 16 {}
impl BlockSizes for U16 { proof fn block_size_bounds() { broadcast use axiom_u16, axiom_u16_u8; } }

// hybrid-array conversions between core arrays and Array
impl From<[u8; 16]> for Array<u8, U16> {
    #[verifier::external_body]
    fn from(x: [u8; 16]) -> (r: Self) ensures r@ == x@ { unimplemented!() }
}
impl From<Array<u8, U16>> for [u8; 16] {
    #[verifier::external_body]
    fn from(x: Array<u8, U16>) -> (r: Self) ensures r@ == x@ { unimplemented!() }
}

// belt-block's cipher type is only named as the default type argument of BeltCtrCore / BeltCtr
pub struct BeltBlock;
impl BlockSizeUser for BeltBlock { type BlockSize = U16; }
impl BlockCipherEncrypt for BeltBlock {
    uninterp spec fn enc_fn(&self) -> spec_fn(Blk) -> Blk;
    #[verifier::external_body]
    fn encrypt_with_backend<F: BlockCipherEncClosure<BlockSize = Self::BlockSize>>(&self, f: F) { unimplemented!() }
    #[verifier::external_body]
    fn encrypt_block(&self, block: &mut Block<Self>) { unimplemented!() }
    #[verifier::external_body]
    fn encrypt_block_b2b(&self, in_block: &Block<Self>, out_block: &mut Block<Self>) { unimplemented!() }
}

// typenum exact division (B: PartialDiv<ChunkSize>): the quotient times the divisor is the dividend
pub trait PartialDiv<Rhs: Unsigned>: Unsigned {
    type Output: ArraySize;
    proof fn partial_div_exact() ensures Self::Output::USIZE * Rhs::USIZE == Self::USIZE;
}
pub type PartialQuot<A, B> = <A as PartialDiv<B>>::Output;

