// ===== shim prelude: cipher stream-core traits (ASSUMED contracts; drivers D3, D4) =====
// abstract state of a keystream generator: `base` (what the keystream is derived from) and the block
// position `pos` (0 for generators without a position, i.e. OFB)
pub struct KAbs { pub base: Seq<u8>, pub pos: int }
pub type KStep = spec_fn(KAbs) -> (KAbs, Blk);

pub open spec fn ks_run(k: KStep, s: KAbs, n: nat) -> (KAbs, Seq<Blk>)
    decreases n
{
    if n == 0 { (s, Seq::empty()) } else {
        let (s1, y) = k(s);
        let (s2, ys) = ks_run(k, s1, (n - 1) as nat);
        (s2, seq![y] + ys)
    }
}

pub proof fn ks_run_len(k: KStep, s: KAbs, n: nat)
    ensures ks_run(k, s, n).1.len() == n
    decreases n
{
    if n > 0 { ks_run_len(k, k(s).0, (n - 1) as nat); }
}

pub proof fn ks_run_concat(k: KStep, s: KAbs, m: nat, n: nat)
    ensures ks_run(k, s, m + n) == ({ let (s1, ya) = ks_run(k, s, m); let (s2, yb) = ks_run(k, s1, n); (s2, ya + yb) })
    decreases m
{
    if m == 0 {
        assert(Seq::<Blk>::empty() + ks_run(k, s, n).1 =~= ks_run(k, s, n).1);
    } else {
        let (s1, y) = k(s);
        ks_run_concat(k, s1, (m - 1) as nat, n);
        let (sa, ya) = ks_run(k, s1, (m - 1) as nat);
        let (sb, yb) = ks_run(k, sa, n);
        assert(seq![y] + (ya + yb) =~= (seq![y] + ya) + yb);
        assert(((m + n) - 1) as nat == (m - 1) as nat + n);
    }
}

pub proof fn ks_run_by_states(k: KStep, s: KAbs, n: nat, states: spec_fn(int) -> KAbs, ys: Seq<Blk>)
    requires
        ys.len() == n,
        states(0) == s,
        forall |i: int| 0 <= i < n ==> #[trigger] k(states(i)) == (states(i + 1), ys[i]),
    ensures ks_run(k, s, n) == (states(n as int), ys)
    decreases n
{
    if n == 0 {
        assert(ys =~= Seq::<Blk>::empty());
    } else {
        let st2 = |i: int| states(i + 1);
        assert(k(states(0)) == (states(1), ys[0]));
        assert forall |i: int| 0 <= i < n - 1 implies #[trigger] k(st2(i)) == (st2(i + 1), ys.skip(1)[i]) by {
            assert(k(states(i + 1)) == (states(i + 2), ys[i + 1]));
        }
        ks_run_by_states(k, states(1), (n - 1) as nat, st2, ys.skip(1));
        assert(seq![ys[0]] + ys.skip(1) =~= ys);
    }
}

// a1 is reached from a0 by whole steps of the generator (what a closure can do to a backend, and a core to itself)
pub open spec fn ks_reach(k: KStep, a0: KAbs, a1: KAbs) -> bool { exists |n: nat| a1 == #[trigger] ks_run(k, a0, n).0 }

pub proof fn ks_reach_run(k: KStep, a0: KAbs, n: nat)
    ensures ks_reach(k, a0, ks_run(k, a0, n).0)
{}

pub proof fn ks_reach_one(k: KStep, a0: KAbs)
    ensures ks_reach(k, a0, k(a0).0)
{
    reveal_with_fuel(ks_run, 2);
    assert(ks_run(k, a0, 1).0 == k(a0).0);
}

// StreamCipherBackend / StreamCipherClosure / StreamCipherCore are extracted from the pinned `cipher` crate
// (contracts/dep_stream.py): their default methods and the Apply*/Write* drivers are verified text (D3).

pub trait StreamCipherCounter: Sized {
    spec fn cval(c: Self) -> int;
    spec fn cfits(v: int) -> bool;
}
impl StreamCipherCounter for u32 { open spec fn cval(c: u32) -> int { c as int } open spec fn cfits(v: int) -> bool { 0 <= v <= u32::MAX } }
impl StreamCipherCounter for u64 { open spec fn cval(c: u64) -> int { c as int } open spec fn cfits(v: int) -> bool { 0 <= v <= u64::MAX } }
impl StreamCipherCounter for u128 { open spec fn cval(c: u128) -> int { c as int } open spec fn cfits(v: int) -> bool { 0 <= v <= u128::MAX } }

pub trait StreamCipherSeekCore: StreamCipherCore {
    type Counter: StreamCipherCounter;
    spec fn counter_val(c: Self::Counter) -> int;
    proof fn lemma_counter_val(c: Self::Counter)
        ensures Self::counter_val(c) == <Self::Counter as StreamCipherCounter>::cval(c),
                0 <= Self::counter_val(c) < Self::pos_modulus();
    // the current block position and the counter modulus; the generator state at block position 0 is
    // StreamCipherCore::korigin()
    spec fn block_pos(&self) -> int;
    spec fn pos_modulus() -> int;
    // coherence of position and keystream (C10): the current state is the origin advanced by block_pos
    proof fn lemma_pos_coherent(&self)
        ensures self.kabs().base == self.korigin().base,
                self.kabs().pos == (self.korigin().pos + self.block_pos()) % Self::pos_modulus(),
                0 <= self.korigin().pos < Self::pos_modulus(),
                0 <= self.block_pos() < Self::pos_modulus();
    // one keystream block advances the position by one (mod the counter modulus) and keeps the base
    proof fn lemma_step_law(&self)
        ensures forall |a: KAbs| (#[trigger] self.kstep()(a)).0 == (KAbs { base: a.base, pos: (a.pos + 1) % Self::pos_modulus() });

    fn get_block_pos(&self) -> (r: Self::Counter)
        ensures Self::counter_val(r) == self.block_pos();

    fn set_block_pos(&mut self, pos: Self::Counter)
        ensures
            final(self).korigin() == old(self).korigin(),
            final(self).block_pos() == Self::counter_val(pos),
            final(self).kstep() == old(self).kstep();
}
