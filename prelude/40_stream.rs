// ===== shim prelude: cipher stream-core traits (ASSUMED contracts; drivers D3, D4) =====
// abstract state of a keystream generator: `base` (what the keystream is derived from) and the block
// position `pos` (0 for generators without a position, i.e. OFB)
pub struct KAbs { pub base: Seq<u8>, pub pos: int }
pub type KStep = spec_fn(KAbs) -> (KAbs, Blk);

pub open spec fn ks_run(k: KStep, s: KAbs, n: nat) -> (KAbs, Seq<Blk>)
    decreases n
{
    if n == 0 { (s, Seq::empty()) } else {
        let (s1, y) = k(s);
        let (s2, ys) = ks_run(k, s1, (n - 1) as nat);
        (s2, seq![y] + ys)
    }
}

pub proof fn ks_run_len(k: KStep, s: KAbs, n: nat)
    ensures ks_run(k, s, n).1.len() == n
    decreases n
{
    if n > 0 { ks_run_len(k, k(s).0, (n - 1) as nat); }
}

pub proof fn ks_run_concat(k: KStep, s: KAbs, m: nat, n: nat)
    ensures ks_run(k, s, m + n) == ({ let (s1, ya) = ks_run(k, s, m); let (s2, yb) = ks_run(k, s1, n); (s2, ya + yb) })
    decreases m
{
    if m == 0 {
        assert(Seq::<Blk>::empty() + ks_run(k, s, n).1 =~= ks_run(k, s, n).1);
    } else {
        let (s1, y) = k(s);
        ks_run_concat(k, s1, (m - 1) as nat, n);
        let (sa, ya) = ks_run(k, s1, (m - 1) as nat);
        let (sb, yb) = ks_run(k, sa, n);
        assert(seq![y] + (ya + yb) =~= (seq![y] + ya) + yb);
        assert(((m + n) - 1) as nat == (m - 1) as nat + n);
    }
}

pub proof fn ks_run_by_states(k: KStep, s: KAbs, n: nat, states: spec_fn(int) -> KAbs, ys: Seq<Blk>)
    requires
        ys.len() == n,
        states(0) == s,
        forall |i: int| 0 <= i < n ==> #[trigger] k(states(i)) == (states(i + 1), ys[i]),
    ensures ks_run(k, s, n) == (states(n as int), ys)
    decreases n
{
    if n == 0 {
        assert(ys =~= Seq::<Blk>::empty());
    } else {
        let st2 = |i: int| states(i + 1);
        assert(k(states(0)) == (states(1), ys[0]));
        assert forall |i: int| 0 <= i < n - 1 implies #[trigger] k(st2(i)) == (st2(i + 1), ys.skip(1)[i]) by {
            assert(k(states(i + 1)) == (states(i + 2), ys[i + 1]));
        }
        ks_run_by_states(k, states(1), (n - 1) as nat, st2, ys.skip(1));
        assert(seq![ys[0]] + ys.skip(1) =~= ys);
    }
}

// a1 is reached from a0 by whole steps of the generator (what a closure can do to a backend, and a core to itself)
pub open spec fn ks_reach(k: KStep, a0: KAbs, a1: KAbs) -> bool { exists |n: nat| a1 == #[trigger] ks_run(k, a0, n).0 }

pub proof fn ks_reach_run(k: KStep, a0: KAbs, n: nat)
    ensures ks_reach(k, a0, ks_run(k, a0, n).0)
{}

pub proof fn ks_reach_one(k: KStep, a0: KAbs)
    ensures ks_reach(k, a0, k(a0).0)
{
    reveal_with_fuel(ks_run, 2);
    assert(ks_run(k, a0, 1).0 == k(a0).0);
}

// StreamCipherBackend / StreamCipherClosure / StreamCipherCore are extracted from the pinned `cipher` crate
// (contracts/dep_stream.py): their default methods and the Apply*/Write* drivers are verified text (D3).

// The dependency declares `StreamCipherCounter: TryFrom<i32> + .. + TryInto<usize>` and implements it (by macro) for
// u32, u64, u128.  The std integer conversions are ASSUMED with their mathematical meaning (Ok iff the value fits the
// target type, value preserved); `try_into` / `try_from` are renamed token-wise to the shim traits of 05_ranges.rs.
pub trait StreamCipherCounter: Sized + ShimTryInto<i32> + ShimTryFrom<i32> + ShimTryInto<u32> + ShimTryFrom<u32> + ShimTryInto<u64> + ShimTryFrom<u64> + ShimTryInto<u128> + ShimTryFrom<u128> + ShimTryInto<usize> + ShimTryFrom<usize> {
    spec fn cval(c: Self) -> int;
    spec fn cfits(v: int) -> bool;
    proof fn conv_laws()
        ensures
            forall |c: Self| #[trigger] Self::cval(c) >= 0,
            forall |c: Self| #[trigger] <Self as ShimTryInto<i32>>::conv_ok(c) <==> i32::MIN <= Self::cval(c) <= i32::MAX,
            forall |c: Self, u: i32| #[trigger] <Self as ShimTryInto<i32>>::conv_eq(c, u) <==> Self::cval(c) == u as int,
            forall |u: i32| #[trigger] <Self as ShimTryFrom<i32>>::from_ok(u) <==> Self::cfits(u as int),
            forall |c: Self, u: i32| #[trigger] <Self as ShimTryFrom<i32>>::from_eq(u, c) <==> Self::cval(c) == u as int,
            forall |c: Self| #[trigger] <Self as ShimTryInto<u32>>::conv_ok(c) <==> u32::MIN <= Self::cval(c) <= u32::MAX,
            forall |c: Self, u: u32| #[trigger] <Self as ShimTryInto<u32>>::conv_eq(c, u) <==> Self::cval(c) == u as int,
            forall |u: u32| #[trigger] <Self as ShimTryFrom<u32>>::from_ok(u) <==> Self::cfits(u as int),
            forall |c: Self, u: u32| #[trigger] <Self as ShimTryFrom<u32>>::from_eq(u, c) <==> Self::cval(c) == u as int,
            forall |c: Self| #[trigger] <Self as ShimTryInto<u64>>::conv_ok(c) <==> u64::MIN <= Self::cval(c) <= u64::MAX,
            forall |c: Self, u: u64| #[trigger] <Self as ShimTryInto<u64>>::conv_eq(c, u) <==> Self::cval(c) == u as int,
            forall |u: u64| #[trigger] <Self as ShimTryFrom<u64>>::from_ok(u) <==> Self::cfits(u as int),
            forall |c: Self, u: u64| #[trigger] <Self as ShimTryFrom<u64>>::from_eq(u, c) <==> Self::cval(c) == u as int,
            forall |c: Self| #[trigger] <Self as ShimTryInto<u128>>::conv_ok(c) <==> u128::MIN <= Self::cval(c) <= u128::MAX,
            forall |c: Self, u: u128| #[trigger] <Self as ShimTryInto<u128>>::conv_eq(c, u) <==> Self::cval(c) == u as int,
            forall |u: u128| #[trigger] <Self as ShimTryFrom<u128>>::from_ok(u) <==> Self::cfits(u as int),
            forall |c: Self, u: u128| #[trigger] <Self as ShimTryFrom<u128>>::from_eq(u, c) <==> Self::cval(c) == u as int,
            forall |c: Self| #[trigger] <Self as ShimTryInto<usize>>::conv_ok(c) <==> usize::MIN <= Self::cval(c) <= usize::MAX,
            forall |c: Self, u: usize| #[trigger] <Self as ShimTryInto<usize>>::conv_eq(c, u) <==> Self::cval(c) == u as int,
            forall |u: usize| #[trigger] <Self as ShimTryFrom<usize>>::from_ok(u) <==> Self::cfits(u as int),
            forall |c: Self, u: usize| #[trigger] <Self as ShimTryFrom<usize>>::from_eq(u, c) <==> Self::cval(c) == u as int
    ;
}
impl StreamCipherCounter for u32 { open spec fn cval(c: u32) -> int { c as int } open spec fn cfits(v: int) -> bool { 0 <= v <= u32::MAX } proof fn conv_laws() {} }
impl ShimTryInto<i32> for u32 {
    type Error = TryFromIntError;
    #[verifier::external_body]
    fn shim_try_into(self) -> (r: Result<i32, TryFromIntError>) { unimplemented!() }
    open spec fn conv_ok(self) -> bool { i32::MIN <= self as int <= i32::MAX }
    open spec fn conv_eq(self, u: i32) -> bool { u as int == self as int }
}
impl ShimTryFrom<i32> for u32 {
    type Error = TryFromIntError;
    #[verifier::external_body]
    fn shim_try_from(s: i32) -> (r: Result<u32, TryFromIntError>) { unimplemented!() }
    open spec fn from_ok(s: i32) -> bool { 0 <= s as int <= u32::MAX }
    open spec fn from_eq(s: i32, u: u32) -> bool { u as int == s as int }
}
impl ShimTryInto<u32> for u32 {
    type Error = TryFromIntError;
    #[verifier::external_body]
    fn shim_try_into(self) -> (r: Result<u32, TryFromIntError>) { unimplemented!() }
    open spec fn conv_ok(self) -> bool { u32::MIN <= self as int <= u32::MAX }
    open spec fn conv_eq(self, u: u32) -> bool { u as int == self as int }
}
impl ShimTryFrom<u32> for u32 {
    type Error = TryFromIntError;
    #[verifier::external_body]
    fn shim_try_from(s: u32) -> (r: Result<u32, TryFromIntError>) { unimplemented!() }
    open spec fn from_ok(s: u32) -> bool { 0 <= s as int <= u32::MAX }
    open spec fn from_eq(s: u32, u: u32) -> bool { u as int == s as int }
}
impl ShimTryInto<u64> for u32 {
    type Error = TryFromIntError;
    #[verifier::external_body]
    fn shim_try_into(self) -> (r: Result<u64, TryFromIntError>) { unimplemented!() }
    open spec fn conv_ok(self) -> bool { u64::MIN <= self as int <= u64::MAX }
    open spec fn conv_eq(self, u: u64) -> bool { u as int == self as int }
}
impl ShimTryFrom<u64> for u32 {
    type Error = TryFromIntError;
    #[verifier::external_body]
    fn shim_try_from(s: u64) -> (r: Result<u32, TryFromIntError>) { unimplemented!() }
    open spec fn from_ok(s: u64) -> bool { 0 <= s as int <= u32::MAX }
    open spec fn from_eq(s: u64, u: u32) -> bool { u as int == s as int }
}
impl ShimTryInto<u128> for u32 {
    type Error = TryFromIntError;
    #[verifier::external_body]
    fn shim_try_into(self) -> (r: Result<u128, TryFromIntError>) { unimplemented!() }
    open spec fn conv_ok(self) -> bool { u128::MIN <= self as int <= u128::MAX }
    open spec fn conv_eq(self, u: u128) -> bool { u as int == self as int }
}
impl ShimTryFrom<u128> for u32 {
    type Error = TryFromIntError;
    #[verifier::external_body]
    fn shim_try_from(s: u128) -> (r: Result<u32, TryFromIntError>) { unimplemented!() }
    open spec fn from_ok(s: u128) -> bool { 0 <= s as int <= u32::MAX }
    open spec fn from_eq(s: u128, u: u32) -> bool { u as int == s as int }
}
impl ShimTryFrom<usize> for u32 {
    type Error = TryFromIntError;
    #[verifier::external_body]
    fn shim_try_from(s: usize) -> (r: Result<u32, TryFromIntError>) { unimplemented!() }
    open spec fn from_ok(s: usize) -> bool { 0 <= s as int <= u32::MAX }
    open spec fn from_eq(s: usize, u: u32) -> bool { u as int == s as int }
}
impl StreamCipherCounter for u64 { open spec fn cval(c: u64) -> int { c as int } open spec fn cfits(v: int) -> bool { 0 <= v <= u64::MAX } proof fn conv_laws() {} }
impl ShimTryInto<i32> for u64 {
    type Error = TryFromIntError;
    #[verifier::external_body]
    fn shim_try_into(self) -> (r: Result<i32, TryFromIntError>) { unimplemented!() }
    open spec fn conv_ok(self) -> bool { i32::MIN <= self as int <= i32::MAX }
    open spec fn conv_eq(self, u: i32) -> bool { u as int == self as int }
}
impl ShimTryFrom<i32> for u64 {
    type Error = TryFromIntError;
    #[verifier::external_body]
    fn shim_try_from(s: i32) -> (r: Result<u64, TryFromIntError>) { unimplemented!() }
    open spec fn from_ok(s: i32) -> bool { 0 <= s as int <= u64::MAX }
    open spec fn from_eq(s: i32, u: u64) -> bool { u as int == s as int }
}
impl ShimTryInto<u32> for u64 {
    type Error = TryFromIntError;
    #[verifier::external_body]
    fn shim_try_into(self) -> (r: Result<u32, TryFromIntError>) { unimplemented!() }
    open spec fn conv_ok(self) -> bool { u32::MIN <= self as int <= u32::MAX }
    open spec fn conv_eq(self, u: u32) -> bool { u as int == self as int }
}
impl ShimTryFrom<u32> for u64 {
    type Error = TryFromIntError;
    #[verifier::external_body]
    fn shim_try_from(s: u32) -> (r: Result<u64, TryFromIntError>) { unimplemented!() }
    open spec fn from_ok(s: u32) -> bool { 0 <= s as int <= u64::MAX }
    open spec fn from_eq(s: u32, u: u64) -> bool { u as int == s as int }
}
impl ShimTryInto<u64> for u64 {
    type Error = TryFromIntError;
    #[verifier::external_body]
    fn shim_try_into(self) -> (r: Result<u64, TryFromIntError>) { unimplemented!() }
    open spec fn conv_ok(self) -> bool { u64::MIN <= self as int <= u64::MAX }
    open spec fn conv_eq(self, u: u64) -> bool { u as int == self as int }
}
impl ShimTryFrom<u64> for u64 {
    type Error = TryFromIntError;
    #[verifier::external_body]
    fn shim_try_from(s: u64) -> (r: Result<u64, TryFromIntError>) { unimplemented!() }
    open spec fn from_ok(s: u64) -> bool { 0 <= s as int <= u64::MAX }
    open spec fn from_eq(s: u64, u: u64) -> bool { u as int == s as int }
}
impl ShimTryInto<u128> for u64 {
    type Error = TryFromIntError;
    #[verifier::external_body]
    fn shim_try_into(self) -> (r: Result<u128, TryFromIntError>) { unimplemented!() }
    open spec fn conv_ok(self) -> bool { u128::MIN <= self as int <= u128::MAX }
    open spec fn conv_eq(self, u: u128) -> bool { u as int == self as int }
}
impl ShimTryFrom<u128> for u64 {
    type Error = TryFromIntError;
    #[verifier::external_body]
    fn shim_try_from(s: u128) -> (r: Result<u64, TryFromIntError>) { unimplemented!() }
    open spec fn from_ok(s: u128) -> bool { 0 <= s as int <= u64::MAX }
    open spec fn from_eq(s: u128, u: u64) -> bool { u as int == s as int }
}
impl ShimTryFrom<usize> for u64 {
    type Error = TryFromIntError;
    #[verifier::external_body]
    fn shim_try_from(s: usize) -> (r: Result<u64, TryFromIntError>) { unimplemented!() }
    open spec fn from_ok(s: usize) -> bool { 0 <= s as int <= u64::MAX }
    open spec fn from_eq(s: usize, u: u64) -> bool { u as int == s as int }
}
impl StreamCipherCounter for u128 { open spec fn cval(c: u128) -> int { c as int } open spec fn cfits(v: int) -> bool { 0 <= v <= u128::MAX } proof fn conv_laws() {} }
impl ShimTryInto<i32> for u128 {
    type Error = TryFromIntError;
    #[verifier::external_body]
    fn shim_try_into(self) -> (r: Result<i32, TryFromIntError>) { unimplemented!() }
    open spec fn conv_ok(self) -> bool { i32::MIN <= self as int <= i32::MAX }
    open spec fn conv_eq(self, u: i32) -> bool { u as int == self as int }
}
impl ShimTryFrom<i32> for u128 {
    type Error = TryFromIntError;
    #[verifier::external_body]
    fn shim_try_from(s: i32) -> (r: Result<u128, TryFromIntError>) { unimplemented!() }
    open spec fn from_ok(s: i32) -> bool { 0 <= s as int <= u128::MAX }
    open spec fn from_eq(s: i32, u: u128) -> bool { u as int == s as int }
}
impl ShimTryInto<u32> for u128 {
    type Error = TryFromIntError;
    #[verifier::external_body]
    fn shim_try_into(self) -> (r: Result<u32, TryFromIntError>) { unimplemented!() }
    open spec fn conv_ok(self) -> bool { u32::MIN <= self as int <= u32::MAX }
    open spec fn conv_eq(self, u: u32) -> bool { u as int == self as int }
}
impl ShimTryFrom<u32> for u128 {
    type Error = TryFromIntError;
    #[verifier::external_body]
    fn shim_try_from(s: u32) -> (r: Result<u128, TryFromIntError>) { unimplemented!() }
    open spec fn from_ok(s: u32) -> bool { 0 <= s as int <= u128::MAX }
    open spec fn from_eq(s: u32, u: u128) -> bool { u as int == s as int }
}
impl ShimTryInto<u64> for u128 {
    type Error = TryFromIntError;
    #[verifier::external_body]
    fn shim_try_into(self) -> (r: Result<u64, TryFromIntError>) { unimplemented!() }
    open spec fn conv_ok(self) -> bool { u64::MIN <= self as int <= u64::MAX }
    open spec fn conv_eq(self, u: u64) -> bool { u as int == self as int }
}
impl ShimTryFrom<u64> for u128 {
    type Error = TryFromIntError;
    #[verifier::external_body]
    fn shim_try_from(s: u64) -> (r: Result<u128, TryFromIntError>) { unimplemented!() }
    open spec fn from_ok(s: u64) -> bool { 0 <= s as int <= u128::MAX }
    open spec fn from_eq(s: u64, u: u128) -> bool { u as int == s as int }
}
impl ShimTryInto<u128> for u128 {
    type Error = TryFromIntError;
    #[verifier::external_body]
    fn shim_try_into(self) -> (r: Result<u128, TryFromIntError>) { unimplemented!() }
    open spec fn conv_ok(self) -> bool { u128::MIN <= self as int <= u128::MAX }
    open spec fn conv_eq(self, u: u128) -> bool { u as int == self as int }
}
impl ShimTryFrom<u128> for u128 {
    type Error = TryFromIntError;
    #[verifier::external_body]
    fn shim_try_from(s: u128) -> (r: Result<u128, TryFromIntError>) { unimplemented!() }
    open spec fn from_ok(s: u128) -> bool { 0 <= s as int <= u128::MAX }
    open spec fn from_eq(s: u128, u: u128) -> bool { u as int == s as int }
}
impl ShimTryFrom<usize> for u128 {
    type Error = TryFromIntError;
    #[verifier::external_body]
    fn shim_try_from(s: usize) -> (r: Result<u128, TryFromIntError>) { unimplemented!() }
    open spec fn from_ok(s: usize) -> bool { 0 <= s as int <= u128::MAX }
    open spec fn from_eq(s: usize, u: u128) -> bool { u as int == s as int }
}

pub trait StreamCipherSeekCore: StreamCipherCore {
    type Counter: StreamCipherCounter;
    spec fn counter_val(c: Self::Counter) -> int;
    proof fn lemma_counter_val(c: Self::Counter)
        ensures Self::counter_val(c) == <Self::Counter as StreamCipherCounter>::cval(c),
                0 <= Self::counter_val(c) < Self::pos_modulus();
    // the current block position and the counter modulus; the generator state at block position 0 is
    // StreamCipherCore::korigin()
    spec fn block_pos(&self) -> int;
    spec fn pos_modulus() -> int;
    // coherence of position and keystream (C10): the current state is the origin advanced by block_pos
    proof fn lemma_pos_coherent(&self)
        ensures self.kabs().base == self.korigin().base,
                self.kabs().pos == (self.korigin().pos + self.block_pos()) % Self::pos_modulus(),
                0 <= self.korigin().pos < Self::pos_modulus(),
                0 <= self.block_pos() < Self::pos_modulus();
    // one keystream block advances the position by one (mod the counter modulus) and keeps the base
    proof fn lemma_step_law(&self)
        ensures forall |a: KAbs| (#[trigger] self.kstep()(a)).0 == (KAbs { base: a.base, pos: (a.pos + 1) % Self::pos_modulus() });

    fn get_block_pos(&self) -> (r: Self::Counter)
        ensures Self::counter_val(r) == self.block_pos();

    fn set_block_pos(&mut self, pos: Self::Counter)
        ensures
            final(self).korigin() == old(self).korigin(),
            final(self).block_pos() == Self::counter_val(pos),
            final(self).kstep() == old(self).kstep();
}
