//! Ciphertext stealing (C05/C13/C14): the six variants of the real `cts` crate over a memoising
//! nondeterministic cipher, compared with a direct implementation of NIST SP 800-38A Addendum
//! (CS1/CS2/CS3, CBC and ECB) evaluated over the cipher's table.
use crate::ciphers::*;
use crate::nd;
use cipher::consts::*;
use cipher::InnerIvInit;
use cipher::crypto_common::InnerInit;
use cts::{Decrypt, Encrypt};

/// A *function*: the same input block always gets the same output block (first use picks the next
/// harness-chosen value).  Separate tables for the two directions.
#[macro_export]
macro_rules! fn_cipher {
    ($name:ident, $bs:ty, $b:expr, $w:ty, $k:expr) => {
        pub struct $name {
            pub n: Cell<usize>,
            pub xs: Cell<[[u8; $b]; $k]>,
            pub dir: Cell<[bool; $k]>,
            pub ys: [[u8; $b]; $k],
        }
        impl $name {
            pub fn new(ys: [[u8; $b]; $k]) -> Self {
                Self { n: Cell::new(0), xs: Cell::new([[0; $b]; $k]), dir: Cell::new([false; $k]), ys }
            }
            pub fn apply(&self, x: [u8; $b], enc: bool) -> [u8; $b] {
                let n = self.n.get();
                let xs = self.xs.get();
                let dir = self.dir.get();
                let mut j = 0;
                while j < n {
                    if dir[j] == enc && xs[j] == x { return self.ys[j]; }
                    j += 1;
                }
                assert!(n < $k, "cipher applied to more distinct blocks than the mode may");
                let mut xs2 = xs; xs2[n] = x; self.xs.set(xs2);
                let mut d2 = dir; d2[n] = enc; self.dir.set(d2);
                self.n.set(n + 1);
                self.ys[n]
            }
            fn step(&self, mut block: InOut<'_, '_, Block<Self>>, enc: bool) {
                let x: [u8; $b] = block.clone_in().into();
                *block.get_out() = self.apply(x, enc).into();
            }
        }
        impl BlockSizeUser for $name { type BlockSize = $bs; }
        impl ParBlocksSizeUser for $name { type ParBlocksSize = $w; }
        impl BlockCipherEncBackend for $name {
            fn encrypt_block(&self, block: InOut<'_, '_, Block<Self>>) { self.step(block, true) }
        }
        impl BlockCipherDecBackend for $name {
            fn decrypt_block(&self, block: InOut<'_, '_, Block<Self>>) { self.step(block, false) }
        }
        impl BlockCipherEncrypt for $name {
            fn encrypt_with_backend(&self, f: impl BlockCipherEncClosure<BlockSize = $bs>) { f.call(self) }
        }
        impl BlockCipherDecrypt for $name {
            fn decrypt_with_backend(&self, f: impl BlockCipherDecClosure<BlockSize = $bs>) { f.call(self) }
        }
    };
}

/// NIST SP 800-38A Addendum, written directly.  `variant` 1/2/3, `cbc` false = ECB.
/// m[..len] -> out[..len] (len >= B);  `f(x, true)` = E(x), `f(x, false)` = D(x).
/// n = number of blocks (the last one has d bytes, 1 <= d <= B).
pub fn cts_ref<const B: usize, const M: usize>(enc: bool, variant: u8, cbc: bool, iv: [u8; B], m: &[u8; M], len: usize,
                                               f: &dyn Fn([u8; B], bool) -> [u8; B]) -> [u8; M] {
    let mut out = [0u8; M];
    let n = (len + B - 1) / B;
    let d = len - (n - 1) * B;
    let get = |src: &[u8; M], off: usize, cnt: usize| -> [u8; B] {
        let mut b = [0u8; B]; let mut j = 0; while j < cnt { b[j] = src[off + j]; j += 1; } b
    };
    // CS1 never exchanges, CS3 always does, CS2 only when the final block is partial
    let swapped = variant == 3 || (variant == 2 && d < B);
    if enc {
        let mut prev = iv;
        let mut c_pen = [0u8; B];      // C_{n-1}
        let mut c_last = [0u8; B];     // C_n
        let mut i = 0;
        while i < n {
            let cnt = if i == n - 1 { d } else { B };
            let mut x = get(m, i * B, cnt);                      // zero padded
            if cbc { x = xor(x, prev); }
            else if cnt < B { let mut j = cnt; while j < B { x[j] = c_pen[j]; j += 1; } }   // ECB: stolen tail of C_{n-1}
            let c = f(x, true);
            prev = c;
            if i + 2 < n || n == 1 { let mut j = 0; while j < B { out[i * B + j] = c[j]; j += 1; } }
            if i + 2 == n { c_pen = c; }
            if i + 1 == n { c_last = c; }
            i += 1;
        }
        if n >= 2 {
            let base = (n - 2) * B;
            if swapped {
                let mut j = 0; while j < B { out[base + j] = c_last[j]; j += 1; }
                let mut j = 0; while j < d { out[base + B + j] = c_pen[j]; j += 1; }
            } else {
                let mut j = 0; while j < d { out[base + j] = c_pen[j]; j += 1; }
                let mut j = 0; while j < B { out[base + d + j] = c_last[j]; j += 1; }
            }
        }
        out
    } else {
        let mut prev = iv;
        let head = if n >= 2 { n - 2 } else { 1 };
        let mut i = 0;
        while i < head {
            let c = get(m, i * B, B);
            let y = f(c, false);
            let p = if cbc { xor(y, prev) } else { y };
            prev = c;
            let mut j = 0; while j < B { out[i * B + j] = p[j]; j += 1; }
            i += 1;
        }
        if n >= 2 {
            let base = (n - 2) * B;
            let (c_n, c_star) = if swapped { (get(m, base, B), get(m, base + B, d)) } else { (get(m, base + d, B), get(m, base, d)) };
            let z = f(c_n, false);
            let mut c_pen = c_star;                               // C_{n-1} = C*_{n-1} || stolen tail of z
            let mut j = d; while j < B { c_pen[j] = z[j]; j += 1; }
            let p_last = if cbc { xor(z, c_pen) } else { z };     // first d bytes are P_n*
            let y = f(c_pen, false);
            let p_pen = if cbc { xor(y, prev) } else { y };
            let mut j = 0; while j < B { out[base + j] = p_pen[j]; j += 1; }
            let mut j = 0; while j < d { out[base + B + j] = p_last[j]; j += 1; }
        }
        out
    }
}

#[macro_export]
macro_rules! cts_harness {
    ($h:ident, $unw:expr, $cipher:ident, $b:expr, $maxl:expr, $enc:tt, $variant:expr, $cbc:tt, $ty:ident) => {
        #[cfg_attr(kani, kani::proof)]
        #[cfg_attr(kani, kani::unwind($unw))]
        pub fn $h() {
            let c = $cipher::new(nd::any());
            let iv: [u8; $b] = nd::any();
            let data: [u8; $maxl] = nd::any();
            let len: usize = nd::upto($maxl);
            let b2b: bool = nd::any();
            let garbage: [u8; $maxl] = nd::any();
            let mut buf = data;
            let mut out = garbage;
            let r = cts_harness!(@run $cbc, $enc, $ty, $cipher, c, iv, b2b, buf, out, len);
            if !b2b { out = buf; }
            if len < $b {
                // C13: rejected, nothing written, cipher not used
                assert!(r.is_err());
                assert!(c.n.get() == 0);
                let mut i = 0;
                while i < $maxl { assert!(out[i] == if b2b { garbage[i] } else { data[i] }); assert!(buf[i] == data[i]); i += 1; }
            } else {
                assert!(r.is_ok());
                let f = |x: [u8; $b], e: bool| -> [u8; $b] { c.apply(x, e) };
                let exp = cts_ref::<$b, $maxl>($enc, $variant, $cbc, iv, &data, len, &f);
                let mut i = 0;
                while i < len { assert!(out[i] == exp[i]); i += 1; }
                while i < $maxl { assert!(out[i] == if b2b { garbage[i] } else { data[i] }); i += 1; }
            }
        }
    };
    (@run true, true, $ty:ident, $cipher:ident, $c:ident, $iv:ident, $b2b:ident, $buf:ident, $out:ident, $len:ident) => {
        { let o = cts::$ty::<&$cipher>::inner_iv_init(&$c, &$iv.into());
          if $b2b { o.encrypt_b2b(&$buf[..$len], &mut $out[..$len]) } else { o.encrypt(&mut $buf[..$len]) } }
    };
    (@run true, false, $ty:ident, $cipher:ident, $c:ident, $iv:ident, $b2b:ident, $buf:ident, $out:ident, $len:ident) => {
        { let o = cts::$ty::<&$cipher>::inner_iv_init(&$c, &$iv.into());
          if $b2b { o.decrypt_b2b(&$buf[..$len], &mut $out[..$len]) } else { o.decrypt(&mut $buf[..$len]) } }
    };
    (@run false, true, $ty:ident, $cipher:ident, $c:ident, $iv:ident, $b2b:ident, $buf:ident, $out:ident, $len:ident) => {
        { let o = cts::$ty::<&$cipher>::inner_init(&$c);
          if $b2b { o.encrypt_b2b(&$buf[..$len], &mut $out[..$len]) } else { o.encrypt(&mut $buf[..$len]) } }
    };
    (@run false, false, $ty:ident, $cipher:ident, $c:ident, $iv:ident, $b2b:ident, $buf:ident, $out:ident, $len:ident) => {
        { let o = cts::$ty::<&$cipher>::inner_init(&$c);
          if $b2b { o.decrypt_b2b(&$buf[..$len], &mut $out[..$len]) } else { o.decrypt(&mut $buf[..$len]) } }
    };
}

fn_cipher!(F2w2, U2, 2, U2, 8);
fn_cipher!(F3w2, U3, 3, U2, 8);
// parallel width 1 (software ciphers such as belt-block): the `ParBlocksSize > 1` branches are skipped
fn_cipher!(F2w1, U2, 2, U1, 8);
fn_cipher!(F2w3, U2, 2, U3, 8);

cts_harness!(cts_cbc1enc_b2w2_n3, 12, F2w2, 2, 7, true, 1, true, CbcCs1);
cts_harness!(cts_cbc1dec_b2w2_n3, 12, F2w2, 2, 7, false, 1, true, CbcCs1);
cts_harness!(cts_cbc2enc_b2w2_n3, 12, F2w2, 2, 7, true, 2, true, CbcCs2);
cts_harness!(cts_cbc2dec_b2w2_n3, 12, F2w2, 2, 7, false, 2, true, CbcCs2);
cts_harness!(cts_cbc3enc_b2w2_n3, 12, F2w2, 2, 7, true, 3, true, CbcCs3);
cts_harness!(cts_cbc3dec_b2w2_n3, 12, F2w2, 2, 7, false, 3, true, CbcCs3);
cts_harness!(cts_ecb1enc_b2w2_n3, 12, F2w2, 2, 7, true, 1, false, EcbCs1);
cts_harness!(cts_ecb1dec_b2w2_n3, 12, F2w2, 2, 7, false, 1, false, EcbCs1);
cts_harness!(cts_ecb2enc_b2w2_n3, 12, F2w2, 2, 7, true, 2, false, EcbCs2);
cts_harness!(cts_ecb2dec_b2w2_n3, 12, F2w2, 2, 7, false, 2, false, EcbCs2);
cts_harness!(cts_ecb3enc_b2w2_n3, 12, F2w2, 2, 7, true, 3, false, EcbCs3);
cts_harness!(cts_ecb3dec_b2w2_n3, 12, F2w2, 2, 7, false, 3, false, EcbCs3);
cts_harness!(cts_cbc1enc_b3w2_n3, 14, F3w2, 3, 10, true, 1, true, CbcCs1);
cts_harness!(cts_cbc1dec_b3w2_n3, 14, F3w2, 3, 10, false, 1, true, CbcCs1);
cts_harness!(cts_cbc2enc_b3w2_n3, 14, F3w2, 3, 10, true, 2, true, CbcCs2);
cts_harness!(cts_cbc2dec_b3w2_n3, 14, F3w2, 3, 10, false, 2, true, CbcCs2);
cts_harness!(cts_cbc3enc_b3w2_n3, 14, F3w2, 3, 10, true, 3, true, CbcCs3);
cts_harness!(cts_cbc3dec_b3w2_n3, 14, F3w2, 3, 10, false, 3, true, CbcCs3);
cts_harness!(cts_ecb1enc_b3w2_n3, 14, F3w2, 3, 10, true, 1, false, EcbCs1);
cts_harness!(cts_ecb1dec_b3w2_n3, 14, F3w2, 3, 10, false, 1, false, EcbCs1);
cts_harness!(cts_ecb2enc_b3w2_n3, 14, F3w2, 3, 10, true, 2, false, EcbCs2);
cts_harness!(cts_ecb2dec_b3w2_n3, 14, F3w2, 3, 10, false, 2, false, EcbCs2);
cts_harness!(cts_ecb3enc_b3w2_n3, 14, F3w2, 3, 10, true, 3, false, EcbCs3);
cts_harness!(cts_ecb3dec_b3w2_n3, 14, F3w2, 3, 10, false, 3, false, EcbCs3);
cts_harness!(cts_cbc1enc_b2w1_n3_nat, 12, F2w1, 2, 7, true, 1, true, CbcCs1);
cts_harness!(cts_cbc1enc_b2w3_n4_nat, 14, F2w3, 2, 9, true, 1, true, CbcCs1);
cts_harness!(cts_cbc1dec_b2w1_n3_nat, 12, F2w1, 2, 7, false, 1, true, CbcCs1);
cts_harness!(cts_cbc1dec_b2w3_n4_nat, 14, F2w3, 2, 9, false, 1, true, CbcCs1);
cts_harness!(cts_cbc2enc_b2w1_n3_nat, 12, F2w1, 2, 7, true, 2, true, CbcCs2);
cts_harness!(cts_cbc2enc_b2w3_n4_nat, 14, F2w3, 2, 9, true, 2, true, CbcCs2);
cts_harness!(cts_cbc2dec_b2w1_n3_nat, 12, F2w1, 2, 7, false, 2, true, CbcCs2);
cts_harness!(cts_cbc2dec_b2w3_n4_nat, 14, F2w3, 2, 9, false, 2, true, CbcCs2);
cts_harness!(cts_cbc3enc_b2w1_n3_nat, 12, F2w1, 2, 7, true, 3, true, CbcCs3);
cts_harness!(cts_cbc3enc_b2w3_n4_nat, 14, F2w3, 2, 9, true, 3, true, CbcCs3);
cts_harness!(cts_cbc3dec_b2w1_n3_nat, 12, F2w1, 2, 7, false, 3, true, CbcCs3);
cts_harness!(cts_cbc3dec_b2w3_n4_nat, 14, F2w3, 2, 9, false, 3, true, CbcCs3);
cts_harness!(cts_ecb1enc_b2w1_n3_nat, 12, F2w1, 2, 7, true, 1, false, EcbCs1);
cts_harness!(cts_ecb1enc_b2w3_n4_nat, 14, F2w3, 2, 9, true, 1, false, EcbCs1);
cts_harness!(cts_ecb1dec_b2w1_n3_nat, 12, F2w1, 2, 7, false, 1, false, EcbCs1);
cts_harness!(cts_ecb1dec_b2w3_n4_nat, 14, F2w3, 2, 9, false, 1, false, EcbCs1);
cts_harness!(cts_ecb2enc_b2w1_n3_nat, 12, F2w1, 2, 7, true, 2, false, EcbCs2);
cts_harness!(cts_ecb2enc_b2w3_n4_nat, 14, F2w3, 2, 9, true, 2, false, EcbCs2);
cts_harness!(cts_ecb2dec_b2w1_n3_nat, 12, F2w1, 2, 7, false, 2, false, EcbCs2);
cts_harness!(cts_ecb2dec_b2w3_n4_nat, 14, F2w3, 2, 9, false, 2, false, EcbCs2);
cts_harness!(cts_ecb3enc_b2w1_n3_nat, 12, F2w1, 2, 7, true, 3, false, EcbCs3);
cts_harness!(cts_ecb3enc_b2w3_n4_nat, 14, F2w3, 2, 9, true, 3, false, EcbCs3);
cts_harness!(cts_ecb3dec_b2w1_n3_nat, 12, F2w1, 2, 7, false, 3, false, EcbCs3);
cts_harness!(cts_ecb3dec_b2w3_n4_nat, 14, F2w3, 2, 9, false, 3, false, EcbCs3);
