//! Harnesses on the real crates (path dependencies on the working tree) with harness-owned ciphers.
//! Under Kani they are proof harnesses (bounded stand-in / conformance / counterexample search,
//! DESIGN 3.7); compiled natively the same functions replay a counterexample byte stream.
#![allow(dead_code, unused_imports, unused_macros)]
pub mod nd;
pub mod ciphers;
pub mod h_block;
pub mod h_stream;
pub mod h_cts;
pub mod h_misc;
pub mod h_shim;
pub mod table;
