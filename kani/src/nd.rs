//! Nondeterministic inputs: `kani::any()` under Kani; bytes popped from a stream when the same
//! harness is compiled natively (replay of a Kani counterexample, or random search).
#[cfg(not(kani))]
use std::cell::RefCell;

#[cfg(not(kani))]
thread_local! {
    pub static STREAM: RefCell<(Vec<u8>, usize)> = RefCell::new((Vec::new(), 0));
}

#[cfg(not(kani))]
pub struct Rejected;

#[cfg(not(kani))]
pub fn set_stream(v: Vec<u8>) {
    STREAM.with(|s| *s.borrow_mut() = (v, 0));
}
#[cfg(not(kani))]
pub fn consumed() -> usize {
    STREAM.with(|s| s.borrow().1)
}
#[cfg(not(kani))]
fn pop() -> u8 {
    STREAM.with(|s| {
        let mut s = s.borrow_mut();
        let i = s.1;
        s.1 += 1;
        if i < s.0.len() { s.0[i] } else { 0 }
    })
}

pub trait Nd: Sized {
    fn nd() -> Self;
}
macro_rules! nd_int {
    ($t:ty, $n:expr) => {
        impl Nd for $t {
            fn nd() -> $t {
                #[cfg(kani)]
                { kani::any() }
                #[cfg(not(kani))]
                { let mut b = [0u8; $n]; for x in b.iter_mut() { *x = pop(); } <$t>::from_le_bytes(b) }
            }
        }
    };
}
nd_int!(u8, 1);
nd_int!(u16, 2);
nd_int!(u32, 4);
nd_int!(i32, 4);
nd_int!(u64, 8);
nd_int!(u128, 16);
nd_int!(usize, 8);
impl Nd for bool {
    fn nd() -> bool {
        #[cfg(kani)]
        { kani::any() }
        #[cfg(not(kani))]
        { pop() & 1 == 1 }
    }
}
impl<T: Nd, const N: usize> Nd for [T; N] {
    fn nd() -> Self { core::array::from_fn(|_| T::nd()) }
}

pub fn any<T: Nd>() -> T { T::nd() }

pub fn assume(c: bool) {
    #[cfg(kani)]
    kani::assume(c);
    #[cfg(not(kani))]
    if !c { std::panic::panic_any(Rejected); }
}

/// a value in 0..=max (max < 256): `any::<u8>()` constrained by an assumption under Kani; natively one stream byte
/// reduced mod (max + 1), so the random search does not waste its samples on rejected values (a Kani
/// counterexample byte already satisfies the bound and is decoded unchanged)
pub fn upto(max: usize) -> usize {
    #[cfg(kani)]
    { let v: u8 = kani::any(); kani::assume((v as usize) <= max); v as usize }
    #[cfg(not(kani))]
    { (pop() as usize) % (max + 1) }
}

/// like `pick`, natively a value in 0..=max
pub fn pick_upto(concrete: u8, max: u8) -> u8 {
    #[cfg(kani)]
    { let _ = max; concrete }
    #[cfg(not(kani))]
    { let _ = concrete; (pop() as usize % (max as usize + 1)) as u8 }
}

/// a value that is nondeterministic in native search but fixed under Kani (keeps 64-bit position
/// arithmetic of the stream wrapper concrete; stated in the harness bounds)
pub fn pick(concrete: u8) -> u8 {
    #[cfg(kani)]
    { concrete }
    #[cfg(not(kani))]
    { let _ = concrete; any() }
}
