//! Byte-stream harnesses: CTR flavours, BelT-CTR and OFB through the real StreamCipherCoreWrapper,
//! buffered CFB; all over a LogCipher and compared with the definitions of C03/C04/C06/C08/C10.
use crate::ciphers::*;
use crate::log_cipher;
use crate::nd;
use cipher::consts::*;
use cipher::{InnerIvInit, IvState, StreamCipher, StreamCipherSeek, StreamCipherCoreWrapper};

/// counter-block layout of C04: the counter field is the last WB bytes (big endian) / first WB bytes
/// (little endian) of the IV, replaced by (field + i) mod 2^(8 WB); other bytes unchanged
pub fn layout<const B: usize>(iv: [u8; B], i: u128, wb: usize, be: bool) -> [u8; B] {
    let mut out = iv;
    let mut field: u128 = 0;
    let mut j = 0;
    while j < wb {
        let byte = if be { iv[B - wb + j] } else { iv[wb - 1 - j] };
        field = (field << 8) | byte as u128;
        j += 1;
    }
    let m_mask: u128 = if wb == 16 { u128::MAX } else { (1u128 << (8 * wb)) - 1 };
    let v = field.wrapping_add(i) & m_mask;
    let mut j = 0;
    while j < wb {
        let byte = (v >> (8 * (wb - 1 - j))) as u8;
        if be { out[B - wb + j] = byte; } else { out[wb - 1 - j] = byte; }
        j += 1;
    }
    out
}

/// $ty: wrapper type over &$cipher; data of $len bytes processed as two pieces split at $split after
/// seeking to byte offset `start` = p0 * B + off (p0 small, off < B nondeterministic)
#[macro_export]
macro_rules! ctr_harness {
    ($h:ident, $unw:expr, $cipher:ident, $b:expr, $wb:expr, $be:expr, $len:expr, $split:expr, $ty:ty) => {
        #[cfg_attr(kani, kani::proof)]
        #[cfg_attr(kani, kani::unwind($unw))]
        pub fn $h() {
            let c = $cipher::new(nd::any());
            let iv: [u8; $b] = nd::any();
            let data: [u8; $len] = nd::any();
            let p0: u8 = nd::pick_upto(1, 2);
            let off: u8 = nd::pick_upto(($b - 1) as u8, ($b - 1) as u8);
            let mut s = <$ty>::from_core(InnerIvInit::inner_iv_init(&c, &iv.into()));
            let start: u64 = p0 as u64 * $b + off as u64;
            s.seek(start);
            assert!(s.current_pos::<u64>() == start);
            let mut buf = data;
            let b2b: bool = nd::pick(1) & 1 == 1;
            if b2b {
                let mut out = [0u8; $len];
                s.apply_keystream_b2b(&data[..$split], &mut out[..$split]).unwrap();
                s.apply_keystream_b2b(&data[$split..], &mut out[$split..]).unwrap();
                buf = out;
            } else {
                s.apply_keystream(&mut buf[..$split]);
                s.apply_keystream(&mut buf[$split..]);
            }
            assert!(s.current_pos::<u64>() == start + $len);
            // expected: keystream byte at absolute offset q is ks_block(q / B)[q % B]; the cipher is called
            // on the counter blocks in increasing order (first call = block p0 if any byte of it is used)
            let xs = c.xs.get();
            let mut k = 0usize;            // index into the cipher log
            let mut cur_blk: u64 = u64::MAX; // block whose keystream is ys[k-1]
            let mut i = 0usize;
            while i < $len {
                let q = start + i as u64;
                let blk = q / $b;
                if blk != cur_blk {
                    assert!(xs[k] == layout::<$b>(iv, blk as u128, $wb, $be));
                    cur_blk = blk;
                    k += 1;
                }
                assert!(buf[i] == data[i] ^ c.ys[k - 1][(q % $b) as usize]);
                i += 1;
            }
            let e = c.enc.get();
            let mut j = 0; while j < k { assert!(e[j]); j += 1; }
        }
    };
}

log_cipher!(L4w2, U4, 4, U2, 8);
log_cipher!(L8w2, U8, 8, U2, 6);
log_cipher!(L8w3, U8, 8, U3, 6);
log_cipher!(L16w2, U16, 16, U2, 6);
log_cipher!(L16w4, U16, 16, U4, 8);

ctr_harness!(ctr_32be_b4w2_n3, 14, L4w2, 4, 4, true, 9, 3, ctr::Ctr32BE<&L4w2>);
ctr_harness!(ctr_32le_b4w2_n3, 14, L4w2, 4, 4, false, 9, 3, ctr::Ctr32LE<&L4w2>);
ctr_harness!(ctr_32be_b8w2_n3, 20, L8w2, 8, 4, true, 17, 5, ctr::Ctr32BE<&L8w2>);
ctr_harness!(ctr_32le_b8w3_n3, 20, L8w3, 8, 4, false, 17, 5, ctr::Ctr32LE<&L8w3>);
ctr_harness!(ctr_64be_b8w2_n3, 20, L8w2, 8, 8, true, 17, 5, ctr::Ctr64BE<&L8w2>);
ctr_harness!(ctr_64le_b8w3_n3, 20, L8w3, 8, 8, false, 17, 5, ctr::Ctr64LE<&L8w3>);
ctr_harness!(ctr_64be_b16w2_n3, 36, L16w2, 16, 8, true, 33, 9, ctr::Ctr64BE<&L16w2>);
ctr_harness!(ctr_64le_b16w2_n3, 36, L16w2, 16, 8, false, 33, 9, ctr::Ctr64LE<&L16w2>);
ctr_harness!(ctr_128be_b16w2_n3, 36, L16w2, 16, 16, true, 33, 9, ctr::Ctr128BE<&L16w2>);
ctr_harness!(ctr_128le_b16w2_n3, 36, L16w2, 16, 16, false, 33, 9, ctr::Ctr128LE<&L16w2>);

log_cipher!(L32w2, U32, 32, U2, 4);
ctr_harness!(ctr_128be_b32w2_n2, 70, L32w2, 32, 16, true, 40, 9, ctr::Ctr128BE<&L32w2>);
ctr_harness!(ctr_128le_b32w2_n2, 70, L32w2, 32, 16, false, 40, 9, ctr::Ctr128LE<&L32w2>);
ctr_harness!(ctr_64be_b32w2_n2, 70, L32w2, 32, 8, true, 40, 9, ctr::Ctr64BE<&L32w2>);
ctr_harness!(ctr_32le_b32w2_n2, 70, L32w2, 32, 4, false, 40, 9, ctr::Ctr32LE<&L32w2>);

/// BelT-CTR (C06): cipher call 0 = E(IV) =: s0 (little endian); keystream block i (0-based) = E(le128(s0 + i + 1))
#[macro_export]
macro_rules! belt_harness {
    ($h:ident, $unw:expr, $cipher:ident, $len:expr, $split:expr) => {
        #[cfg_attr(kani, kani::proof)]
        #[cfg_attr(kani, kani::unwind($unw))]
        pub fn $h() {
            let c = $cipher::new(nd::any());
            let iv: [u8; 16] = nd::any();
            let data: [u8; $len] = nd::any();
            let p0: u8 = nd::pick_upto(1, 2);
            let off: u8 = nd::pick_upto(15, 15);
            let mut s = belt_ctr::BeltCtr::<&$cipher>::from_core(InnerIvInit::inner_iv_init(&c, &iv.into()));
            assert!(c.xs.get()[0] == iv);
            let s0 = u128::from_le_bytes(c.ys[0]);
            let start: u64 = p0 as u64 * 16 + off as u64;
            s.seek(start);
            assert!(s.current_pos::<u64>() == start);
            let mut buf = data;
            s.apply_keystream(&mut buf[..$split]);
            s.apply_keystream(&mut buf[$split..]);
            assert!(s.current_pos::<u64>() == start + $len);
            let xs = c.xs.get();
            let mut k = 1usize;
            let mut cur_blk: u64 = u64::MAX;
            let mut i = 0usize;
            while i < $len {
                let q = start + i as u64;
                let blk = q / 16;
                if blk != cur_blk {
                    assert!(xs[k] == s0.wrapping_add(blk as u128 + 1).to_le_bytes());
                    cur_blk = blk;
                    k += 1;
                }
                assert!(buf[i] == data[i] ^ c.ys[k - 1][(q % 16) as usize]);
                i += 1;
            }
        }
    };
}
belt_harness!(belt_ks_b16w2_n3, 36, L16w2, 33, 9);
belt_harness!(belt_ks_b16w4_n5, 70, L16w4, 66, 3);

/// OFB as byte stream cipher (C03/C08/C14)
#[macro_export]
macro_rules! ofb_stream_harness {
    ($h:ident, $unw:expr, $cipher:ident, $b:expr, $len:expr, $split:expr) => {
        #[cfg_attr(kani, kani::proof)]
        #[cfg_attr(kani, kani::unwind($unw))]
        pub fn $h() {
            let c = $cipher::new(nd::any());
            let iv: [u8; $b] = nd::any();
            let data: [u8; $len] = nd::any();
            let mut s = ofb::Ofb::<&$cipher>::from_core(InnerIvInit::inner_iv_init(&c, &iv.into()));
            let mut buf = data;
            s.apply_keystream(&mut buf[..$split]);
            s.apply_keystream(&mut buf[$split..]);
            let xs = c.xs.get();
            let mut o = iv;
            let mut i = 0usize;
            while i < $len {
                let blk = i / $b;
                if i % $b == 0 { assert!(xs[blk] == o); o = c.ys[blk]; }
                assert!(buf[i] == data[i] ^ o[i % $b]);
                i += 1;
            }
        }
    };
}
log_cipher!(S2w2, U2, 2, U2, 6);
log_cipher!(S3w3, U3, 3, U3, 6);
ofb_stream_harness!(ofb_ks_b2w2_n4, 10, S2w2, 2, 7, 3);
ofb_stream_harness!(ofb_ks_b3w3_n4, 12, S3w3, 3, 10, 4);

/// buffered CFB (C03/C08/C09/C13/C14): BufEncryptor / BufDecryptor against the byte transducer,
/// starting from an arbitrary valid exported state (iv, pos), data in two pieces
#[macro_export]
macro_rules! cfbbuf_harness {
    ($h:ident, $unw:expr, $cipher:ident, $b:expr, $maxn:expr, $enc:expr, $ty:ty, $call:ident) => {
        #[cfg_attr(kani, kani::proof)]
        #[cfg_attr(kani, kani::unwind($unw))]
        pub fn $h() {
            let c = $cipher::new(nd::any());
            let iv0: [u8; $b] = nd::any();
            let pos0: usize = nd::upto($b - 1);
            let mut e = <$ty>::from_state(&c, &iv0.into(), pos0);
            let n: usize = nd::upto($maxn);
            let cut: usize = nd::upto(n);
            let data: [u8; $maxn] = nd::any();
            let mut buf = data;
            e.$call(&mut buf[..cut]);
            e.$call(&mut buf[cut..n]);
            let xs = c.xs.get();
            let mut iv = iv0;
            let mut pos = pos0;
            let mut k = 0usize;
            let mut i = 0usize;
            while i < n {
                let o = data[i] ^ iv[pos];
                assert!(buf[i] == o);
                iv[pos] = if $enc { o } else { data[i] };
                pos += 1;
                if pos == $b {
                    assert!(xs[k] == iv);
                    iv = c.ys[k];
                    k += 1;
                    pos = 0;
                }
                i += 1;
            }
            assert!(c.n.get() == k);
            let (siv, spos) = e.get_state();
            let siv: [u8; $b] = siv.clone().into();
            assert!(spos == pos);
            assert!(siv == iv);
            while i < $maxn { assert!(buf[i] == data[i]); i += 1; }
        }
    };
}
log_cipher!(C2w1, U2, 2, U1, 6);
log_cipher!(C1w1, U1, 1, U1, 14);
log_cipher!(C3w2, U3, 3, U2, 6);
cfbbuf_harness!(cfbbuf_enc_b2w1_n8, 12, C2w1, 2, 8, true, cfb_mode::BufEncryptor<&C2w1>, encrypt);
cfbbuf_harness!(cfbbuf_dec_b2w1_n8, 12, C2w1, 2, 8, false, cfb_mode::BufDecryptor<&C2w1>, decrypt);
cfbbuf_harness!(cfbbuf_enc_b1w1_n12, 16, C1w1, 1, 12, true, cfb_mode::BufEncryptor<&C1w1>, encrypt);
cfbbuf_harness!(cfbbuf_dec_b1w1_n12, 16, C1w1, 1, 12, false, cfb_mode::BufDecryptor<&C1w1>, decrypt);
cfbbuf_harness!(cfbbuf_enc_b3w2_n11, 16, C3w2, 3, 11, true, cfb_mode::BufEncryptor<&C3w2>, encrypt);
cfbbuf_harness!(cfbbuf_dec_b3w2_n11, 16, C3w2, 3, 11, false, cfb_mode::BufDecryptor<&C3w2>, decrypt);

/// C11: requests near the end of the keystream (w = 32, 4-byte blocks): success iff the request fits;
/// on failure buffer and position untouched; on success position advanced exactly.
#[cfg_attr(kani, kani::proof)]
#[cfg_attr(kani, kani::unwind(14))]
pub fn ctr_limit_b4w2_n3() {
    let c = L4w2::new(nd::any());
    let iv: [u8; 4] = nd::any();
    let mut s = ctr::Ctr32BE::<&L4w2>::from_core(ctr::CtrCore::inner_iv_init(&c, &iv.into()));
    let limit: u64 = (u32::MAX as u64) * 4;
    let back: u64 = nd::upto(9) as u64;
    let start = limit - back;
    assert!(s.try_seek(start).is_ok());
    let len: usize = nd::upto(12);
    let data: [u8; 12] = nd::any();
    let mut buf = data;
    let r = s.try_apply_keystream(&mut buf[..len]);
    assert!(r.is_ok() == (len as u64 <= back));
    if r.is_err() {
        assert!(buf == data);
        assert!(s.try_current_pos::<u64>().unwrap() == start);
    } else if (len as u64) < back {
        assert!(s.try_current_pos::<u64>().unwrap() == start + len as u64);
    }
}

/// C11 (last sentence): a keystream block is never reused at a different position without an error.
/// Seeking INTO block 2^32-1 (one past the last usable block) and then asking for data must fail
/// somewhere.  On the pinned dependency `try_seek` succeeds and the data call silently reuses block 0
/// (known finding F2: the unchecked call is StreamCipherCoreWrapper::try_seek in the `cipher` crate).
pub fn ctr_seekpast_b4w2_n2() {
    let c = L4w2::new(nd::any());
    let iv: [u8; 4] = nd::any();
    let mut s = ctr::Ctr32BE::<&L4w2>::from_core(ctr::CtrCore::inner_iv_init(&c, &iv.into()));
    let limit: u64 = (u32::MAX as u64) * 4;
    let off: u64 = 1 + (nd::any::<u8>() % 3) as u64;
    let r1 = s.try_seek(limit + off);
    let mut buf: [u8; 8] = nd::any();
    let r2 = s.try_apply_keystream(&mut buf);
    assert!(r1.is_err() || r2.is_err(), "seek past the keystream limit and a data call both succeeded: keystream block 0 is reused");
}

// larger instances that reach the parallel keystream path (>= width whole blocks in one call after the
// partial block is flushed); native search / replay only (too heavy for CBMC)
log_cipher!(L4w2b, U4, 4, U2, 12);
log_cipher!(L8w3b, U8, 8, U3, 12);
log_cipher!(L16w2b, U16, 16, U2, 8);
log_cipher!(L16w4b, U16, 16, U4, 12);
ctr_harness!(ctr_32be_b4w2_n8_nat, 40, L4w2b, 4, 4, true, 30, 3, ctr::Ctr32BE<&L4w2b>);
ctr_harness!(ctr_32le_b8w3_n8_nat, 80, L8w3b, 8, 4, false, 70, 5, ctr::Ctr32LE<&L8w3b>);
ctr_harness!(ctr_64be_b8w3_n8_nat, 80, L8w3b, 8, 8, true, 70, 5, ctr::Ctr64BE<&L8w3b>);
ctr_harness!(ctr_64le_b16w2_n6_nat, 100, L16w2b, 16, 8, false, 90, 7, ctr::Ctr64LE<&L16w2b>);
ctr_harness!(ctr_128be_b16w2_n6_nat, 100, L16w2b, 16, 16, true, 90, 7, ctr::Ctr128BE<&L16w2b>);
ctr_harness!(ctr_128le_b16w4_n9_nat, 160, L16w4b, 16, 16, false, 150, 7, ctr::Ctr128LE<&L16w4b>);
belt_harness!(belt_ks_b16w2_n6_nat, 100, L16w2b, 90, 7);
belt_harness!(belt_ks_b16w4_n9_nat, 160, L16w4b, 150, 5);
