//! replay <harness> <hex bytes>          run one harness natively on a concrete input stream
//! search <harness> <iterations> <seed>  random search for a failing input stream (not a proof)
#[cfg(kani)]
fn main() {}

#[cfg(not(kani))]
use std::panic;

#[cfg(not(kani))]
fn run(f: fn(), bytes: Vec<u8>) -> Result<(), String> {
    vkani::nd::set_stream(bytes);
    match panic::catch_unwind(f) {
        Ok(()) => Ok(()),
        Err(e) => {
            if e.downcast_ref::<vkani::nd::Rejected>().is_some() { return Ok(()); }
            let msg = if let Some(s) = e.downcast_ref::<&str>() { s.to_string() }
                else if let Some(s) = e.downcast_ref::<String>() { s.clone() } else { "panic".to_string() };
            Err(msg)
        }
    }
}

#[cfg(not(kani))]
fn hex(b: &[u8]) -> String { b.iter().map(|x| format!("{:02x}", x)).collect() }
#[cfg(not(kani))]
fn unhex(s: &str) -> Vec<u8> {
    (0..s.len() / 2).map(|i| u8::from_str_radix(&s[2 * i..2 * i + 2], 16).unwrap()).collect()
}

#[cfg(not(kani))]
fn main() {
    let a: Vec<String> = std::env::args().collect();
    if a.len() < 3 { eprintln!("usage: replay <harness> <hex> | search <harness> <iters> <seed>"); std::process::exit(2); }
    let find = |name: &str| vkani::table::table().into_iter().find(|(n, _)| *n == name).map(|(_, f)| f);
    panic::set_hook(Box::new(|_| {}));
    match a[1].as_str() {
        "replay" => {
            let f = find(&a[2]).unwrap_or_else(|| { eprintln!("unknown harness"); std::process::exit(2) });
            match run(f, unhex(&a[3])) {
                Ok(()) => { println!("REPLAY-OK harness={} (no assertion failed on the current tree)", a[2]); }
                Err(m) => { println!("REPLAY-FAIL harness={} assertion={}", a[2], m.replace('\n', " ")); std::process::exit(1); }
            }
        }
        "search" => {
            let f = find(&a[2]).unwrap_or_else(|| { eprintln!("unknown harness"); std::process::exit(2) });
            let iters: u64 = a[3].parse().unwrap();
            let mut st: u64 = a.get(4).map(|s| s.parse().unwrap()).unwrap_or(1) ^ 0x9E3779B97F4A7C15;
            let mut next = || { st ^= st << 13; st ^= st >> 7; st ^= st << 17; st };
            for it in 0..iters {
                // small-valued and boundary-heavy bytes make equalities and carries likely
                let mode = next() % 4;
                let bytes: Vec<u8> = (0..256).map(|_| { let r = next(); match mode { 0 => (r % 4) as u8, 1 => if r % 3 == 0 { 0xff } else { (r >> 8) as u8 }, _ => (r >> 8) as u8 } }).collect();
                if let Err(m) = run(f, bytes.clone()) {
                    let used = vkani::nd::consumed().min(256);
                    println!("FOUND harness={} iter={} bytes={} assertion={}", a[2], it, hex(&bytes[..used]), m.replace('\n', " "));
                    std::process::exit(1);
                }
            }
            println!("NOTFOUND harness={} iters={}", a[2], iters);
        }
        _ => std::process::exit(2),
    }
}
