//! Conformance of the ASSUMED shim contracts (/verif/prelude/*.rs) with the real dependency code: every `ensures`
//! the deductive units rely on for `inout`, `hybrid-array`, the byte-order conversions and a few `core` helpers is
//! restated here as an executable assertion on the real types.  Small fixed sizes, all values symbolic: loop-free (or
//! loops over <= 6 elements), so a completed Kani run covers the stated instantiation exhaustively; the same functions
//! run in the native random search of every check.
use crate::nd;
use cipher::array::Array;
use cipher::consts::*;
use cipher::inout::{InOut, InOutBuf};

fn xor3(a: [u8; 3], b: [u8; 3]) -> [u8; 3] { [a[0] ^ b[0], a[1] ^ b[1], a[2] ^ b[2]] }

/// InOut built from two references: disjoint semantics (`aliased == false` in the model)
#[cfg_attr(kani, kani::proof)]
pub fn shim_inout_pair() {
    let i0: [u8; 3] = nd::any();
    let o0: [u8; 3] = nd::any();
    let w: [u8; 3] = nd::any();
    let d: [u8; 3] = nd::any();
    let inp: Array<u8, U3> = i0.into();
    let mut out: Array<u8, U3> = o0.into();
    {
        let mut io: InOut<'_, '_, Array<u8, U3>> = (&inp, &mut out).into();
        assert!(*io.get_in() == inp);                       // get_in: in_val
        assert!(io.clone_in() == inp);                      // clone_in
        assert!(*io.get_out() == Array::<u8, U3>::from(o0)); // get_out sees the current output contents
        {
            let mut r = io.reborrow();
            assert!(*r.get_in() == inp);
            *r.get_out() = w.into();                        // a write through the reborrow ...
        }
        assert!(*io.get_out() == Array::<u8, U3>::from(w)); // ... is the parent's current output
        assert!(*io.get_in() == inp);                       // disjoint: the input side is not affected by writes
        io.xor_in2out(&d.into());
        assert!(*io.get_out() == Array::<u8, U3>::from(xor3(i0, d)));
        assert!(*io.get_in() == inp);
    }
    assert!(out == Array::<u8, U3>::from(xor3(i0, d)));      // out_fut: what the caller sees afterwards
    assert!(inp == Array::<u8, U3>::from(i0));
}

/// InOut built from one `&mut`: in-place semantics (`aliased == true`: the input side IS the output side)
#[cfg_attr(kani, kani::proof)]
pub fn shim_inout_alias() {
    let x0: [u8; 3] = nd::any();
    let w: [u8; 3] = nd::any();
    let d: [u8; 3] = nd::any();
    let mut x: Array<u8, U3> = x0.into();
    {
        let mut io: InOut<'_, '_, Array<u8, U3>> = (&mut x).into();
        assert!(*io.get_in() == Array::<u8, U3>::from(x0));
        assert!(io.clone_in() == Array::<u8, U3>::from(x0));
        *io.get_out() = w.into();
        assert!(*io.get_in() == Array::<u8, U3>::from(w));   // aliased: in_val follows the output
        io.xor_in2out(&d.into());
        assert!(*io.get_out() == Array::<u8, U3>::from(xor3(w, d)));
    }
    assert!(x == Array::<u8, U3>::from(xor3(w, d)));
}

/// InOut<Array<T, N>>::get(i): element i of both sides, writes land in element i only
#[cfg_attr(kani, kani::proof)]
pub fn shim_inout_get() {
    let i0: [[u8; 2]; 3] = nd::any();
    let o0: [[u8; 2]; 3] = nd::any();
    let w: [u8; 2] = nd::any();
    let d: [u8; 2] = nd::any();
    let aliased: bool = nd::any();
    let pos = nd::upto(2);
    let inp: Array<Array<u8, U2>, U3> = i0.map(|b| b.into()).into();
    let mut out: Array<Array<u8, U2>, U3> = o0.map(|b| b.into()).into();
    let before = if aliased { out.clone() } else { inp.clone() };
    let out_before = out.clone();
    {
        let mut io: InOut<'_, '_, Array<Array<u8, U2>, U3>> = if aliased { (&mut out).into() } else { (&inp, &mut out).into() };
        {
            let mut e = io.get(pos);
            assert!(*e.get_in() == before[pos]);
            assert!(*e.get_out() == out_before[pos]);
            e.xor_in2out(&d.into());
        }
        let _ = w;
    }
    let mut k = 0;
    while k < 3 {
        if k == pos { assert!(out[k] == Array::<u8, U2>::from([before[pos][0] ^ d[0], before[pos][1] ^ d[1]])); }
        else { assert!(out[k] == out_before[k]); }
        k += 1;
    }
}

/// InOutBuf::new (length check, nothing written), len / is_empty, get_in / get_out, from(&mut [T]), from_mut
#[cfg_attr(kani, kani::proof)]
#[cfg_attr(kani, kani::unwind(8))]
pub fn shim_inoutbuf_basic() {
    let i0: [u8; 4] = nd::any();
    let o0: [u8; 4] = nd::any();
    let li = nd::upto(4);
    let lo = nd::upto(4);
    let mut out = o0;
    {
        let r = InOutBuf::new(&i0[..li], &mut out[..lo]);
        assert!(r.is_ok() == (li == lo));
        if let Ok(mut b) = r {
            assert!(b.len() == li);
            assert!(b.is_empty() == (li == 0));
            assert!(b.get_in() == &i0[..li]);
            assert!(b.get_out() == &o0[..lo]);
        }
    }
    assert!(out == o0);                                     // constructing (or failing to) writes nothing
    let mut x = o0;
    {
        let mut b: InOutBuf<'_, '_, u8> = (&mut x[..lo]).into();
        assert!(b.len() == lo);
        assert!(b.get_in() == &o0[..lo]);                   // aliased: in_val == current output
        if lo > 0 { b.get_out()[0] ^= 0xff; assert!(b.get_in()[0] == o0[0] ^ 0xff); }
    }
    let mut y: u8 = nd::any();
    let y0 = y;
    {
        let mut b = InOutBuf::from_mut(&mut y);
        assert!(b.len() == 1 && b.get_in()[0] == y0);
        b.get_out()[0] = y0 ^ 1;
    }
    assert!(y == y0 ^ 1);
}

/// split_at and into_chunks: how the two sides are cut, and that writes through the pieces are the caller's output
#[cfg_attr(kani, kani::proof)]
#[cfg_attr(kani, kani::unwind(8))]
pub fn shim_inoutbuf_split_chunks() {
    let i0: [u8; 5] = nd::any();
    let o0: [u8; 5] = nd::any();
    let d: [u8; 5] = nd::any();
    let aliased: bool = nd::any();
    let n = nd::upto(5);
    let mid = nd::upto(n);
    let src = if aliased { o0 } else { i0 };
    // split_at
    let mut out = o0;
    {
        let b: InOutBuf<'_, '_, u8> = if aliased { (&mut out[..n]).into() } else { InOutBuf::new(&i0[..n], &mut out[..n]).unwrap() };
        let (mut l, mut r) = b.split_at(mid);
        assert!(l.len() == mid && r.len() == n - mid);
        assert!(l.get_in() == &src[..mid] && r.get_in() == &src[mid..n]);
        assert!(l.get_out() == &o0[..mid] && r.get_out() == &o0[mid..n]);
        l.xor_in2out(&d[..mid]);
        r.xor_in2out(&d[mid..n]);
    }
    let mut k = 0;
    while k < 5 { assert!(out[k] == if k < n { src[k] ^ d[k] } else { o0[k] }); k += 1; }
    // into_chunks (chunk size 2): |chunks| = n / 2, |tail| = n % 2, concatenation in order
    let mut out = o0;
    {
        let b: InOutBuf<'_, '_, u8> = if aliased { (&mut out[..n]).into() } else { InOutBuf::new(&i0[..n], &mut out[..n]).unwrap() };
        let (mut chunks, mut tail) = b.into_chunks::<U2>();
        assert!(chunks.len() == n / 2 && tail.len() == n % 2);
        let mut c = 0;
        while c < n / 2 {
            assert!(chunks.get_in()[c] == Array::<u8, U2>::from([src[2 * c], src[2 * c + 1]]));
            assert!(chunks.get_out()[c] == Array::<u8, U2>::from([o0[2 * c], o0[2 * c + 1]]));
            c += 1;
        }
        if n % 2 == 1 { assert!(tail.get_in()[0] == src[n - 1] && tail.get_out()[0] == o0[n - 1]); }
        // iteration order of the chunk buffer: element c is chunk c (in_val, current output, and writes)
        let mut c = 0;
        for mut blk in chunks {
            assert!(*blk.get_in() == Array::<u8, U2>::from([src[2 * c], src[2 * c + 1]]));
            blk.xor_in2out(&[d[2 * c], d[2 * c + 1]].into());
            c += 1;
        }
        assert!(c == n / 2);
        if n % 2 == 1 { tail.xor_in2out(&d[n - 1..n]); }
    }
    let mut k = 0;
    while k < 5 { assert!(out[k] == if k < n { src[k] ^ d[k] } else { o0[k] }); k += 1; }
}

/// hybrid-array: range indexing (shared and mutable), zero default, slice views, conversions from slices
#[cfg_attr(kani, kani::proof)]
#[cfg_attr(kani, kani::unwind(8))]
pub fn shim_array_ranges() {
    let a0: [u8; 5] = nd::any();
    let w: [u8; 5] = nd::any();
    let lo = nd::upto(5);
    let hi = lo + nd::upto(5 - lo);
    let a: Array<u8, U5> = a0.into();
    assert!(&a[..hi] == &a0[..hi] && &a[lo..] == &a0[lo..] && &a[lo..hi] == &a0[lo..hi]);
    assert!(a.as_slice() == &a0[..]);
    let z: Array<u8, U5> = Default::default();
    assert!(z.as_slice() == &[0u8; 5][..]);
    // index_mut: exactly the addressed range is replaced
    let mut b = a.clone();
    b[lo..hi].copy_from_slice(&w[lo..hi]);
    let mut k = 0;
    while k < 5 { assert!(b[k] == if lo <= k && k < hi { w[k] } else { a0[k] }); k += 1; }
    let mut c = a.clone();
    c[..hi].copy_from_slice(&w[..hi]);
    c[hi..].copy_from_slice(&a0[hi..]);
    let mut k = 0;
    while k < 5 { assert!(c[k] == if k < hi { w[k] } else { a0[k] }); k += 1; }
    let mut e = a.clone();
    e.as_mut_slice()[0] ^= 1;
    assert!(e[0] == a0[0] ^ 1 && e[1..] == a0[1..]);
    // conversions from slices: Ok iff the length matches, then the same elements
    let n = nd::upto(5);
    let r: Result<Array<u8, U3>, _> = Array::try_from(&a0[..n]);
    assert!(r.is_ok() == (n == 3));
    if let Ok(x) = r { assert!(x.as_slice() == &a0[..3]); }
    let r2: Result<&Array<u8, U3>, _> = <&Array<u8, U3>>::try_from(&a0[..n]);
    assert!(r2.is_ok() == (n == 3));
    let r3: Result<[u8; 3], _> = <[u8; 3]>::try_from(&a0[..n]);
    assert!(r3.is_ok() == (n == 3));
    if let Ok(x) = r3 { assert!(x[..] == a0[..3]); }
}

/// the byte-order conversions against their mathematical definition (digits base 256); loop-free, full domain
#[cfg_attr(kani, kani::proof)]
pub fn shim_bytes_u32_u64() {
    let b4: [u8; 4] = nd::any();
    let v_le = (b4[0] as u32) | (b4[1] as u32) << 8 | (b4[2] as u32) << 16 | (b4[3] as u32) << 24;
    let v_be = (b4[3] as u32) | (b4[2] as u32) << 8 | (b4[1] as u32) << 16 | (b4[0] as u32) << 24;
    assert!(u32::from_le_bytes(b4) == v_le && u32::from_be_bytes(b4) == v_be);
    assert!(v_le.to_le_bytes() == b4 && v_be.to_be_bytes() == b4);
    assert!(u32::from_ne_bytes(b4).to_ne_bytes() == b4);
    let x: u32 = nd::any();
    assert!(u32::from_le_bytes(x.to_le_bytes()) == x && u32::from_be_bytes(x.to_be_bytes()) == x && u32::from_ne_bytes(x.to_ne_bytes()) == x);
    let b8: [u8; 8] = nd::any();
    let lo = (b8[0] as u64) | (b8[1] as u64) << 8 | (b8[2] as u64) << 16 | (b8[3] as u64) << 24;
    let hi = (b8[4] as u64) | (b8[5] as u64) << 8 | (b8[6] as u64) << 16 | (b8[7] as u64) << 24;
    assert!(u64::from_le_bytes(b8) == lo | hi << 32);
    let rlo = (b8[7] as u64) | (b8[6] as u64) << 8 | (b8[5] as u64) << 16 | (b8[4] as u64) << 24;
    let rhi = (b8[3] as u64) | (b8[2] as u64) << 8 | (b8[1] as u64) << 16 | (b8[0] as u64) << 24;
    assert!(u64::from_be_bytes(b8) == rlo | rhi << 32);
    assert!((lo | hi << 32).to_le_bytes() == b8 && (rlo | rhi << 32).to_be_bytes() == b8);
    assert!(u64::from_ne_bytes(b8).to_ne_bytes() == b8);
}

#[cfg_attr(kani, kani::proof)]
pub fn shim_bytes_u128() {
    let b: [u8; 16] = nd::any();
    let mut le: u128 = 0;
    let mut be: u128 = 0;
    let mut k = 0;
    while k < 16 { le |= (b[k] as u128) << (8 * k); be |= (b[k] as u128) << (8 * (15 - k)); k += 1; }
    assert!(u128::from_le_bytes(b) == le && u128::from_be_bytes(b) == be);
    assert!(le.to_le_bytes() == b && be.to_be_bytes() == b);
    assert!(u128::from_ne_bytes(b).to_ne_bytes() == b);
}

/// core helpers with assumed specifications: split_last_mut, mem::replace, div_ceil, checked_sub, wrapping arithmetic
#[cfg_attr(kani, kani::proof)]
#[cfg_attr(kani, kani::unwind(8))]
pub fn shim_core_helpers() {
    let a0: [u8; 4] = nd::any();
    let n = nd::upto(4);
    let mut a = a0;
    match a[..n].split_last_mut() {
        None => assert!(n == 0),
        Some((last, rest)) => {
            assert!(n > 0 && *last == a0[n - 1] && rest.len() == n - 1 && rest == &a0[..n - 1]);
            *last ^= 1;
        }
    }
    if n > 0 { assert!(a[n - 1] == a0[n - 1] ^ 1); }
    let mut x: u8 = nd::any();
    let x0 = x;
    let y: u8 = nd::any();
    let old = core::mem::replace(&mut x, y);
    assert!(old == x0 && x == y);
    let p: usize = nd::any::<u16>() as usize;
    let q: usize = (nd::any::<u8>() as usize) + 1;
    let dc = p.div_ceil(q);
    assert!(dc * q >= p && (dc == 0 || (dc - 1) * q < p));
    let s: usize = nd::any::<u16>() as usize;
    assert!(p.checked_sub(s) == if p >= s { Some(p - s) } else { None });
    let u: u32 = nd::any();
    let v: u32 = nd::any();
    assert!(u.wrapping_add(v) as u64 == (u as u64 + v as u64) % (1u64 << 32));
    assert!(u.wrapping_sub(v) as u64 == (u as u64 + (1u64 << 32) - v as u64) % (1u64 << 32));
    let t: Result<usize, _> = usize::try_from(nd::any::<u64>());
    assert!(t.is_ok());                                    // 64-bit target: u64 always fits (stated in the evidence)
}

/// typenum values used by the units (Unsigned::USIZE / U8) and array lengths
#[cfg_attr(kani, kani::proof)]
pub fn shim_typenum() {
    use cipher::typenum::Unsigned;
    assert!(U1::USIZE == 1 && U2::USIZE == 2 && U4::USIZE == 4 && U8::USIZE == 8 && U16::USIZE == 16 && U32::USIZE == 32);
    assert!(U1::U8 == 1 && U16::U8 == 16 && U255::U8 == 255);
    assert!(<cipher::typenum::Sum<U8, U8> as Unsigned>::USIZE == 16);
    let a: Array<u8, U7> = Default::default();
    assert!(a.len() == 7);
}

/// SeekNum for i32, `into_block_byte` (macro-generated in cipher/src/stream.rs): this Verus leaves the result of a signed
/// `%` unspecified, so the body is `external_body` there and its contract (trait SeekNum: `cut`,
/// `err_only_out_of_counter_range`, no panic) is checked HERE -- BOUNDED stand-in: every i32 position, each of the three
/// counter types of the dependency, block sizes 1, 2, 4, .., 128 (the full (position, block size) domain with a symbolic
/// divisor did not finish under CBMC in 20 minutes: divider against multiplier circuit).
macro_rules! seeknum_i32_into { ($p:expr, $bs:expr, $ct:ty) => {{
    let r = <i32 as cipher::SeekNum>::into_block_byte::<$ct>($p, $bs);
    match r {
        // quotient and remainder are characterised without a division: p = b * bs + y with 0 <= y < bs
        Ok((b, y)) => { if $p >= 0 { assert!(y < $bs); assert!(b <= i32::MAX as $ct); assert!((b as i64) * ($bs as i64) + (y as i64) == $p as i64); } }
        Err(_) => { assert!($p < 0); }       // every non-negative i32 quotient fits u32 / u64 / u128
    }
}}}
macro_rules! seeknum_i32_all { ($p:expr, $bs:expr) => {{ seeknum_i32_into!($p, $bs, u32); seeknum_i32_into!($p, $bs, u64); seeknum_i32_into!($p, $bs, u128); }}}
#[cfg_attr(kani, kani::proof)]
pub fn shim_seeknum_i32_into() {
    let p: i32 = nd::any();
    match nd::upto(7) {
        0 => seeknum_i32_all!(p, 1u8), 1 => seeknum_i32_all!(p, 2u8), 2 => seeknum_i32_all!(p, 4u8), 3 => seeknum_i32_all!(p, 8u8),
        4 => seeknum_i32_all!(p, 16u8), 5 => seeknum_i32_all!(p, 32u8), 6 => seeknum_i32_all!(p, 64u8), _ => seeknum_i32_all!(p, 128u8),
    }
}

/// the assumed integer conversions behind `StreamCipherCounter` (TryFrom / TryInto between the counter types and the
/// SeekNum types) and `i32::from(u8)`: Ok iff the value fits, value preserved; full domain of the 32-bit pairs, loop-free
#[cfg_attr(kani, kani::proof)]
pub fn shim_int_conversions() {
    let a: u32 = nd::any();
    let r: Result<i32, _> = a.try_into();
    assert!(r.is_ok() == (a <= i32::MAX as u32));
    if let Ok(v) = r { assert!(v as i64 == a as i64); }
    let b: i32 = nd::any();
    let r: Result<u32, _> = u32::try_from(b);
    assert!(r.is_ok() == (b >= 0));
    if let Ok(v) = r { assert!(v as i64 == b as i64); }
    let r: Result<u64, _> = u64::try_from(b);
    assert!(r.is_ok() == (b >= 0));
    let r: Result<u128, _> = u128::try_from(b);
    assert!(r.is_ok() == (b >= 0));
    let c: u64 = nd::any();
    let r: Result<u32, _> = c.try_into();
    assert!(r.is_ok() == (c <= u32::MAX as u64));
    if let Ok(v) = r { assert!(v as u64 == c); }
    let r: Result<i32, _> = c.try_into();
    assert!(r.is_ok() == (c <= i32::MAX as u64));
    let d: u128 = nd::any();
    let r: Result<u64, _> = d.try_into();
    assert!(r.is_ok() == (d <= u64::MAX as u128));
    if let Ok(v) = r { assert!(v as u128 == d); }
    let r: Result<u32, _> = d.try_into();
    assert!(r.is_ok() == (d <= u32::MAX as u128));
    let e: u8 = nd::any();
    assert!(i32::from(e) as i64 == e as i64);
}
