//! C16 (clones / determinism), C17 (Debug text, wipe on drop), C01 (round trips through the public API
//! with an invertible cipher).  These harnesses use `format!` / raw memory inspection and are run
//! natively only (random search + replay); they are not Kani proof harnesses.
use crate::ciphers::*;
use crate::nd;
use crate::perm_cipher;
use cipher::consts::*;
use cipher::{BlockModeDecrypt, BlockModeEncrypt, InnerIvInit, IvState, StreamCipher, StreamCipherSeek};

perm_cipher!(P4w2, U4, 4, U2);
perm_cipher!(P8w3, U8, 8, U3);
perm_cipher!(P16w2, U16, 16, U2);

fn fill<const N: usize>() -> [u8; N] { nd::any() }

// ---------------------------------------------------------------- C17: Debug / algorithm name
#[cfg(not(kani))]
macro_rules! debug_const_block {
    ($h:ident, $cipher:ident, $b:expr, $ivn:expr, $ty:ty, $call:ident) => {
        /// two objects of the same type with different key, IV and call history print the same text
        pub fn $h() {
            let c1 = $cipher { k: fill() }; let c2 = $cipher { k: fill() };
            let iv1: [u8; $ivn] = fill(); let iv2: [u8; $ivn] = fill();
            let mut a = <$ty>::inner_iv_init(c1, &iv1.into());
            let b = <$ty>::inner_iv_init(c2, &iv2.into());
            let mut blocks: [cipher::Block<$ty>; 3] = [fill::<$b>().into(), fill::<$b>().into(), fill::<$b>().into()];
            let n = (nd::any::<u8>() % 4) as usize;
            a.$call(&mut blocks[..n]);
            let sa = format!("{:?}", a); let sb = format!("{:?}", b);
            assert!(sa == sb, "Debug text differs between instances of one type");
            assert!(sa.contains("{ ... }"));
        }
    };
}
#[cfg(not(kani))]
macro_rules! debug_const_stream {
    ($h:ident, $cipher:ident, $b:expr, $ty:ty, $core:ty, $max:expr) => {
        pub fn $h() {
            use cipher::StreamCipherSeekCore;
            let c1 = $cipher { k: fill() }; let c2 = $cipher { k: fill() };
            let iv1: [u8; $b] = fill(); let iv2: [u8; $b] = fill();
            let mut a = <$core>::inner_iv_init(c1, &iv1.into());
            let b = <$core>::inner_iv_init(c2, &iv2.into());
            // position: anywhere, biased to the ends of the counter space
            let sel: u8 = nd::any();
            let pos = match sel % 4 { 0 => 0, 1 => $max, 2 => $max - 1, _ => nd::any::<u64>() as _ };
            a.set_block_pos(pos);
            let sa = format!("{:?}", a); let sb = format!("{:?}", b);
            assert!(sa == sb, "Debug text of a stream core depends on position / IV / key");
        }
    };
}
#[cfg(not(kani))]
debug_const_block!(misc_debug_cbc_enc, P4w2, 4, 4, cbc::Encryptor<P4w2>, encrypt_blocks);
#[cfg(not(kani))]
debug_const_block!(misc_debug_cbc_dec, P4w2, 4, 4, cbc::Decryptor<P4w2>, decrypt_blocks);
#[cfg(not(kani))]
debug_const_block!(misc_debug_pcbc_enc, P4w2, 4, 4, pcbc::Encryptor<P4w2>, encrypt_blocks);
#[cfg(not(kani))]
debug_const_block!(misc_debug_pcbc_dec, P4w2, 4, 4, pcbc::Decryptor<P4w2>, decrypt_blocks);
#[cfg(not(kani))]
debug_const_block!(misc_debug_ige_enc, P4w2, 4, 8, ige::Encryptor<P4w2>, encrypt_blocks);
#[cfg(not(kani))]
debug_const_block!(misc_debug_ige_dec, P4w2, 4, 8, ige::Decryptor<P4w2>, decrypt_blocks);
#[cfg(not(kani))]
debug_const_block!(misc_debug_cfb_enc, P4w2, 4, 4, cfb_mode::Encryptor<P4w2>, encrypt_blocks);
#[cfg(not(kani))]
debug_const_block!(misc_debug_cfb_dec, P4w2, 4, 4, cfb_mode::Decryptor<P4w2>, decrypt_blocks);
#[cfg(not(kani))]
debug_const_block!(misc_debug_cfb8_enc, P4w2, 1, 4, cfb8::Encryptor<P4w2>, encrypt_blocks);
#[cfg(not(kani))]
debug_const_block!(misc_debug_cfb8_dec, P4w2, 1, 4, cfb8::Decryptor<P4w2>, decrypt_blocks);
#[cfg(not(kani))]
debug_const_block!(misc_debug_ofb, P4w2, 4, 4, ofb::OfbCore<P4w2>, encrypt_blocks);
#[cfg(not(kani))]
debug_const_stream!(misc_debug_ctr32be, P4w2, 4, ctr::Ctr32BE<P4w2>, ctr::CtrCore<P4w2, ctr::flavors::Ctr32BE>, u32::MAX);
#[cfg(not(kani))]
debug_const_stream!(misc_debug_ctr32le, P8w3, 8, ctr::Ctr32LE<P8w3>, ctr::CtrCore<P8w3, ctr::flavors::Ctr32LE>, u32::MAX);
#[cfg(not(kani))]
debug_const_stream!(misc_debug_ctr64be, P8w3, 8, ctr::Ctr64BE<P8w3>, ctr::CtrCore<P8w3, ctr::flavors::Ctr64BE>, u64::MAX);
#[cfg(not(kani))]
debug_const_stream!(misc_debug_ctr64le, P16w2, 16, ctr::Ctr64LE<P16w2>, ctr::CtrCore<P16w2, ctr::flavors::Ctr64LE>, u64::MAX);
#[cfg(not(kani))]
debug_const_stream!(misc_debug_ctr128be, P16w2, 16, ctr::Ctr128BE<P16w2>, ctr::CtrCore<P16w2, ctr::flavors::Ctr128BE>, u128::MAX);
#[cfg(not(kani))]
debug_const_stream!(misc_debug_ctr128le, P16w2, 16, ctr::Ctr128LE<P16w2>, ctr::CtrCore<P16w2, ctr::flavors::Ctr128LE>, u128::MAX);
#[cfg(not(kani))]
debug_const_stream!(misc_debug_belt, P16w2, 16, belt_ctr::BeltCtr<P16w2>, belt_ctr::BeltCtrCore<P16w2>, u128::MAX);

#[cfg(not(kani))]
pub fn misc_debug_cfbbuf() {
    let mut a = cfb_mode::BufEncryptor::<P4w2>::inner_iv_init(P4w2 { k: fill() }, &fill::<4>().into());
    let b = cfb_mode::BufEncryptor::<P4w2>::inner_iv_init(P4w2 { k: fill() }, &fill::<4>().into());
    let mut d: [u8; 7] = fill(); let n = (nd::any::<u8>() % 8) as usize;
    a.encrypt(&mut d[..n]);
    assert!(format!("{:?}", a) == format!("{:?}", b));
    let mut a = cfb_mode::BufDecryptor::<P4w2>::inner_iv_init(P4w2 { k: fill() }, &fill::<4>().into());
    let b = cfb_mode::BufDecryptor::<P4w2>::inner_iv_init(P4w2 { k: fill() }, &fill::<4>().into());
    a.decrypt(&mut d[..n]);
    assert!(format!("{:?}", a) == format!("{:?}", b));
}

// ---------------------------------------------------------------- C16: clones are independent values
#[cfg(not(kani))]
macro_rules! clone_stream {
    ($h:ident, $cipher:ident, $b:expr, $ty:ty) => {
        /// history h1; clone; h2 on the original, h3 on the clone (interleaved); both must equal fresh
        /// instances replaying h1;h2 and h1;h3 -- bytes and reported positions
        pub fn $h() {
            let c = $cipher { k: fill() };
            let iv: [u8; $b] = fill();
            let mk = || <$ty>::from_core(InnerIvInit::inner_iv_init(c.clone(), &iv.into()));
            let h1 = (nd::any::<u8>() % 40) as usize; let h2 = (nd::any::<u8>() % 40) as usize; let h3 = (nd::any::<u8>() % 40) as usize;
            let data: [u8; 40] = fill();
            let mut a = mk();
            let mut buf1 = data; a.apply_keystream(&mut buf1[..h1]);
            let mut b = a.clone();
            assert!(a.current_pos::<u64>() == b.current_pos::<u64>());
            let mut o2 = data; let mut o3 = data;
            b.apply_keystream(&mut o3[..h3 / 2]);
            a.apply_keystream(&mut o2[..h2]);
            b.apply_keystream(&mut o3[h3 / 2..h3]);
            let mut fa = mk(); let mut t = data; fa.apply_keystream(&mut t[..h1]);
            let mut e2 = data; fa.apply_keystream(&mut e2[..h2]);
            let mut fb = mk(); let mut t = data; fb.apply_keystream(&mut t[..h1]);
            let mut e3 = data; fb.apply_keystream(&mut e3[..h3 / 2]); fb.apply_keystream(&mut e3[h3 / 2..h3]);
            assert!(o2 == e2 && o3 == e3, "clone / original diverged from independent replays");
            assert!(a.current_pos::<u64>() == fa.current_pos::<u64>() && b.current_pos::<u64>() == fb.current_pos::<u64>());
            // seeking the clone back to an absolute offset gives the same bytes as on a fresh instance
            let p = (nd::any::<u8>() % 64) as u64;
            b.seek(p); fb.seek(p);
            let mut x = data; let mut y = data; b.apply_keystream(&mut x[..8]); fb.apply_keystream(&mut y[..8]);
            assert!(x == y);
        }
    };
}
#[cfg(not(kani))]
macro_rules! clone_block {
    ($h:ident, $cipher:ident, $b:expr, $ivn:expr, $ty:ty, $call:ident) => {
        pub fn $h() {
            let c = $cipher { k: fill() };
            let iv: [u8; $ivn] = fill();
            let mk = || <$ty>::inner_iv_init(c.clone(), &iv.into());
            let blocks: [cipher::Block<$ty>; 6] = [fill::<$b>().into(), fill::<$b>().into(), fill::<$b>().into(), fill::<$b>().into(), fill::<$b>().into(), fill::<$b>().into()];
            let h1 = (nd::any::<u8>() % 3) as usize; let h2 = (nd::any::<u8>() % 4) as usize; let h3 = (nd::any::<u8>() % 4) as usize;
            let mut a = mk();
            let mut t = blocks.clone(); a.$call(&mut t[..h1]);
            let mut b = a.clone();
            let mut o2 = blocks.clone(); let mut o3 = blocks.clone();
            b.$call(&mut o3[h1..h1 + h3 / 2]);
            a.$call(&mut o2[h1..h1 + h2]);
            b.$call(&mut o3[h1 + h3 / 2..h1 + h3]);
            let mut fa = mk(); let mut e2 = blocks.clone(); fa.$call(&mut e2[..h1]); fa.$call(&mut e2[h1..h1 + h2]);
            let mut fb = mk(); let mut e3 = blocks.clone(); fb.$call(&mut e3[..h1]); fb.$call(&mut e3[h1..h1 + h3]);
            assert!(o2[h1..] == e2[h1..] && o3[h1..] == e3[h1..], "clone / original diverged from independent replays");
        }
    };
}
#[cfg(not(kani))]
clone_stream!(misc_clone_ctr32be, P4w2, 4, ctr::Ctr32BE<P4w2>);
#[cfg(not(kani))]
clone_stream!(misc_clone_ctr64le, P8w3, 8, ctr::Ctr64LE<P8w3>);
#[cfg(not(kani))]
clone_stream!(misc_clone_ctr128be, P16w2, 16, ctr::Ctr128BE<P16w2>);
#[cfg(not(kani))]
clone_block!(misc_clone_cbc_enc, P4w2, 4, 4, cbc::Encryptor<P4w2>, encrypt_blocks);
#[cfg(not(kani))]
clone_block!(misc_clone_cbc_dec, P4w2, 4, 4, cbc::Decryptor<P4w2>, decrypt_blocks);
#[cfg(not(kani))]
clone_block!(misc_clone_pcbc_enc, P8w3, 8, 8, pcbc::Encryptor<P8w3>, encrypt_blocks);
#[cfg(not(kani))]
clone_block!(misc_clone_pcbc_dec, P8w3, 8, 8, pcbc::Decryptor<P8w3>, decrypt_blocks);
#[cfg(not(kani))]
clone_block!(misc_clone_ige_enc, P4w2, 4, 8, ige::Encryptor<P4w2>, encrypt_blocks);
#[cfg(not(kani))]
clone_block!(misc_clone_cfb_dec, P4w2, 4, 4, cfb_mode::Decryptor<P4w2>, decrypt_blocks);
#[cfg(not(kani))]
clone_block!(misc_clone_cfb8_enc, P4w2, 1, 4, cfb8::Encryptor<P4w2>, encrypt_blocks);
#[cfg(not(kani))]
clone_block!(misc_clone_ofb, P4w2, 4, 4, ofb::OfbCore<P4w2>, encrypt_blocks);

/// two instances over ciphers of DIFFERENT block sizes used one after the other in one process must
/// not influence each other (hidden shared state, e.g. a function-local static)
#[cfg(not(kani))]
pub fn misc_indep_pcbc_sizes() {
    let order: bool = nd::any();
    let run16 = || { let mut m = pcbc::Encryptor::<P16w2>::inner_iv_init(P16w2 { k: [7; 16] }, &[1u8; 16].into());
                     let mut b = [cipher::Block::<pcbc::Encryptor<P16w2>>::from([9u8; 16])]; m.encrypt_blocks(&mut b); b };
    let k: [u8; 8] = fill(); let iv: [u8; 8] = fill(); let p: [u8; 8] = fill();
    let run8 = || { let c = P8w3 { k }; let mut m = pcbc::Encryptor::<P8w3>::inner_iv_init(c.clone(), &iv.into());
                    let mut b = [cipher::Block::<pcbc::Encryptor<P8w3>>::from(p)]; m.encrypt_blocks(&mut b);
                    let got: [u8; 8] = b[0].clone().into(); assert!(got == c.e(xor(p, iv))); };
    if order { run16(); run8(); } else { run8(); run16(); run8(); }
}
#[cfg(not(kani))]
pub fn misc_indep_cbc_sizes() {
    let run16 = || { let mut m = cbc::Encryptor::<P16w2>::inner_iv_init(P16w2 { k: [7; 16] }, &[1u8; 16].into());
                     let mut b = [cipher::Block::<cbc::Encryptor<P16w2>>::from([9u8; 16])]; m.encrypt_blocks(&mut b); };
    let k: [u8; 8] = fill(); let iv: [u8; 8] = fill(); let p: [u8; 8] = fill();
    let run8 = || { let c = P8w3 { k }; let mut m = cbc::Encryptor::<P8w3>::inner_iv_init(c.clone(), &iv.into());
                    let mut b = [cipher::Block::<cbc::Encryptor<P8w3>>::from(p)]; m.encrypt_blocks(&mut b);
                    let got: [u8; 8] = b[0].clone().into(); assert!(got == c.e(xor(p, iv))); };
    run16(); run8();
}

// ---------------------------------------------------------------- C17: wipe on drop (feature zeroize)
#[cfg(all(not(kani), feature = "zeroize"))]
fn no_window(obj: &[u8], secret: &[u8], what: &str) {
    if secret.len() < 8 { return; }
    let mut i = 0;
    while i + 8 <= secret.len() {
        let w = &secret[i..i + 8];
        // windows with fewer than 4 non-zero bytes are ignored: indistinguishable from small integers such as
        // the byte cursor `pos`, which is not chaining state
        if w.iter().filter(|x| **x != 0).count() < 4 { i += 1; continue; }
        let mut j = 0;
        while j + 8 <= obj.len() { assert!(&obj[j..j + 8] != w, "state bytes survive drop: {}", what); j += 1; }
        i += 1;
    }
}
#[cfg(all(not(kani), feature = "zeroize"))]
macro_rules! drop_wipes {
    ($h:ident, $mk:expr, $drive:expr, $state:expr) => {
        pub fn $h() {
            use core::mem::{ManuallyDrop, size_of_val};
            let mut slot = ManuallyDrop::new($mk);
            $drive(&mut *slot);
            let secret: Vec<u8> = $state(&*slot);
            let size = size_of_val(&*slot);
            let p = &*slot as *const _ as *const u8;
            unsafe { ManuallyDrop::drop(&mut slot); }
            let bytes: Vec<u8> = (0..size).map(|i| unsafe { core::ptr::read_volatile(p.add(i)) }).collect();
            no_window(&bytes, &secret, stringify!($h));
        }
    };
}
#[cfg(all(not(kani), feature = "zeroize"))]
drop_wipes!(misc_drop_cbc_enc, cbc::Encryptor::<P16w2>::inner_iv_init(P16w2 { k: [0; 16] }, &fill::<16>().into()),
    |m: &mut cbc::Encryptor<P16w2>| { let mut b = [fill::<16>().into()]; m.encrypt_blocks(&mut b); },
    |m: &cbc::Encryptor<P16w2>| m.iv_state().to_vec());
#[cfg(all(not(kani), feature = "zeroize"))]
drop_wipes!(misc_drop_cbc_dec, cbc::Decryptor::<P16w2>::inner_iv_init(P16w2 { k: [0; 16] }, &fill::<16>().into()),
    |m: &mut cbc::Decryptor<P16w2>| { let mut b = [fill::<16>().into()]; m.decrypt_blocks(&mut b); },
    |m: &cbc::Decryptor<P16w2>| m.iv_state().to_vec());
#[cfg(all(not(kani), feature = "zeroize"))]
drop_wipes!(misc_drop_pcbc_enc, pcbc::Encryptor::<P16w2>::inner_iv_init(P16w2 { k: [0; 16] }, &fill::<16>().into()),
    |m: &mut pcbc::Encryptor<P16w2>| { let mut b = [fill::<16>().into()]; m.encrypt_blocks(&mut b); },
    |m: &pcbc::Encryptor<P16w2>| m.iv_state().to_vec());
#[cfg(all(not(kani), feature = "zeroize"))]
drop_wipes!(misc_drop_ige_dec, ige::Decryptor::<P16w2>::inner_iv_init(P16w2 { k: [0; 16] }, &fill::<32>().into()),
    |m: &mut ige::Decryptor<P16w2>| { let mut b = [fill::<16>().into()]; m.decrypt_blocks(&mut b); },
    |m: &ige::Decryptor<P16w2>| m.iv_state().to_vec());
#[cfg(all(not(kani), feature = "zeroize"))]
drop_wipes!(misc_drop_cfb_enc, cfb_mode::Encryptor::<P16w2>::inner_iv_init(P16w2 { k: [0; 16] }, &fill::<16>().into()),
    |m: &mut cfb_mode::Encryptor<P16w2>| { let mut b = [fill::<16>().into()]; m.encrypt_blocks(&mut b); },
    |m: &cfb_mode::Encryptor<P16w2>| { let mut v = m.iv_state().to_vec(); let e = P16w2 { k: [0; 16] }.e(m.iv_state().into()); v.extend_from_slice(&e); v });
#[cfg(all(not(kani), feature = "zeroize"))]
drop_wipes!(misc_drop_cfb8_dec, cfb8::Decryptor::<P16w2>::inner_iv_init(P16w2 { k: [0; 16] }, &fill::<16>().into()),
    |m: &mut cfb8::Decryptor<P16w2>| { let mut b = [fill::<1>().into(), fill::<1>().into()]; m.decrypt_blocks(&mut b); },
    |m: &cfb8::Decryptor<P16w2>| m.iv_state().to_vec());
#[cfg(all(not(kani), feature = "zeroize"))]
drop_wipes!(misc_drop_ofb, ofb::OfbCore::<P16w2>::inner_iv_init(P16w2 { k: [0; 16] }, &fill::<16>().into()),
    |m: &mut ofb::OfbCore<P16w2>| { let mut b = [fill::<16>().into()]; m.encrypt_blocks(&mut b); },
    |m: &ofb::OfbCore<P16w2>| m.iv_state().to_vec());
#[cfg(all(not(kani), feature = "zeroize"))]
drop_wipes!(misc_drop_cfbbuf_enc, cfb_mode::BufEncryptor::<P16w2>::inner_iv_init(P16w2 { k: [0; 16] }, &fill::<16>().into()),
    |m: &mut cfb_mode::BufEncryptor<P16w2>| { let mut d: [u8; 40] = fill(); let n = (nd::any::<u8>() % 41) as usize; m.encrypt(&mut d[..n]); },
    |m: &cfb_mode::BufEncryptor<P16w2>| m.get_state().0.to_vec());
#[cfg(all(not(kani), feature = "zeroize"))]
drop_wipes!(misc_drop_cfbbuf_dec, cfb_mode::BufDecryptor::<P16w2>::inner_iv_init(P16w2 { k: [0; 16] }, &fill::<16>().into()),
    |m: &mut cfb_mode::BufDecryptor<P16w2>| { let mut d: [u8; 40] = fill(); let n = (nd::any::<u8>() % 41) as usize; m.decrypt(&mut d[..n]); },
    |m: &cfb_mode::BufDecryptor<P16w2>| m.get_state().0.to_vec());
#[cfg(all(not(kani), feature = "zeroize"))]
drop_wipes!(misc_drop_ctr64be, ctr::CtrCore::<P16w2, ctr::flavors::Ctr64BE>::inner_iv_init(P16w2 { k: [0; 16] }, &fill::<16>().into()),
    |m: &mut ctr::CtrCore<P16w2, ctr::flavors::Ctr64BE>| { use cipher::StreamCipherSeekCore; m.set_block_pos(nd::any::<u64>()); },
    |m: &ctr::CtrCore<P16w2, ctr::flavors::Ctr64BE>| m.iv_state().to_vec());
#[cfg(all(not(kani), feature = "zeroize"))]
drop_wipes!(misc_drop_ctr128le, ctr::CtrCore::<P16w2, ctr::flavors::Ctr128LE>::inner_iv_init(P16w2 { k: [0; 16] }, &fill::<16>().into()),
    |m: &mut ctr::CtrCore<P16w2, ctr::flavors::Ctr128LE>| { use cipher::StreamCipherSeekCore; m.set_block_pos(nd::any::<u128>()); },
    |m: &ctr::CtrCore<P16w2, ctr::flavors::Ctr128LE>| m.iv_state().to_vec());
#[cfg(all(not(kani), feature = "zeroize"))]
drop_wipes!(misc_drop_belt, belt_ctr::BeltCtrCore::<P16w2>::inner_iv_init(P16w2 { k: [0; 16] }, &fill::<16>().into()),
    |m: &mut belt_ctr::BeltCtrCore<P16w2>| { use cipher::StreamCipherSeekCore; m.set_block_pos(nd::any::<u128>()); },
    |m: &belt_ctr::BeltCtrCore<P16w2>| { let mut v = m.iv_state().to_vec(); let e = P16w2 { k: [0; 16] }.e(m.iv_state().into()); v.extend_from_slice(&e); v });

// ---------------------------------------------------------------- C09: exported state resumes; enc/dec agree; public chaining value
#[cfg(not(kani))]
macro_rules! resume_block {
    ($h:ident, $cipher:ident, $b:expr, $ivn:expr, $enc:ty, $dec:ty, $public:expr) => {
        /// encrypt k blocks (in place or buffer to buffer), export, import into a fresh instance, continue:
        /// equals the uninterrupted run; decryptor fed the ciphertext reports the same state; where the
        /// public chaining value is the last $b ciphertext bytes ($public) the exported value equals it
        pub fn $h() {
            let c = $cipher { k: fill() };
            let iv: [u8; $ivn] = fill();
            let data: [cipher::Block<$enc>; 5] = [fill::<$b>().into(), fill::<$b>().into(), fill::<$b>().into(), fill::<$b>().into(), fill::<$b>().into()];
            let k = (nd::any::<u8>() % 6) as usize;
            let b2b: bool = nd::any();
            // uninterrupted
            let mut full = <$enc>::inner_iv_init(c.clone(), &iv.into());
            let mut ct = data.clone(); full.encrypt_blocks(&mut ct);
            // interrupted at block k
            let mut e1 = <$enc>::inner_iv_init(c.clone(), &iv.into());
            let mut ct2 = data.clone();
            if b2b { let mut out = data.clone(); e1.encrypt_blocks_b2b(&data[..k], &mut out[..k]).unwrap(); ct2[..k].clone_from_slice(&out[..k]); }
            else { e1.encrypt_blocks(&mut ct2[..k]); }
            let st = e1.iv_state();
            let mut e2 = <$enc>::inner_iv_init(c.clone(), &st);
            e2.encrypt_blocks(&mut ct2[k..]);
            assert!(ct2 == ct, "resumed encryption differs from the uninterrupted run");
            assert!(e2.iv_state() == full.iv_state());
            // decryptor over the same ciphertext prefix reports the same state
            let mut d1 = <$dec>::inner_iv_init(c.clone(), &iv.into());
            let mut pt = ct.clone();
            if b2b { let mut out = ct.clone(); d1.decrypt_blocks_b2b(&ct[..k], &mut out[..k]).unwrap(); pt[..k].clone_from_slice(&out[..k]); }
            else { d1.decrypt_blocks(&mut pt[..k]); }
            assert!(d1.iv_state() == st, "encryptor and decryptor report different states after corresponding data");
            let mut d2 = <$dec>::inner_iv_init(c.clone(), &d1.iv_state());
            d2.decrypt_blocks(&mut pt[k..]);
            assert!(pt == data, "resumed decryption does not return the plaintext");
            if $public && k > 0 {
                // last $ivn ciphertext bytes
                let mut flat: Vec<u8> = Vec::new();
                for blk in ct[..k].iter() { flat.extend_from_slice(blk); }
                if flat.len() >= $ivn { assert!(&st[..] == &flat[flat.len() - $ivn..], "exported state is not the public chaining value"); }
            }
        }
    };
}
#[cfg(not(kani))]
resume_block!(misc_resume_cbc, P4w2, 4, 4, cbc::Encryptor<P4w2>, cbc::Decryptor<P4w2>, true);
#[cfg(not(kani))]
resume_block!(misc_resume_cbc8, P8w3, 8, 8, cbc::Encryptor<P8w3>, cbc::Decryptor<P8w3>, true);
#[cfg(not(kani))]
resume_block!(misc_resume_pcbc, P4w2, 4, 4, pcbc::Encryptor<P4w2>, pcbc::Decryptor<P4w2>, false);
#[cfg(not(kani))]
resume_block!(misc_resume_ige, P4w2, 4, 8, ige::Encryptor<P4w2>, ige::Decryptor<P4w2>, false);
#[cfg(not(kani))]
resume_block!(misc_resume_cfb, P4w2, 4, 4, cfb_mode::Encryptor<P4w2>, cfb_mode::Decryptor<P4w2>, true);
#[cfg(not(kani))]
resume_block!(misc_resume_cfb8w3, P8w3, 8, 8, cfb_mode::Encryptor<P8w3>, cfb_mode::Decryptor<P8w3>, true);
#[cfg(not(kani))]
resume_block!(misc_resume_cfb8, P4w2, 1, 4, cfb8::Encryptor<P4w2>, cfb8::Decryptor<P4w2>, true);
#[cfg(not(kani))]
resume_block!(misc_resume_ofb, P4w2, 4, 4, ofb::OfbCore<P4w2>, ofb::OfbCore<P4w2>, false);

#[cfg(not(kani))]
macro_rules! resume_stream {
    ($h:ident, $cipher:ident, $b:expr, $ty:ty, $core:ty) => {
        /// keystream of k blocks, export the core's iv_state, fresh instance from it continues the stream
        pub fn $h() {
            let c = $cipher { k: fill() };
            let iv: [u8; $b] = fill();
            let k = (nd::any::<u8>() % 7) as usize;
            let data: [u8; 6 * $b + 3] = fill();
            let mut full = <$ty>::from_core(<$core>::inner_iv_init(c.clone(), &iv.into()));
            let mut exp = data; full.apply_keystream(&mut exp);
            let mut a = <$ty>::from_core(<$core>::inner_iv_init(c.clone(), &iv.into()));
            let mut got = data;
            let cut = (k * $b).min(got.len());
            a.apply_keystream(&mut got[..cut]);
            let st = a.get_core().iv_state();
            let mut b = <$ty>::from_core(<$core>::inner_iv_init(c.clone(), &st));
            b.apply_keystream(&mut got[cut..]);
            assert!(got == exp, "stream resumed from the exported state differs");
        }
    };
}
#[cfg(not(kani))]
resume_stream!(misc_resume_ctr32be, P4w2, 4, ctr::Ctr32BE<P4w2>, ctr::CtrCore<P4w2, ctr::flavors::Ctr32BE>);
#[cfg(not(kani))]
resume_stream!(misc_resume_ctr64le, P8w3, 8, ctr::Ctr64LE<P8w3>, ctr::CtrCore<P8w3, ctr::flavors::Ctr64LE>);
#[cfg(not(kani))]
resume_stream!(misc_resume_ctr128be, P16w2, 16, ctr::Ctr128BE<P16w2>, ctr::CtrCore<P16w2, ctr::flavors::Ctr128BE>);
#[cfg(not(kani))]
resume_stream!(misc_resume_ctr32le, P8w3, 8, ctr::Ctr32LE<P8w3>, ctr::CtrCore<P8w3, ctr::flavors::Ctr32LE>);
#[cfg(not(kani))]
resume_stream!(misc_resume_ctr64be, P8w3, 8, ctr::Ctr64BE<P8w3>, ctr::CtrCore<P8w3, ctr::flavors::Ctr64BE>);
#[cfg(not(kani))]
resume_stream!(misc_resume_ctr128le, P16w2, 16, ctr::Ctr128LE<P16w2>, ctr::CtrCore<P16w2, ctr::flavors::Ctr128LE>);
#[cfg(not(kani))]
resume_stream!(misc_resume_belt, P16w2, 16, belt_ctr::BeltCtr<P16w2>, belt_ctr::BeltCtrCore<P16w2>);
#[cfg(not(kani))]
resume_stream!(misc_resume_ofbks, P4w2, 4, ofb::Ofb<P4w2>, ofb::OfbCore<P4w2>);

/// buffered CFB: (block, position) exported at any byte resumes; equals the block-level / one-shot front-ends
#[cfg(not(kani))]
pub fn misc_resume_cfbbuf() {
    let c = P4w2 { k: fill() };
    let iv: [u8; 4] = fill();
    let data: [u8; 23] = fill();
    let cut = (nd::any::<u8>() % 24) as usize;
    let mut full = cfb_mode::BufEncryptor::<P4w2>::inner_iv_init(c.clone(), &iv.into());
    let mut exp = data; full.encrypt(&mut exp);
    let mut a = cfb_mode::BufEncryptor::<P4w2>::inner_iv_init(c.clone(), &iv.into());
    let mut got = data; a.encrypt(&mut got[..cut]);
    let (siv, spos) = a.get_state();
    let mut b = cfb_mode::BufEncryptor::<P4w2>::from_state(c.clone(), siv, spos);
    b.encrypt(&mut got[cut..]);
    assert!(got == exp);
    // decryptor side and the block-level front-end agree (C14)
    let mut d = cfb_mode::BufDecryptor::<P4w2>::inner_iv_init(c.clone(), &iv.into());
    let mut back = exp; d.decrypt(&mut back[..cut]);
    let (div, dpos) = d.get_state();
    assert!(dpos == spos && div == siv, "buffered encryptor / decryptor report different states");
    let mut d2 = cfb_mode::BufDecryptor::<P4w2>::from_state(c.clone(), div, dpos);
    d2.decrypt(&mut back[cut..]);
    assert!(back == data);
    let mut blk = cfb_mode::Encryptor::<P4w2>::inner_iv_init(c.clone(), &iv.into());
    let mut blocks: [cipher::Block<P4w2>; 5] = core::array::from_fn(|i| { let mut x = [0u8; 4]; x.copy_from_slice(&data[4 * i..4 * i + 4]); x.into() });
    blk.encrypt_blocks(&mut blocks);
    for i in 0..5 { assert!(&blocks[i][..] == &exp[4 * i..4 * i + 4], "buffered CFB differs from block-level CFB"); }
}

// ---------------------------------------------------------------- keystream backends: the parallel entry point called
// directly for every width including 1 (the dependency's own drivers skip `gen_par_ks_blocks` when the width is 1)
#[cfg(not(kani))]
use cipher::{array::Array, crypto_common::BlockSizes, BlockSizeUser, StreamCipherBackend, StreamCipherClosure, StreamCipherCore};
#[cfg(not(kani))]
perm_cipher!(P4w1, U4, 4, U1);
#[cfg(not(kani))]
perm_cipher!(P16w1, U16, 16, U1);
#[cfg(not(kani))]
perm_cipher!(P16w3, U16, 16, U3);
#[cfg(not(kani))]
pub struct KsParEntry<'a, BS: BlockSizes> { pub out: &'a mut [Array<u8, BS>] }
#[cfg(not(kani))]
impl<BS: BlockSizes> BlockSizeUser for KsParEntry<'_, BS> { type BlockSize = BS; }
#[cfg(not(kani))]
impl<BS: BlockSizes> StreamCipherClosure for KsParEntry<'_, BS> {
    fn call<B: StreamCipherBackend<BlockSize = BS>>(self, backend: &mut B) {
        let (chunks, tail) = Array::<Array<u8, BS>, B::ParBlocksSize>::slice_as_chunks_mut(self.out);
        for c in chunks { backend.gen_par_ks_blocks(c); }
        for b in tail { backend.gen_ks_block(b); }
    }
}
#[cfg(not(kani))]
macro_rules! parks {
    ($h:ident, $cipher:ident, $b:expr, $core:ty) => {
        /// n keystream blocks through gen_par_ks_blocks (+ single blocks for the rest) == n single blocks; the
        /// generators are in the same state afterwards
        pub fn $h() {
            let c = $cipher { k: fill() };
            let iv: [u8; $b] = fill();
            let n = (nd::any::<u8>() % 8) as usize;
            let mut a = <$core>::inner_iv_init(c.clone(), &iv.into());
            let mut b = <$core>::inner_iv_init(c.clone(), &iv.into());
            let mut xa: [Array<u8, _>; 8] = Default::default();
            let mut xb: [Array<u8, _>; 8] = Default::default();
            a.process_with_backend(KsParEntry { out: &mut xa[..n] });
            let mut i = 0;
            while i < n { b.write_keystream_block(&mut xb[i]); i += 1; }
            assert!(xa == xb, "keystream through the parallel entry point differs from block-at-a-time keystream");
            a.write_keystream_block(&mut xa[0]);
            b.write_keystream_block(&mut xb[0]);
            assert!(xa[0] == xb[0], "generator state after the parallel entry point differs");
        }
    };
}
#[cfg(not(kani))]
parks!(misc_parks_ctr32be_w1, P4w1, 4, ctr::CtrCore<P4w1, ctr::flavors::Ctr32BE>);
#[cfg(not(kani))]
parks!(misc_parks_ctr32le_w2, P4w2, 4, ctr::CtrCore<P4w2, ctr::flavors::Ctr32LE>);
#[cfg(not(kani))]
parks!(misc_parks_ctr64be_w3, P8w3, 8, ctr::CtrCore<P8w3, ctr::flavors::Ctr64BE>);
#[cfg(not(kani))]
parks!(misc_parks_ctr128le_w1, P16w1, 16, ctr::CtrCore<P16w1, ctr::flavors::Ctr128LE>);
#[cfg(not(kani))]
parks!(misc_parks_ctr128be_w3, P16w3, 16, ctr::CtrCore<P16w3, ctr::flavors::Ctr128BE>);
#[cfg(not(kani))]
parks!(misc_parks_belt_w1, P16w1, 16, belt_ctr::BeltCtrCore<P16w1>);
#[cfg(not(kani))]
parks!(misc_parks_belt_w3, P16w3, 16, belt_ctr::BeltCtrCore<P16w3>);
#[cfg(not(kani))]
parks!(misc_parks_ofb_w1, P4w1, 4, ofb::OfbCore<P4w1>);
#[cfg(not(kani))]
parks!(misc_parks_ofb_w2, P4w2, 4, ofb::OfbCore<P4w2>);

// ---------------------------------------------------------------- C10 / C11: the reported number of remaining blocks is exact at
// block positions anywhere in the counter range (incl. around 2^32, 2^64 and the end), and position read-back is exact
#[cfg(not(kani))]
use cipher::StreamCipherSeekCore;
#[cfg(not(kani))]
macro_rules! remaining {
    ($h:ident, $cipher:ident, $b:expr, $core:ty, $ct:ty, $max:expr) => {
        pub fn $h() {
            let c = $cipher { k: fill() };
            let iv: [u8; $b] = fill();
            let max: u128 = $max;
            let sel = nd::any::<u8>() % 12;
            let d = (nd::any::<u8>() % 4) as u128;
            let pos: u128 = match sel {
                0 => d, 1 => (1u128 << 32) - 1 - d, 2 => (1u128 << 32) + d, 3 => (1u128 << 64) - 1 - d, 4 => (1u128 << 64) + d,
                5 => max - d, 6 => max / 2 + d, 7 => (max >> 1) - d, 8 => ((1u128 << 64) - 1 - d).wrapping_mul(3), _ => nd::any::<u128>(),
            } & max;
            let mut core = <$core>::inner_iv_init(c.clone(), &iv.into());
            core.set_block_pos(pos as $ct);
            assert!(core.get_block_pos() as u128 == pos, "block position read back differs from the one set");
            let left = max - pos;
            match core.remaining_blocks() {
                Some(r) => assert!(r as u128 == left, "remaining_blocks() is not the exact number of blocks left"),
                None => assert!(left > usize::MAX as u128, "remaining_blocks() is None although the number fits"),
            }
            // one more block is available iff something is left; generating it advances the position by one
            if left >= 1 {
                let mut blk = Default::default();
                core.write_keystream_block(&mut blk);
                assert!(core.get_block_pos() as u128 == pos + 1);
            }
        }
    };
}
#[cfg(not(kani))]
remaining!(misc_remaining_ctr32be, P4w2, 4, ctr::CtrCore<P4w2, ctr::flavors::Ctr32BE>, u32, u32::MAX as u128);
#[cfg(not(kani))]
remaining!(misc_remaining_ctr32le, P8w3, 8, ctr::CtrCore<P8w3, ctr::flavors::Ctr32LE>, u32, u32::MAX as u128);
#[cfg(not(kani))]
remaining!(misc_remaining_ctr64be, P8w3, 8, ctr::CtrCore<P8w3, ctr::flavors::Ctr64BE>, u64, u64::MAX as u128);
#[cfg(not(kani))]
remaining!(misc_remaining_ctr64le, P16w2, 16, ctr::CtrCore<P16w2, ctr::flavors::Ctr64LE>, u64, u64::MAX as u128);
#[cfg(not(kani))]
remaining!(misc_remaining_ctr128be, P16w2, 16, ctr::CtrCore<P16w2, ctr::flavors::Ctr128BE>, u128, u128::MAX);
#[cfg(not(kani))]
remaining!(misc_remaining_ctr128le, P16w3, 16, ctr::CtrCore<P16w3, ctr::flavors::Ctr128LE>, u128, u128::MAX);
#[cfg(not(kani))]
remaining!(misc_remaining_belt, P16w2, 16, belt_ctr::BeltCtrCore<P16w2>, u128, u128::MAX);

// ---------------------------------------------------------------- C01 / C13 / C14: the padded front-ends and slice-based construction
// (dependency code driving the repo's block modes): round trip, ciphertext = block-level encryption of the padded
// message, rejection of bad lengths without writing, IV slices of the wrong length
#[cfg(not(kani))]
use cipher::block_padding::{Iso7816, Pkcs7};
#[cfg(not(kani))]
macro_rules! padded {
    ($h:ident, $cipher:ident, $b:expr, $ivn:expr, $enc:ty, $dec:ty, $pad:ty) => {
        pub fn $h() {
            let c = $cipher { k: fill() };
            let iv: [u8; $ivn] = fill();
            let msg: [u8; 3 * $b + 1] = fill();
            let n = (nd::any::<u8>() as usize) % (3 * $b + 2);
            let garbage: [u8; 4 * $b + 1] = fill();
            // encrypt_padded_b2b: Ok iff the output has room for the padded message; nothing is written on Err
            let room = (nd::any::<u8>() as usize) % (4 * $b + 2);
            let padded_len = (n / $b + 1) * $b;
            let mut out = garbage;
            let r = <$enc>::inner_iv_init(c.clone(), &iv.into()).encrypt_padded_b2b::<$pad>(&msg[..n], &mut out[..room]);
            let ct_len = match r {
                Ok(ct) => { assert!(room >= padded_len, "padded encryption succeeded without room for the padding"); assert!(ct.len() == padded_len); ct.len() }
                Err(_) => { assert!(room < padded_len, "padded encryption failed although the buffer is large enough"); assert!(out == garbage, "failed padded encryption wrote to the output"); return; }
            };
            assert!(out[ct_len..] == garbage[ct_len..], "padded encryption wrote beyond the ciphertext");
            // the ciphertext is the block-level encryption of the padded message (same mode object, block API)
            let mut blocks: [cipher::Block<$enc>; 4] = Default::default();
            let mut k = 0;
            while k < n { blocks[k / $b][k % $b] = msg[k]; k += 1; }
            <$pad as cipher::block_padding::Padding<_>>::pad(&mut blocks[n / $b], n % $b);
            let mut e2 = <$enc>::inner_iv_init(c.clone(), &iv.into());
            e2.encrypt_blocks(&mut blocks[..n / $b + 1]);
            let mut k = 0;
            while k < ct_len { assert!(out[k] == blocks[k / $b][k % $b], "padded encryption differs from block encryption of the padded message"); k += 1; }
            // decrypt_padded_b2b inverts it
            let mut back = garbage;
            let pt = <$dec>::inner_iv_init(c.clone(), &iv.into()).decrypt_padded_b2b::<$pad>(&out[..ct_len], &mut back[..ct_len]).expect("valid padded ciphertext rejected");
            assert!(pt == &msg[..n], "padded round trip differs");
            // a ciphertext whose length is not a multiple of the block size is rejected and nothing is written
            let bad = (nd::any::<u8>() as usize) % (4 * $b + 1);
            if bad % $b != 0 {
                let mut o2 = garbage;
                let r2 = <$dec>::inner_iv_init(c.clone(), &iv.into()).decrypt_padded_b2b::<$pad>(&out[..bad], &mut o2[..bad]);
                assert!(r2.is_err(), "padded decryption accepted a length that is not a multiple of the block size");
                assert!(o2 == garbage, "rejected padded decryption wrote to the output");
            }
            // construction from an IV slice: Ok iff the slice has the IV length
            let ivl = (nd::any::<u8>() as usize) % (2 * $ivn + 2);
            let ivs: [u8; 2 * $ivn + 2] = fill();
            assert!(<$enc>::inner_iv_slice_init(c.clone(), &ivs[..ivl]).is_ok() == (ivl == $ivn), "IV slice length check");
            assert!(<$dec>::inner_iv_slice_init(c.clone(), &ivs[..ivl]).is_ok() == (ivl == $ivn), "IV slice length check");
        }
    };
}
#[cfg(not(kani))]
padded!(misc_padded_cbc, P4w2, 4, 4, cbc::Encryptor<P4w2>, cbc::Decryptor<P4w2>, Pkcs7);
#[cfg(not(kani))]
padded!(misc_padded_cbc16, P16w3, 16, 16, cbc::Encryptor<P16w3>, cbc::Decryptor<P16w3>, Iso7816);
#[cfg(not(kani))]
padded!(misc_padded_pcbc, P8w3, 8, 8, pcbc::Encryptor<P8w3>, pcbc::Decryptor<P8w3>, Pkcs7);
#[cfg(not(kani))]
padded!(misc_padded_ige, P4w2, 4, 8, ige::Encryptor<P4w2>, ige::Decryptor<P4w2>, Pkcs7);
#[cfg(not(kani))]
padded!(misc_padded_cfb, P4w1, 4, 4, cfb_mode::Encryptor<P4w1>, cfb_mode::Decryptor<P4w1>, Iso7816);
#[cfg(not(kani))]
padded!(misc_padded_ofb, P8w3, 8, 8, ofb::OfbCore<P8w3>, ofb::OfbCore<P8w3>, Pkcs7);

// clones of every remaining Clone type, taken after a random history incl. mid-block positions of the buffered types
#[cfg(not(kani))]
macro_rules! clone_bytes {
    ($h:ident, $cipher:ident, $b:expr, $ty:ty, $call:ident) => {
        pub fn $h() {
            let c = $cipher { k: fill() };
            let iv: [u8; $b] = fill();
            let mk = || <$ty>::inner_iv_init(c.clone(), &iv.into());
            let data: [u8; 5 * $b + 3] = fill();
            let h1 = (nd::any::<u8>() as usize) % (2 * $b + 2);
            let h2 = (nd::any::<u8>() as usize) % (2 * $b + 1);
            let h3 = (nd::any::<u8>() as usize) % (2 * $b + 1);
            let mut a = mk();
            let mut t = data; a.$call(&mut t[..h1]);
            let mut b = a.clone();
            let mut o2 = data; let mut o3 = data;
            b.$call(&mut o3[h1..h1 + h3 / 2]);
            a.$call(&mut o2[h1..h1 + h2]);
            b.$call(&mut o3[h1 + h3 / 2..h1 + h3]);
            let mut fa = mk(); let mut e2 = data; fa.$call(&mut e2[..h1]); fa.$call(&mut e2[h1..h1 + h2]);
            let mut fb = mk(); let mut e3 = data; fb.$call(&mut e3[..h1]); fb.$call(&mut e3[h1..h1 + h3]);
            assert!(o2[h1..] == e2[h1..] && o3[h1..] == e3[h1..], "clone / original diverged from independent replays");
        }
    };
}
#[cfg(not(kani))]
clone_bytes!(misc_clone_cfbbuf_enc, P4w2, 4, cfb_mode::BufEncryptor<P4w2>, encrypt);
#[cfg(not(kani))]
clone_bytes!(misc_clone_cfbbuf_dec, P8w3, 8, cfb_mode::BufDecryptor<P8w3>, decrypt);
#[cfg(not(kani))]
clone_block!(misc_clone_ige_dec, P4w2, 4, 8, ige::Decryptor<P4w2>, decrypt_blocks);
#[cfg(not(kani))]
clone_block!(misc_clone_cfb_enc, P4w2, 4, 4, cfb_mode::Encryptor<P4w2>, encrypt_blocks);
#[cfg(not(kani))]
clone_block!(misc_clone_cfb8_dec, P4w2, 1, 4, cfb8::Decryptor<P4w2>, decrypt_blocks);
#[cfg(not(kani))]
clone_stream!(misc_clone_ctr32le, P4w2, 4, ctr::Ctr32LE<P4w2>);
#[cfg(not(kani))]
clone_stream!(misc_clone_ctr64be, P8w3, 8, ctr::Ctr64BE<P8w3>);
#[cfg(not(kani))]
clone_stream!(misc_clone_ctr128le, P16w2, 16, ctr::Ctr128LE<P16w2>);

// ---------------------------------------------------------------- C06: BelT-CTR keystream from the definition, with the initial
// counter s0 = le128(E(IV)) placed at limb / wrap boundaries (IV = D(le128(s0)) with the invertible toy cipher):
// block i (1-based) is E(le128((s0 + i) mod 2^128)); through the parallel entry point and block at a time
#[cfg(not(kani))]
macro_rules! beltdef {
    ($h:ident, $cipher:ident) => {
        pub fn $h() {
            let c = $cipher { k: fill() };
            let d = (nd::any::<u8>() % 9) as u128;
            let s0: u128 = match nd::any::<u8>() % 7 {
                0 => (1u128 << 64) - d, 1 => u128::MAX - d, 2 => (1u128 << 32) - d, 3 => ((nd::any::<u64>() as u128) << 64) | (u64::MAX as u128 - d),
                4 => d, 5 => (1u128 << 96) - d, _ => nd::any::<u128>(),
            };
            let iv = c.d(s0.to_le_bytes());
            let n = (nd::any::<u8>() % 9) as usize;
            let skip = (nd::any::<u8>() % 4) as usize;
            let mut core = belt_ctr::BeltCtrCore::<$cipher>::inner_iv_init(c.clone(), &iv.into());
            let mut one: Array<u8, U16> = Default::default();
            let mut k = 0;
            while k < skip { core.write_keystream_block(&mut one); assert!(one == Array::<u8, U16>::from(c.e(s0.wrapping_add(k as u128 + 1).to_le_bytes())), "BelT-CTR single block differs from E(le128(s0 + i))"); k += 1; }
            let mut xs: [Array<u8, U16>; 8] = Default::default();
            core.process_with_backend(KsParEntry { out: &mut xs[..n.min(8)] });
            let mut i = 0;
            while i < n.min(8) {
                let want = c.e(s0.wrapping_add((skip + i) as u128 + 1).to_le_bytes());
                assert!(xs[i] == Array::<u8, U16>::from(want), "BelT-CTR keystream block differs from E(le128(s0 + i))");
                i += 1;
            }
            assert!(core.get_block_pos() == (skip + n.min(8)) as u128, "BelT-CTR block position differs from the number of blocks produced");
        }
    };
}
#[cfg(not(kani))]
beltdef!(misc_beltdef_w1, P16w1);
#[cfg(not(kani))]
beltdef!(misc_beltdef_w2, P16w2);
#[cfg(not(kani))]
beltdef!(misc_beltdef_w3, P16w3);

// ---------------------------------------------------------------- C17 on the public byte-level types (the dependency's buffering
// wrapper around the repo cores): Debug text after the same history under two different keys / IVs
#[cfg(not(kani))]
macro_rules! debug_wrapper {
    ($h:ident, $cipher:ident, $b:expr, $ty:ty, $core:ty) => {
        pub fn $h() {
            let c1 = $cipher { k: fill() }; let c2 = $cipher { k: fill() };
            let iv1: [u8; $b] = fill(); let iv2: [u8; $b] = fill();
            let mut a = <$ty>::from_core(<$core>::inner_iv_init(c1, &iv1.into()));
            let mut b = <$ty>::from_core(<$core>::inner_iv_init(c2, &iv2.into()));
            let n = (nd::any::<u8>() as usize) % (2 * $b + 1);
            let mut d1 = [0u8; 2 * $b]; let mut d2 = [0u8; 2 * $b];
            a.apply_keystream(&mut d1[..n]); b.apply_keystream(&mut d2[..n]);
            let sa = format!("{:?}", a); let sb = format!("{:?}", b);
            assert!(sa == sb, "Debug text of a byte-level stream cipher depends on key / IV / position: it prints the unused keystream bytes of the current block");
        }
    };
}
#[cfg(not(kani))]
debug_wrapper!(misc_wdebug_ctr32be, P4w2, 4, ctr::Ctr32BE<P4w2>, ctr::CtrCore<P4w2, ctr::flavors::Ctr32BE>);
#[cfg(not(kani))]
debug_wrapper!(misc_wdebug_ofb, P4w2, 4, ofb::Ofb<P4w2>, ofb::OfbCore<P4w2>);
#[cfg(not(kani))]
debug_wrapper!(misc_wdebug_belt, P16w2, 16, belt_ctr::BeltCtr<P16w2>, belt_ctr::BeltCtrCore<P16w2>);

// ---------------------------------------------------------------- C13 / C10: seeking with a signed position type
#[cfg(not(kani))]
pub fn misc_seekneg_ctr32be() {
    let c = P4w2 { k: fill() };
    let iv: [u8; 4] = fill();
    let mut a = ctr::Ctr32BE::<P4w2>::from_core(ctr::CtrCore::<P4w2, ctr::flavors::Ctr32BE>::inner_iv_init(c, &iv.into()));
    let p: i32 = nd::any::<u32>() as i32;
    // try_seek is documented to report positions it cannot reach as an error; it must not panic
    let r = a.try_seek(p);
    if p >= 0 { assert!(r.is_ok()); assert!(a.try_current_pos::<i32>().ok() == Some(p)); }
}
