//! Block-mode harnesses: the real public API of each mode over a LogCipher, compared with the
//! recurrence evaluated over the cipher log (inputs seen by the cipher, outputs it chose).
use crate::ciphers::*;
use crate::log_cipher;
use crate::nd;
use cipher::consts::*;
use cipher::{BlockModeDecrypt, BlockModeEncrypt, InnerIvInit, IvState};

// expected behaviour, written from the property statements (C02/C03); `xs`/`ys` = cipher log
pub fn m_cbc_enc<const N: usize, const B: usize>(iv: [u8; B], p: [[u8; B]; N], xs: &[[u8; B]], ys: &[[u8; B]]) -> ([[u8; B]; N], [u8; B]) {
    let mut prev = iv; let mut out = [[0u8; B]; N];
    let mut i = 0;
    while i < N { assert!(xs[i] == xor(p[i], prev)); out[i] = ys[i]; prev = out[i]; i += 1; }
    (out, prev)
}
pub fn m_cbc_dec<const N: usize, const B: usize>(iv: [u8; B], c: [[u8; B]; N], xs: &[[u8; B]], ys: &[[u8; B]]) -> ([[u8; B]; N], [u8; B]) {
    let mut prev = iv; let mut out = [[0u8; B]; N];
    let mut i = 0;
    while i < N { assert!(xs[i] == c[i]); out[i] = xor(ys[i], prev); prev = c[i]; i += 1; }
    (out, prev)
}
pub fn m_pcbc_enc<const N: usize, const B: usize>(iv: [u8; B], p: [[u8; B]; N], xs: &[[u8; B]], ys: &[[u8; B]]) -> ([[u8; B]; N], [u8; B]) {
    let mut s = iv; let mut out = [[0u8; B]; N];
    let mut i = 0;
    while i < N { assert!(xs[i] == xor(p[i], s)); out[i] = ys[i]; s = xor(p[i], out[i]); i += 1; }
    (out, s)
}
pub fn m_pcbc_dec<const N: usize, const B: usize>(iv: [u8; B], c: [[u8; B]; N], xs: &[[u8; B]], ys: &[[u8; B]]) -> ([[u8; B]; N], [u8; B]) {
    let mut s = iv; let mut out = [[0u8; B]; N];
    let mut i = 0;
    while i < N { assert!(xs[i] == c[i]); out[i] = xor(ys[i], s); s = xor(out[i], c[i]); i += 1; }
    (out, s)
}
pub fn m_cfb_enc<const N: usize, const B: usize>(iv: [u8; B], p: [[u8; B]; N], xs: &[[u8; B]], ys: &[[u8; B]]) -> ([[u8; B]; N], [u8; B]) {
    // cipher call 0 = E(IV) at construction; call i+1 = E(C_i)
    assert!(xs[0] == iv);
    let mut ks = ys[0]; let mut out = [[0u8; B]; N]; let mut last = iv;
    let mut i = 0;
    while i < N { out[i] = xor(p[i], ks); assert!(xs[i + 1] == out[i]); ks = ys[i + 1]; last = out[i]; i += 1; }
    (out, last)
}
pub fn m_cfb_dec<const N: usize, const B: usize>(iv: [u8; B], c: [[u8; B]; N], xs: &[[u8; B]], ys: &[[u8; B]]) -> ([[u8; B]; N], [u8; B]) {
    assert!(xs[0] == iv);
    let mut ks = ys[0]; let mut out = [[0u8; B]; N]; let mut last = iv;
    let mut i = 0;
    while i < N { out[i] = xor(c[i], ks); assert!(xs[i + 1] == c[i]); ks = ys[i + 1]; last = c[i]; i += 1; }
    (out, last)
}
pub fn m_ofb<const N: usize, const B: usize>(iv: [u8; B], p: [[u8; B]; N], xs: &[[u8; B]], ys: &[[u8; B]]) -> ([[u8; B]; N], [u8; B]) {
    let mut o = iv; let mut out = [[0u8; B]; N];
    let mut i = 0;
    while i < N { assert!(xs[i] == o); o = ys[i]; out[i] = xor(p[i], o); i += 1; }
    (out, o)
}

/// $mode: mode type over &$cipher; $call/$call_b2b: API methods; $model: expected behaviour;
/// $ncalls: cipher calls expected for N blocks; $encdir: expected cipher direction.
/// The message is processed as two calls split at $split, in place or buffer to buffer ($b2b).
#[macro_export]
macro_rules! block_mode_harness {
    ($h:ident, $unw:expr, $split:expr, $b2b:expr, $cipher:ident, $b:expr, $db:expr, $ivn:expr, $n:expr, $mode:ty, $call:ident, $call_b2b:ident, $model:ident, $ncalls:expr, $encdir:expr, $state:expr) => {
        #[cfg_attr(kani, kani::proof)]
        #[cfg_attr(kani, kani::unwind($unw))]
        pub fn $h() {
            let c = $cipher::new(nd::any());
            let iv: [u8; $ivn] = nd::any();
            let data: [[u8; $db]; $n] = nd::any();
            let garbage: [[u8; $db]; $n] = nd::any();
            let mut m = <$mode>::inner_iv_init(&c, &iv.into());
            let split: usize = $split;
            let b2b: bool = $b2b;
            let mut buf: [Block<$mode>; $n] = data.map(|x| x.into());
            let mut out: [Block<$mode>; $n] = garbage.map(|x| x.into());
            if b2b {
                m.$call_b2b(&buf[..split], &mut out[..split]).unwrap();
                m.$call_b2b(&buf[split..], &mut out[split..]).unwrap();
            } else {
                m.$call(&mut buf[..split]);
                m.$call(&mut buf[split..]);
                out = buf.clone();
            }
            let xs = c.xs.get();
            let (exp, st) = $model(iv, data, &xs, &c.ys);
            let mut i = 0;
            while i < $n {
                let got: [u8; $db] = out[i].clone().into();
                assert!(got == exp[i]);
                if b2b { let keep: [u8; $db] = buf[i].clone().into(); assert!(keep == data[i]); }
                i += 1;
            }
            assert!(c.n.get() == $ncalls);
            let e = c.enc.get();
            let mut k = 0;
            while k < $ncalls { assert!(e[k] == $encdir); k += 1; }
            if $state {
                let s: [u8; $ivn] = m.iv_state().into();
                assert!(s == st);
            }
        }
    };
}

log_cipher!(L2w2, U2, 2, U2, 5);
log_cipher!(L3w3, U3, 3, U3, 7);
log_cipher!(L2w1, U2, 2, U1, 5);
log_cipher!(L1w2, U1, 1, U2, 6);

// smallest instances (quick tier): 1 block, then 2 blocks (= one parallel chunk of width 2)
block_mode_harness!(cbc_enc_b2w2_n3_ip, 6, 1, false, L2w2, 2, 2, 2, 3, cbc::Encryptor<&L2w2>, encrypt_blocks, encrypt_blocks_b2b, m_cbc_enc, 3, true, true);
block_mode_harness!(cbc_dec_b2w2_n3_ip, 6, 1, false, L2w2, 2, 2, 2, 3, cbc::Decryptor<&L2w2>, decrypt_blocks, decrypt_blocks_b2b, m_cbc_dec, 3, false, true);
block_mode_harness!(cbc_dec_b2w2_n3_b2b, 6, 1, true, L2w2, 2, 2, 2, 3, cbc::Decryptor<&L2w2>, decrypt_blocks, decrypt_blocks_b2b, m_cbc_dec, 3, false, true);
block_mode_harness!(pcbc_enc_b2w2_n3_ip, 6, 1, false, L2w2, 2, 2, 2, 3, pcbc::Encryptor<&L2w2>, encrypt_blocks, encrypt_blocks_b2b, m_pcbc_enc, 3, true, true);
block_mode_harness!(pcbc_dec_b2w2_n3_b2b, 6, 1, true, L2w2, 2, 2, 2, 3, pcbc::Decryptor<&L2w2>, decrypt_blocks, decrypt_blocks_b2b, m_pcbc_dec, 3, false, true);
block_mode_harness!(cfb_enc_b2w2_n3_b2b, 6, 1, true, L2w2, 2, 2, 2, 3, cfb_mode::Encryptor<&L2w2>, encrypt_blocks, encrypt_blocks_b2b, m_cfb_enc, 4, true, false);
block_mode_harness!(cfb_dec_b2w2_n3_ip, 6, 1, false, L2w2, 2, 2, 2, 3, cfb_mode::Decryptor<&L2w2>, decrypt_blocks, decrypt_blocks_b2b, m_cfb_dec, 4, true, false);
block_mode_harness!(cfb_dec_b2w2_n3_b2b, 6, 1, true, L2w2, 2, 2, 2, 3, cfb_mode::Decryptor<&L2w2>, decrypt_blocks, decrypt_blocks_b2b, m_cfb_dec, 4, true, false);
block_mode_harness!(ofb_enc_b2w2_n3_b2b, 6, 1, true, L2w2, 2, 2, 2, 3, ofb::OfbCore<&L2w2>, encrypt_blocks, encrypt_blocks_b2b, m_ofb, 3, true, true);
block_mode_harness!(ofb_dec_b2w2_n3_ip, 6, 1, false, L2w2, 2, 2, 2, 3, ofb::OfbCore<&L2w2>, decrypt_blocks, decrypt_blocks_b2b, m_ofb, 3, true, true);

// ---- IGE (double-length IV = C_0 || P_0) and CFB-8 (mode block = 1 byte, register = cipher block)
pub fn m_ige_enc<const N: usize, const B: usize, const B2: usize>(iv: [u8; B2], p: [[u8; B]; N], xs: &[[u8; B]], ys: &[[u8; B]]) -> ([[u8; B]; N], [u8; B2]) {
    let mut c_prev = [0u8; B]; let mut p_prev = [0u8; B];
    let mut j = 0; while j < B { c_prev[j] = iv[j]; p_prev[j] = iv[B + j]; j += 1; }
    let mut out = [[0u8; B]; N];
    let mut i = 0;
    while i < N { assert!(xs[i] == xor(p[i], c_prev)); out[i] = xor(ys[i], p_prev); c_prev = out[i]; p_prev = p[i]; i += 1; }
    let mut st = [0u8; B2]; let mut j = 0; while j < B { st[j] = c_prev[j]; st[B + j] = p_prev[j]; j += 1; }
    (out, st)
}
pub fn m_ige_dec<const N: usize, const B: usize, const B2: usize>(iv: [u8; B2], c: [[u8; B]; N], xs: &[[u8; B]], ys: &[[u8; B]]) -> ([[u8; B]; N], [u8; B2]) {
    let mut c_prev = [0u8; B]; let mut p_prev = [0u8; B];
    let mut j = 0; while j < B { c_prev[j] = iv[j]; p_prev[j] = iv[B + j]; j += 1; }
    let mut out = [[0u8; B]; N];
    let mut i = 0;
    while i < N { assert!(xs[i] == xor(c[i], p_prev)); out[i] = xor(ys[i], c_prev); c_prev = c[i]; p_prev = out[i]; i += 1; }
    let mut st = [0u8; B2]; let mut j = 0; while j < B { st[j] = c_prev[j]; st[B + j] = p_prev[j]; j += 1; }
    (out, st)
}
pub fn m_cfb8_enc<const N: usize, const B: usize>(iv: [u8; B], p: [[u8; 1]; N], xs: &[[u8; B]], ys: &[[u8; B]]) -> ([[u8; 1]; N], [u8; B]) {
    let mut s = iv; let mut out = [[0u8; 1]; N];
    let mut i = 0;
    while i < N {
        assert!(xs[i] == s);
        let c = p[i][0] ^ ys[i][0];
        out[i] = [c];
        let mut j = 0; while j + 1 < B { s[j] = s[j + 1]; j += 1; }
        s[B - 1] = c;
        i += 1;
    }
    (out, s)
}
pub fn m_cfb8_dec<const N: usize, const B: usize>(iv: [u8; B], c: [[u8; 1]; N], xs: &[[u8; B]], ys: &[[u8; B]]) -> ([[u8; 1]; N], [u8; B]) {
    let mut s = iv; let mut out = [[0u8; 1]; N];
    let mut i = 0;
    while i < N {
        assert!(xs[i] == s);
        out[i] = [c[i][0] ^ ys[i][0]];
        let mut j = 0; while j + 1 < B { s[j] = s[j + 1]; j += 1; }
        s[B - 1] = c[i][0];
        i += 1;
    }
    (out, s)
}
log_cipher!(L3w2, U3, 3, U2, 6);
log_cipher!(L1w3, U1, 1, U3, 6);
block_mode_harness!(ige_enc_b2w2_n3_b2b, 6, 1, true, L2w2, 2, 2, 4, 3, ige::Encryptor<&L2w2>, encrypt_blocks, encrypt_blocks_b2b, m_ige_enc, 3, true, true);
block_mode_harness!(ige_dec_b2w2_n3_ip, 6, 1, false, L2w2, 2, 2, 4, 3, ige::Decryptor<&L2w2>, decrypt_blocks, decrypt_blocks_b2b, m_ige_dec, 3, false, true);
block_mode_harness!(ige_dec_b3w2_n3_b2b, 8, 1, true, L3w2, 3, 3, 6, 3, ige::Decryptor<&L3w2>, decrypt_blocks, decrypt_blocks_b2b, m_ige_dec, 3, false, true);
block_mode_harness!(cfb8_enc_b2w2_n4_b2b, 7, 1, true, L2w2, 2, 1, 2, 4, cfb8::Encryptor<&L2w2>, encrypt_blocks, encrypt_blocks_b2b, m_cfb8_enc, 4, true, true);
block_mode_harness!(cfb8_dec_b2w2_n4_ip, 7, 1, false, L2w2, 2, 1, 2, 4, cfb8::Decryptor<&L2w2>, decrypt_blocks, decrypt_blocks_b2b, m_cfb8_dec, 4, true, true);
block_mode_harness!(cfb8_dec_b3w2_n4_b2b, 8, 1, true, L3w2, 3, 1, 3, 4, cfb8::Decryptor<&L3w2>, decrypt_blocks, decrypt_blocks_b2b, m_cfb8_dec, 4, true, true);
// other shapes: odd width, 3-byte blocks, 1-byte blocks (thorough tier / native search)
block_mode_harness!(cbc_dec_b3w3_n5_b2b, 9, 1, true, L3w3, 3, 3, 3, 5, cbc::Decryptor<&L3w3>, decrypt_blocks, decrypt_blocks_b2b, m_cbc_dec, 5, false, true);
block_mode_harness!(cbc_dec_b3w3_n5_ip, 9, 2, false, L3w3, 3, 3, 3, 5, cbc::Decryptor<&L3w3>, decrypt_blocks, decrypt_blocks_b2b, m_cbc_dec, 5, false, true);
block_mode_harness!(cbc_enc_b3w3_n4_b2b, 9, 1, true, L3w3, 3, 3, 3, 4, cbc::Encryptor<&L3w3>, encrypt_blocks, encrypt_blocks_b2b, m_cbc_enc, 4, true, true);
block_mode_harness!(cbc_dec_b1w3_n5_b2b, 9, 1, true, L1w3, 1, 1, 1, 5, cbc::Decryptor<&L1w3>, decrypt_blocks, decrypt_blocks_b2b, m_cbc_dec, 5, false, true);
block_mode_harness!(pcbc_dec_b3w3_n4_b2b, 9, 1, true, L3w3, 3, 3, 3, 4, pcbc::Decryptor<&L3w3>, decrypt_blocks, decrypt_blocks_b2b, m_pcbc_dec, 4, false, true);
block_mode_harness!(pcbc_enc_b3w3_n4_b2b, 9, 1, true, L3w3, 3, 3, 3, 4, pcbc::Encryptor<&L3w3>, encrypt_blocks, encrypt_blocks_b2b, m_pcbc_enc, 4, true, true);
block_mode_harness!(cfb_dec_b3w3_n5_b2b, 9, 1, true, L3w3, 3, 3, 3, 5, cfb_mode::Decryptor<&L3w3>, decrypt_blocks, decrypt_blocks_b2b, m_cfb_dec, 6, true, false);
block_mode_harness!(cfb_dec_b3w3_n5_ip, 9, 2, false, L3w3, 3, 3, 3, 5, cfb_mode::Decryptor<&L3w3>, decrypt_blocks, decrypt_blocks_b2b, m_cfb_dec, 6, true, false);
block_mode_harness!(cfb_enc_b3w3_n4_ip, 9, 1, false, L3w3, 3, 3, 3, 4, cfb_mode::Encryptor<&L3w3>, encrypt_blocks, encrypt_blocks_b2b, m_cfb_enc, 5, true, false);
block_mode_harness!(ofb_enc_b3w3_n4_ip, 9, 1, false, L3w3, 3, 3, 3, 4, ofb::OfbCore<&L3w3>, encrypt_blocks, encrypt_blocks_b2b, m_ofb, 4, true, true);

// ---- the backend's parallel entry point called directly, for EVERY width including 1 (the stock block API of the
// dependency skips `*_par_blocks` when the width is 1, but `*_with_backend` hands the backend to any caller's closure)
use cipher::array::Array;
use cipher::crypto_common::BlockSizes;
use cipher::inout::{InOutBuf, NotEqualError};
use cipher::{BlockModeDecBackend, BlockModeDecClosure, BlockModeEncBackend, BlockModeEncClosure, BlockSizeUser};

pub struct ParEntry<'i, 'o, BS: BlockSizes> { pub blocks: InOutBuf<'i, 'o, Array<u8, BS>> }
impl<BS: BlockSizes> BlockSizeUser for ParEntry<'_, '_, BS> { type BlockSize = BS; }
impl<BS: BlockSizes> BlockModeDecClosure for ParEntry<'_, '_, BS> {
    fn call<B: BlockModeDecBackend<BlockSize = BS>>(self, backend: &mut B) {
        let (chunks, tail) = self.blocks.into_chunks::<B::ParBlocksSize>();
        for chunk in chunks { backend.decrypt_par_blocks(chunk); }
        for b in tail { backend.decrypt_block(b); }
    }
}
impl<BS: BlockSizes> BlockModeEncClosure for ParEntry<'_, '_, BS> {
    fn call<B: BlockModeEncBackend<BlockSize = BS>>(self, backend: &mut B) {
        let (chunks, tail) = self.blocks.into_chunks::<B::ParBlocksSize>();
        for chunk in chunks { backend.encrypt_par_blocks(chunk); }
        for b in tail { backend.encrypt_block(b); }
    }
}
pub trait ParEntryDec: BlockModeDecrypt {
    fn pe_decrypt_blocks(&mut self, b: &mut [Block<Self>]) { self.decrypt_with_backend(ParEntry { blocks: b.into() }) }
    fn pe_decrypt_blocks_b2b(&mut self, i: &[Block<Self>], o: &mut [Block<Self>]) -> Result<(), NotEqualError> {
        InOutBuf::new(i, o).map(|blocks| self.decrypt_with_backend(ParEntry { blocks }))
    }
}
impl<T: BlockModeDecrypt> ParEntryDec for T {}
pub trait ParEntryEnc: BlockModeEncrypt {
    fn pe_encrypt_blocks(&mut self, b: &mut [Block<Self>]) { self.encrypt_with_backend(ParEntry { blocks: b.into() }) }
    fn pe_encrypt_blocks_b2b(&mut self, i: &[Block<Self>], o: &mut [Block<Self>]) -> Result<(), NotEqualError> {
        InOutBuf::new(i, o).map(|blocks| self.encrypt_with_backend(ParEntry { blocks }))
    }
}
impl<T: BlockModeEncrypt> ParEntryEnc for T {}

log_cipher!(L2w3, U2, 2, U3, 7);
// width 1: every block goes through *_par_blocks; widths 2, 3: chunks then single blocks (native search; `_nat` not needed:
// these are ordinary harnesses, kept out of the Kani lists)
block_mode_harness!(cbc_pdec_b2w1_n3_ip, 6, 1, false, L2w1, 2, 2, 2, 3, cbc::Decryptor<&L2w1>, pe_decrypt_blocks, pe_decrypt_blocks_b2b, m_cbc_dec, 3, false, true);
block_mode_harness!(cbc_pdec_b2w1_n3_b2b, 6, 2, true, L2w1, 2, 2, 2, 3, cbc::Decryptor<&L2w1>, pe_decrypt_blocks, pe_decrypt_blocks_b2b, m_cbc_dec, 3, false, true);
block_mode_harness!(cbc_penc_b2w1_n3_b2b, 6, 1, true, L2w1, 2, 2, 2, 3, cbc::Encryptor<&L2w1>, pe_encrypt_blocks, pe_encrypt_blocks_b2b, m_cbc_enc, 3, true, true);
block_mode_harness!(cbc_pdec_b2w3_n5_ip, 8, 1, false, L2w3, 2, 2, 2, 5, cbc::Decryptor<&L2w3>, pe_decrypt_blocks, pe_decrypt_blocks_b2b, m_cbc_dec, 5, false, true);
block_mode_harness!(pcbc_pdec_b2w1_n3_b2b, 6, 1, true, L2w1, 2, 2, 2, 3, pcbc::Decryptor<&L2w1>, pe_decrypt_blocks, pe_decrypt_blocks_b2b, m_pcbc_dec, 3, false, true);
block_mode_harness!(pcbc_penc_b2w1_n3_ip, 6, 2, false, L2w1, 2, 2, 2, 3, pcbc::Encryptor<&L2w1>, pe_encrypt_blocks, pe_encrypt_blocks_b2b, m_pcbc_enc, 3, true, true);
block_mode_harness!(ige_pdec_b2w1_n3_ip, 6, 1, false, L2w1, 2, 2, 4, 3, ige::Decryptor<&L2w1>, pe_decrypt_blocks, pe_decrypt_blocks_b2b, m_ige_dec, 3, false, true);
block_mode_harness!(ige_penc_b2w1_n3_b2b, 6, 2, true, L2w1, 2, 2, 4, 3, ige::Encryptor<&L2w1>, pe_encrypt_blocks, pe_encrypt_blocks_b2b, m_ige_enc, 3, true, true);
block_mode_harness!(cfb_pdec_b2w1_n3_ip, 6, 1, false, L2w1, 2, 2, 2, 3, cfb_mode::Decryptor<&L2w1>, pe_decrypt_blocks, pe_decrypt_blocks_b2b, m_cfb_dec, 4, true, false);
block_mode_harness!(cfb_pdec_b2w1_n3_b2b, 6, 2, true, L2w1, 2, 2, 2, 3, cfb_mode::Decryptor<&L2w1>, pe_decrypt_blocks, pe_decrypt_blocks_b2b, m_cfb_dec, 4, true, false);
block_mode_harness!(cfb_penc_b2w1_n3_b2b, 6, 1, true, L2w1, 2, 2, 2, 3, cfb_mode::Encryptor<&L2w1>, pe_encrypt_blocks, pe_encrypt_blocks_b2b, m_cfb_enc, 4, true, false);
block_mode_harness!(cfb_pdec_b2w3_n5_b2b, 8, 1, true, L2w3, 2, 2, 2, 5, cfb_mode::Decryptor<&L2w3>, pe_decrypt_blocks, pe_decrypt_blocks_b2b, m_cfb_dec, 6, true, false);
block_mode_harness!(cfb8_pdec_b2w1_n4_ip, 7, 1, false, L2w1, 2, 1, 2, 4, cfb8::Decryptor<&L2w1>, pe_decrypt_blocks, pe_decrypt_blocks_b2b, m_cfb8_dec, 4, true, true);
block_mode_harness!(ofb_penc_b2w1_n3_b2b, 6, 1, true, L2w1, 2, 2, 2, 3, ofb::OfbCore<&L2w1>, pe_encrypt_blocks, pe_encrypt_blocks_b2b, m_ofb, 3, true, true);
block_mode_harness!(ofb_pdec_b2w3_n5_ip, 8, 2, false, L2w3, 2, 2, 2, 5, ofb::OfbCore<&L2w3>, pe_decrypt_blocks, pe_decrypt_blocks_b2b, m_ofb, 5, true, true);
