//! LogCipher: every block-cipher call returns the next harness-chosen (nondeterministic) block and
//! records (direction, input).  Any real cipher is one choice of the outputs.
pub use cipher::{
    Block, BlockCipherDecBackend, BlockCipherDecClosure, BlockCipherDecrypt, BlockCipherEncBackend,
    BlockCipherEncClosure, BlockCipherEncrypt, BlockSizeUser, InOut, ParBlocksSizeUser,
};
pub use core::cell::Cell;

#[macro_export]
macro_rules! log_cipher {
    ($name:ident, $bs:ty, $b:expr, $w:ty, $k:expr) => {
        pub struct $name {
            pub n: Cell<usize>,
            pub xs: Cell<[[u8; $b]; $k]>,
            pub enc: Cell<[bool; $k]>,
            pub ys: [[u8; $b]; $k],
        }
        impl $name {
            pub fn new(ys: [[u8; $b]; $k]) -> Self {
                Self { n: Cell::new(0), xs: Cell::new([[0; $b]; $k]), enc: Cell::new([false; $k]), ys }
            }
            fn step(&self, mut block: InOut<'_, '_, Block<Self>>, enc: bool) {
                let k = self.n.get();
                assert!(k < $k, "cipher called more often than the mode may");
                let mut xs = self.xs.get();
                xs[k] = block.clone_in().into();
                self.xs.set(xs);
                let mut e = self.enc.get();
                e[k] = enc;
                self.enc.set(e);
                *block.get_out() = self.ys[k].into();
                self.n.set(k + 1);
            }
        }
        impl BlockSizeUser for $name { type BlockSize = $bs; }
        impl ParBlocksSizeUser for $name { type ParBlocksSize = $w; }
        impl BlockCipherEncBackend for $name {
            fn encrypt_block(&self, block: InOut<'_, '_, Block<Self>>) { self.step(block, true) }
        }
        impl BlockCipherDecBackend for $name {
            fn decrypt_block(&self, block: InOut<'_, '_, Block<Self>>) { self.step(block, false) }
        }
        impl BlockCipherEncrypt for $name {
            fn encrypt_with_backend(&self, f: impl BlockCipherEncClosure<BlockSize = $bs>) { f.call(self) }
        }
        impl BlockCipherDecrypt for $name {
            fn decrypt_with_backend(&self, f: impl BlockCipherDecClosure<BlockSize = $bs>) { f.call(self) }
        }
    };
}

pub fn xor<const B: usize>(a: [u8; B], b: [u8; B]) -> [u8; B] {
    let mut r = a;
    let mut i = 0;
    while i < B { r[i] ^= b[i]; i += 1; }
    r
}

/// PermCipher: an invertible toy cipher with a harness-chosen key (for round trips, clones, Debug, drop).
/// E(x)[i] = rotl3(x[(i+1) % B]) ^ k[i]
#[macro_export]
macro_rules! perm_cipher {
    ($name:ident, $bs:ty, $b:expr, $w:ty) => {
        #[derive(Clone)]
        pub struct $name { pub k: [u8; $b] }
        impl $name {
            pub fn e(&self, x: [u8; $b]) -> [u8; $b] {
                let mut y = [0u8; $b]; let mut i = 0;
                while i < $b { y[i] = x[(i + 1) % $b].rotate_left(3) ^ self.k[i]; i += 1; }
                y
            }
            pub fn d(&self, y: [u8; $b]) -> [u8; $b] {
                let mut x = [0u8; $b]; let mut i = 0;
                while i < $b { x[(i + 1) % $b] = (y[i] ^ self.k[i]).rotate_right(3); i += 1; }
                x
            }
        }
        impl BlockSizeUser for $name { type BlockSize = $bs; }
        impl ParBlocksSizeUser for $name { type ParBlocksSize = $w; }
        impl BlockCipherEncBackend for $name {
            fn encrypt_block(&self, mut block: InOut<'_, '_, Block<Self>>) {
                let x: [u8; $b] = block.clone_in().into();
                *block.get_out() = self.e(x).into();
            }
        }
        impl BlockCipherDecBackend for $name {
            fn decrypt_block(&self, mut block: InOut<'_, '_, Block<Self>>) {
                let x: [u8; $b] = block.clone_in().into();
                *block.get_out() = self.d(x).into();
            }
        }
        impl BlockCipherEncrypt for $name {
            fn encrypt_with_backend(&self, f: impl BlockCipherEncClosure<BlockSize = $bs>) { f.call(self) }
        }
        impl BlockCipherDecrypt for $name {
            fn decrypt_with_backend(&self, f: impl BlockCipherDecClosure<BlockSize = $bs>) { f.call(self) }
        }
        impl cipher::AlgorithmName for $name {
            fn write_alg_name(f: &mut core::fmt::Formatter<'_>) -> core::fmt::Result { f.write_str(stringify!($name)) }
        }
    };
}
