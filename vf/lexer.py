"""A small Rust lexer: enough to cut items out of the block-modes sources
token-exactly.  Comments and whitespace are kept as `ws` on the following
token so that text can be re-emitted with its original layout."""
import re

IDENT_RE = re.compile(r'[A-Za-z_][A-Za-z0-9_]*')
NUM_RE = re.compile(r'[0-9][0-9A-Za-z_]*(\.[0-9][0-9A-Za-z_]*)?')
PUNCT3 = ('..=', '...', '<<=', '>>=')
PUNCT2 = ('->', '=>', '::', '..', '==', '!=', '<=', '>=', '&&', '||', '+=', '-=', '*=', '/=',
          '%=', '^=', '&=', '|=', '<<')


class Tok:
    __slots__ = ('kind', 'text', 'ws', 'pos', 'line')

    def __init__(self, kind, text, ws, pos, line):
        self.kind = kind    # ident | lifetime | num | str | char | punct
        self.text = text
        self.ws = ws        # whitespace + comments preceding the token
        self.pos = pos
        self.line = line

    def __repr__(self):
        return 'Tok(%s,%r)' % (self.kind, self.text)


class LexError(Exception):
    pass


def lex(src):
    toks = []
    i = 0
    n = len(src)
    ws_start = 0
    line = 1

    def push(kind, j):
        nonlocal i, ws_start, line
        ws = src[ws_start:i]
        line += ws.count('\n')
        toks.append(Tok(kind, src[i:j], ws, i, line))
        line += src[i:j].count('\n')
        i = j
        ws_start = j

    while i < n:
        c = src[i]
        if c in ' \t\r\n':
            i += 1
            continue
        if src.startswith('//', i):
            j = src.find('\n', i)
            i = n if j < 0 else j
            continue
        if src.startswith('/*', i):
            depth = 1
            j = i + 2
            while j < n and depth:
                if src.startswith('/*', j):
                    depth += 1
                    j += 2
                elif src.startswith('*/', j):
                    depth -= 1
                    j += 2
                else:
                    j += 1
            i = j
            continue
        # raw strings / byte strings
        m = re.match(r'(b|c)?r(#*)"', src[i:i + 40])
        if m:
            hashes = m.group(2)
            end = src.find('"' + hashes, i + m.end())
            if end < 0:
                raise LexError('unterminated raw string at %d' % i)
            push('str', end + 1 + len(hashes))
            continue
        if c == '"' or (c in 'bc' and i + 1 < n and src[i + 1] == '"'):
            j = i + (1 if c == '"' else 2)
            while j < n and src[j] != '"':
                j += 2 if src[j] == '\\' else 1
            push('str', j + 1)
            continue
        if c == "'" or (c == 'b' and i + 1 < n and src[i + 1] == "'"):
            k = i + (1 if c == "'" else 2)
            # char literal or lifetime
            if k < n and src[k] == '\\':
                j = k + 2
                while j < n and src[j] != "'":
                    j += 1
                push('char', j + 1)
                continue
            if k + 1 < n and src[k + 1] == "'":
                push('char', k + 2)
                continue
            m = IDENT_RE.match(src, k)
            if m and c == "'":
                push('lifetime', m.end())
                continue
            raise LexError('bad quote at %d' % i)
        m = IDENT_RE.match(src, i)
        if m:
            j = m.end()
            if src.startswith('r#', i) and IDENT_RE.match(src, i + 2):
                j = IDENT_RE.match(src, i + 2).end()
            push('ident', j)
            continue
        m = NUM_RE.match(src, i)
        if m:
            j = m.end()
            # do not swallow a range operator: `1..n`
            t = src[i:j]
            if '.' in t and src.startswith('..', i + t.index('.')):
                j = i + t.index('.')
            push('num', j)
            continue
        for p in PUNCT3:
            if src.startswith(p, i):
                push('punct', i + 3)
                break
        else:
            for p in PUNCT2:
                if src.startswith(p, i):
                    push('punct', i + 2)
                    break
            else:
                push('punct', i + 1)
    trailing = src[ws_start:]
    return toks, trailing


OPEN = {'(': ')', '[': ']', '{': '}'}
CLOSE = {')', ']', '}'}


def match_close(toks, i):
    """toks[i] is an opening bracket; return index of its closing partner."""
    depth = 0
    for j in range(i, len(toks)):
        t = toks[j].text
        if toks[j].kind == 'punct':
            if t in OPEN:
                depth += 1
            elif t in CLOSE:
                depth -= 1
                if depth == 0:
                    return j
    raise LexError('unbalanced bracket from token %d (%r)' % (i, toks[i].text))


def strip_comments(ws):
    """whitespace-with-comments -> whitespace only (keeps line structure)."""
    out = []
    i = 0
    n = len(ws)
    while i < n:
        if ws.startswith('//', i):
            j = ws.find('\n', i)
            i = n if j < 0 else j
        elif ws.startswith('/*', i):
            depth = 1
            j = i + 2
            while j < n and depth:
                if ws.startswith('/*', j):
                    depth += 1
                    j += 2
                elif ws.startswith('*/', j):
                    depth -= 1
                    j += 2
                else:
                    if ws[j] == '\n':
                        out.append('\n')
                    j += 1
            i = j
        else:
            out.append(ws[i])
            i += 1
    s = ''.join(out)
    # collapse runs of blank lines left behind by removed doc comments
    s = re.sub(r'\n[ \t]*(\n[ \t]*)+\n', '\n\n', s)
    return s


def text_of(toks):
    return ''.join(strip_comments(t.ws) + t.text for t in toks)


def sig(toks):
    """token-text tuple used for fidelity comparison"""
    return tuple(t.text for t in toks)
