"""./check <Cxx> [--tier quick|thorough]   |   ./check --replay <file>
Verdict protocol: DESIGN 3.8.  exit 0 = all obligations of the property discharged; exit 1 =
VIOLATION line(s) printed; exit 2 = infrastructure problem / undecided (never a verdict)."""
import concurrent.futures as cf
import copy
import hashlib
import json
import re
import os
import sys
import time

from . import extract as X
from . import unit as U

VERIF = U.VERIF
# evidence of checks run against a scratch copy of the repository (VERIF_REPO set: seeded changes) is kept apart from
# the evidence of /repo itself
_ALT = os.environ.get('VERIF_REPO', '/repo').rstrip('/')
EVID = os.path.join(VERIF, 'evidence') if _ALT == '/repo' else os.path.join(VERIF, '.work', 'alt_' + os.path.basename(_ALT), 'evidence')
REPLAYS = os.path.join(EVID, 'replays')


def log(*a):
    print(*a, flush=True)


def add_canaries(unit):
    """every function under contract gets an `assert(false)` at the end of its body (before a tail
    expression); all of them must fail"""
    n = 0
    for mod in unit.mods:
        if mod.name.startswith('dep_') and unit.name != 'deps':
            continue        # the dependency text gets its canaries in the `deps` unit only
        for sel in mod.items:
            for name, fc in list(sel.fns.items()):
                if callable(fc):
                    def wrap(toks, fn, fc=fc):
                        r = fc(toks, fn)
                        r.canary = True
                        return r
                    sel.fns[name] = wrap
                    n += 1
                elif not fc.external_body:
                    fc.canary = True
                    n += 1
    unit.tail = (unit.tail or '') + '\nproof fn prelude_consistent__canary() ensures false {}\n'
    # lemmas: a lemma whose hypotheses contradict each other proves anything.  For every tagged lemma with a `requires`
    # a twin with the same parameters and hypotheses and `ensures false` is generated; each twin must FAIL.
    if unit.lemmas:
        names = set(l.name for l in unit.lemmas)
        txt = ''
        for f in unit.spec:
            txt += open(os.path.join(VERIF, 'spec', f)).read() + '\n'
        for f in unit.prelude:
            txt += open(os.path.join(VERIF, 'prelude', f)).read() + '\n'
        twins = []
        for m in re.finditer(r'pub proof fn (\w+)(<[^>\n]*>)?\s*\((.*?)\)\s*\n\s*requires(.*?)\n\s*ensures', txt, re.S):
            if m.group(1) in names and 'proof fn' not in m.group(3) and 'proof fn' not in m.group(4):
                twins.append('proof fn %s__vacuity%s(%s)\n    requires%s\n    ensures false\n{}\n' % (
                    m.group(1), m.group(2) or '', m.group(3), m.group(4)))
        unit.tail += '\n'.join(twins)
        unit.lemma_twins = [re.match(r'proof fn (\w+)', t).group(1) for t in twins]
    unit.name = unit.name + '_canary'
    return n


def vname(unit, fid):
    """name Verus reports for the generated function with registry id `fid`"""
    parts = fid.split('::')
    out = []
    for seg in parts[1:-1]:
        if '@' in seg:
            seg = seg.split('@', 1)[1]
        if seg.startswith('trait_'):
            seg = seg[6:]
        m = re.match(r'(.*)\[(.*)\]$', seg)
        if m:
            seg = '%s__%s' % (m.group(1), m.group(2))
        out.append(seg)
    return '::'.join(['unit_' + unit.replace('_canary', ''), parts[0]] + out + [parts[-1]])


def reached_fns(unit_name, g, res):
    """registry ids of the functions the verifier actually ran (an error such as `loop must have a decreases clause`
    aborts the rest of its module: those functions are neither verified nor refuted)"""
    names = set(f['function'].replace('_canary::', '::', 1) for f in (res.get('function_breakdown') or []))
    out = set()
    for f in g.functions:
        vn = vname(unit_name, f['id'])
        if vn in names:
            out.add(f['id'])
            continue
        # blanket impls (`impl<T> Trait for T`) are reported as `<module>::impl&%N::T::<fn>`
        parts = vn.split('::')
        if len(parts) >= 4:
            pre, tail = '::'.join(parts[:2]) + '::', '::' + '::'.join(parts[-2:])
            if any(n.startswith(pre) and n.endswith(tail) and 'impl&%' in n for n in names):
                out.add(f['id'])
            # impls for primitive types (`impl SeekNum for u32`) are reported as `<module>::impl&%N::<fn>` without the type
            elif parts[-2] in ('i32', 'u32', 'u64', 'u128', 'usize') and any(
                    re.fullmatch(re.escape(pre) + r'impl&%\d+::' + re.escape(parts[-1]), n) for n in names):
                out.add(f['id'])
    return out


_ITEMS_BASE = None


def items_outside_contracts(unit_name, g):
    """code the contracts do not see and did not see when they were written: top-level items of the extracted repo files
    that no contract selects (a hand-written impl replacing a derive, a new function, ...) and derive lists that changed
    (T drops derive attributes).  contracts/items_baseline.json is the reference (tools/record_items_baseline.py)."""
    global _ITEMS_BASE
    if _ITEMS_BASE is None:
        p = os.path.join(VERIF, 'contracts', 'items_baseline.json')
        _ITEMS_BASE = json.load(open(p)).get('units', {}) if os.path.exists(p) else {}
    base = _ITEMS_BASE.get(unit_name)
    if base is None:
        return []
    out = []
    for f, labels in (getattr(g, 'unclaimed', {}) or {}).items():
        if f.startswith('dep:'):
            continue
        known = list(base.get('unclaimed', {}).get(f, []))
        for l in labels:
            if l in known:
                known.remove(l)
            else:
                out.append('%s: item `%s` is not under any contract' % (f, l))
    for k, v in (getattr(g, 'derives', {}) or {}).items():
        if k.startswith('dep:'):
            continue
        b = base.get('derives', {}).get(k)
        if b is not None and sorted(b) != sorted(v):
            out.append('%s: derive list changed from %s to %s (derived impls are outside the contracts)' % (k, b, v))
    return out


# resource limit per unit (Verus --rlimit, deterministic solver work units, not time): the CTS decrypt closures need ~25 of
# the default 30, so that unit gets head room; a function that exhausts the limit is reported as infrastructure (exit 2)
RLIMITS = {'cts': 80, 'deps': 50}


def run_unit(name, factory, canaries=True, rlimit=None):
    out = {'unit': name, 'infra': [], 'ok': False}
    if rlimit is None:
        rlimit = RLIMITS.get(name, 30)
    t0 = time.time()
    try:
        g = U.build(factory())
    except X.InfraError as e:
        out['infra'].append('extraction: %s' % e)
        return out
    res = U.run_verus(g, rlimit=rlimit)
    cl = U.classify(g, res)
    tried = set(f['id'] for f in g.functions if f.get('tried_body'))
    if tried:
        # changed functions that used to be outside the subset were given to the verifier with their bodies; those
        # the front end still rejects go back to external_body (bounded stand-in only), the others stay verified
        rejected = set(i['fn'] for i in cl['infra'] if i.get('fn') in tried)
        if res['json'] is None and not rejected:
            rejected = set(tried)
        if rejected:
            X.FORCE_EXTERNAL.update(rejected)
            try:
                g = U.build(factory())
            except X.InfraError as e:
                out['infra'].append('extraction: %s' % e)
                return out
            res = U.run_verus(g, rlimit=rlimit)
            cl = U.classify(g, res)
        out['tried_body'] = sorted(tried - rejected)
        out['tried_body_rejected'] = sorted(rejected)
    # front-end errors that can be pinned on single functions: those functions are demoted to bodiless (contract assumed,
    # function undecided) and the unit is verified again, so one rewritten function does not blind the whole unit
    demoted = set()
    fids = set(f['id'] for f in g.functions if f['has_body'] and not f['external_body'])
    for round_ in range(3):
        bad = set(i['fn'] for i in cl['infra'] if i.get('fn') in fids and 'esource limit' not in i['message'] and 'rlimit' not in i['message'])
        again = bad & demoted          # still rejected after the body was dropped: the contract text itself does not fit
        bad -= demoted
        if not bad and not again:
            break
        X.NOCONTRACT.update(again)
        demoted |= bad
        X.DEMOTED.update(bad)
        try:
            g2 = U.build(factory())
        except X.InfraError as e:
            break
        res2 = U.run_verus(g2, rlimit=rlimit)
        cl2 = U.classify(g2, res2)
        out.setdefault('demoted_reason', {}).update(dict((i['fn'], i['message'][:200]) for i in cl['infra'] if i.get('fn') in bad))
        g, res, cl = g2, res2, cl2
    out['demoted'] = sorted(demoted)
    out.update({'g': g, 'res': res, 'cl': cl})
    out['reached'] = reached_fns(name, g, res)
    out['new_items'] = items_outside_contracts(name, g)
    if res['json'] is None or res['vir_error'] or cl['infra']:
        for i in cl['infra']:
            out['infra'].append('verus front end / resource: %s (fn %s, generated line %s)' % (i['message'][:300], i['fn'], i['line']))
        if res['json'] is None and not cl['infra']:
            out['infra'].append('verus produced no result: ' + res['raw_err'][-500:])
    # canaries
    out['canaries_expected'] = 0
    out['canaries_failed_as_expected'] = 0
    out['canary_wall_s'] = 0
    if canaries and not out['infra']:
        cu = factory()
        n = add_canaries(cu)
        try:
            gc = U.build(cu)
            rc = U.run_verus(gc, rlimit=rlimit)
            cc = U.classify(gc, rc)
            klines = {}
            for n_, line in enumerate(gc.text.split('\n'), 1):
                for mm in re.finditer(r'/\*@k:([^*]*)\*/', line):
                    klines[n_] = mm.group(1)
            failed_fns = set()
            for d in rc['diagnostics']:
                if d['line'] in klines and d['message'].startswith('assertion failed'):
                    failed_fns.add(klines[d['line']])
            # a canary that exhausts the resource limit is not proved either (the solver could not derive false)
            rl_fns = set()
            for i_ in list(cc['infra']):
                if 'esource limit' in i_['message'] or 'rlimit' in i_['message']:
                    cc['infra'].remove(i_)
                    for (a_, b_, fid_) in gc.fn_spans:
                        if i_['line'] is not None and a_ <= i_['line'] <= b_:
                            rl_fns.add(fid_)
            failed_fns |= rl_fns
            expected = set(klines.values())
            twin_names = list(getattr(cu, 'lemma_twins', []) or [])
            twin_failed = set()
            for d in rc['diagnostics']:
                for tn in twin_names:
                    if tn in (d.get('rendered') or ''):
                        twin_failed.add(tn)
            twin_missing = [tn for tn in twin_names if tn not in twin_failed]
            out['lemma_vacuity_twins'] = len(twin_names)
            out['lemma_vacuity_twins_failed_as_expected'] = len(twin_failed)
            out['canaries_expected'] = len(expected) + 1
            ok_global = any('prelude_consistent__canary' in (c.get('fn') or '') or
                            'prelude_consistent__canary' in c.get('rendered', '')
                            for c in cc['failed_clauses'])
            out['canaries_failed_as_expected'] = len(expected & failed_fns) + (1 if ok_global else 0)
            # vacuity = the verifier RAN the function and proved `assert(false)`; functions it never reached
            # (module aborted by an error elsewhere) are already undecided in the base run
            reached_c = reached_fns(name, gc, rc)
            missing = sorted(f_ for f_ in (expected - failed_fns) if f_ in reached_c)
            out['canary_wall_s'] = rc['wall_s']
            if cc['infra']:
                out['infra'].append('canary run: ' + cc['infra'][0]['message'][:300])
            elif not expected and n > 0:
                out['infra'].append('canary run generated no canaries')
            elif missing:
                out['infra'].append('VACUITY: `ensures false` verified for %s (contradictory precondition or axiom)' % missing)
            elif twin_missing:
                out['infra'].append('VACUITY: the hypotheses of lemma(s) %s are contradictory (their `ensures false` twin verified)' % twin_missing)
            elif not ok_global:
                out['infra'].append('VACUITY: global canary `prelude_consistent` verified: the assumed contracts are inconsistent')
        except X.InfraError as e:
            out['infra'].append('canary extraction: %s' % e)
    out['wall_s'] = round(time.time() - t0, 2)
    out['ok'] = not out['infra']
    return out


def obligations_for(prop, ur):
    """list of obligation dicts {id, kind, fn, status} of property `prop` in unit result `ur`"""
    g, cl = ur['g'], ur['cl']
    obs = []
    failed_ids = {}
    for c in cl['failed_clauses']:
        failed_ids.setdefault(c['id'], c)
    inherited_failed = {}
    for c in cl['failed_clauses']:
        if c.get('inherited'):
            inherited_failed[c['fn']] = c
    safety_failed = {}
    for c in cl['failed_safety']:
        safety_failed.setdefault(c['fn'], c)
    internal_failed = {}
    for c in cl['internal']:
        internal_failed.setdefault(c['fn'], c)
    reached = ur.get('reached')
    body_fns = set(f['id'] for f in g.functions if f['has_body'] and not f['external_body'])

    demoted = set(ur.get('demoted') or []) | set(f['id'] for f in g.functions if f['id'] in X.DEMOTED)

    def unreached(fid):
        return fid in demoted or (reached is not None and fid in body_fns and fid not in reached)

    for m in g.marks:
        if prop in m['props']:
            st = 'failed' if m['id'] in failed_ids else ('undecided' if unreached(m['fn']) else 'discharged')
            obs.append({'id': m['id'], 'kind': 'postcondition', 'fn': m['fn'], 'status': st, 'text': m['text'],
                        'diag': failed_ids.get(m['id']), 'unreached': st == 'undecided'})
    # a trait clause failing inside an implementation: counts for the properties the clause is stated for and for
    # those of the implementing function, whether or not that function is registered (a change may ADD a method
    # that overrides a verified default)
    fprops = dict((f['id'], f['props']) for f in g.functions)
    registered_inheriting = set(f['id'] for f in g.functions if f.get('inherits') and prop in f['props'])
    for c in cl['failed_clauses']:
        if c.get('inherited') and c.get('fn') not in registered_inheriting:
            ps = set(c.get('iprops') or []) | set(fprops.get(c.get('fn'), []))
            if prop in ps:
                obs.append({'id': c['id'], 'kind': 'postcondition(inherited)', 'fn': c.get('fn'), 'status': 'failed',
                            'text': 'trait contract %s in an implementation' % (c.get('trait_clause') or ''), 'diag': c})
            elif not ps:
                # e.g. a proof obligation of a spec-level trait member (lemma) of an implementation: no property
                # claims it by name, every property of the unit rests on it -> undecided, never silent
                obs.append({'id': c['id'], 'kind': 'proof-internal', 'fn': c.get('fn'), 'status': 'undecided',
                            'text': 'trait-level proof obligation of an implementation failed', 'diag': c})
    mark_props = dict((m['id'], (m['props'], m.get('iprops') or [])) for m in g.marks)
    for c in cl['failed_clauses']:
        if not c.get('inherited') and c['id'] in mark_props and not mark_props[c['id']][0] and not mark_props[c['id']][1]:
            obs.append({'id': c['id'], 'kind': 'proof-internal', 'fn': c.get('fn'), 'status': 'undecided',
                        'text': 'a contract clause that no property claims failed', 'diag': c})
    for k_, msg in enumerate(ur.get('new_items') or []):
        obs.append({'id': '%s#outside-contracts-%d' % (ur['unit'], k_), 'kind': 'proof-internal', 'fn': None, 'status': 'undecided', 'unreached': True,
                    'text': msg, 'diag': None})
    for fid in sorted(demoted):
        if prop in fprops.get(fid, []) or (prop == 'C13'):
            obs.append({'id': fid + '#front-end', 'kind': 'proof-internal', 'fn': fid, 'status': 'undecided', 'unreached': True,
                        'text': 'the verifier\'s front end rejects the current text of this function (with its proof annotations): ' +
                                (ur.get('demoted_reason', {}).get(fid) or X.DEMOTE_REASON.get(fid) or ''), 'diag': None})
    # a verifier error in a function no property claims (e.g. a function the change added): never silently dropped
    lemma_names = set(l.name for l in g.unit.lemmas)
    for key in ('failed_safety', 'internal'):
        for c in cl[key]:
            fn = c.get('fn')
            if fn and fn not in lemma_names and not fprops.get(fn):
                obs.append({'id': '%s#unattributed' % fn, 'kind': 'proof-internal', 'fn': fn, 'status': 'undecided',
                            'text': 'verifier error in a function that no property claims: ' + (c.get('message') or '')[:120], 'diag': c})
    for f in g.functions:
        # C13 (no operation panics): the body-safety obligation of EVERY function under contract
        if (prop in f['props'] or prop == 'C13') and f['has_body']:
            if f['external_body']:
                continue
            fid = f['id']
            if f.get('inherits') and prop in f['props']:
                # inherited trait clauses: a failing clause counts for this property if the clause is stated for it
                # (or if the clause could not be identified)
                bad = [c for c in cl['failed_clauses'] if c.get('inherited') and c.get('fn') == fid
                       and (not c.get('only') or prop in (c.get('iprops') or []))]
                if bad:
                    for c in bad:
                        obs.append({'id': c['id'], 'kind': 'postcondition(inherited)', 'fn': fid, 'status': 'failed',
                                    'text': 'trait contract %s in this implementation' % (c.get('trait_clause') or ''), 'diag': c})
                else:
                    obs.append({'id': fid + '#trait-contract', 'kind': 'postcondition(inherited)', 'fn': fid, 'status': 'discharged',
                                'text': 'transducer contract of the shim trait method (DESIGN 3.3)', 'diag': None})
            st = 'failed' if fid in safety_failed else ('undecided' if unreached(fid) else 'discharged')
            obs.append({'id': fid + '#safe', 'kind': 'safety', 'fn': fid, 'status': st,
                        'text': 'callee preconditions, index bounds, arithmetic overflow, unwrap',
                        'diag': safety_failed.get(fid), 'unreached': st == 'undecided'})
            if fid in internal_failed and st == 'discharged':
                obs.append({'id': fid + '#proof', 'kind': 'proof-internal', 'fn': fid, 'status': 'undecided',
                            'text': 'loop invariant / ghost assertion', 'diag': internal_failed.get(fid)})
    # lemmas
    lem_failed = set()
    for key in ('failed_clauses', 'failed_safety', 'internal'):
        for c in cl[key]:
            if c.get('fn'):
                lem_failed.add(c['fn'])
    for lem in g.unit.lemmas:
        if prop in lem.props:
            st = 'failed-proof' if lem.name in lem_failed else 'discharged'
            obs.append({'id': '%s::lemma::%s' % (g.unit.name, lem.name), 'kind': 'lemma', 'fn': lem.name, 'status': st,
                        'text': lem.statement, 'diag': None})
    return obs


def write_replay(prop, ob, ur, extra=None):
    os.makedirs(REPLAYS, exist_ok=True)
    safe = ob['id'].replace('/', '_').replace(':', '_').replace('@', '_').replace('#', '-').replace('[', '_').replace(']', '_')
    if len(safe) > 100:
        import hashlib as _h
        safe = safe[:88] + '-' + _h.sha1(ob['id'].encode()).hexdigest()[:8]
    path = os.path.join(REPLAYS, '%s-%s.json' % (prop, safe))
    d = ob.get('diag') or {}
    fninfo = [f for f in ur['g'].functions if f['id'] == ob['fn']]
    doc = {
        'property': prop, 'obligation': ob['id'], 'kind': ob['kind'], 'clause_text': ob.get('text'),
        'unit': ur['unit'], 'function': fninfo[0] if fninfo else ob['fn'],
        'verifier': 'verus', 'verifier_cmd': ur['res']['cmd'],
        'verifier_output': d.get('rendered') or d.get('message'),
        'counterexample': None,
        'note': 'Verus gives no counterexample; this obligation was discharged on the unchanged tree and fails on the '
                'current working tree.  Re-check with: ./check --replay ' + path,
    }
    if extra:
        doc.update(extra)
    with open(path, 'w') as f:
        json.dump(doc, f, indent=1)
    return path


def check_property(prop, tier, seed):
    from contracts import registry as REG
    t0 = time.time()
    units = REG.PROP_UNITS.get(prop)
    if not units:
        log('property %s is not claimed by any check' % prop)
        return 2
    factories = REG.load_units(units)
    results = {}
    with cf.ThreadPoolExecutor(max_workers=min(8, len(units))) as ex:
        futs = {ex.submit(run_unit, n, factories[n]): n for n in units}
        for fu in cf.as_completed(futs):
            results[futs[fu]] = fu.result()
    infra = []
    all_obs = []
    for n in units:
        ur = results[n]
        if ur.get('g') is None or ur['infra']:
            infra += ['[%s] %s' % (n, i) for i in ur['infra']]
        if ur.get('g') is not None and ur.get('cl') is not None:
            for ob in obligations_for(prop, ur):
                ob['unit'] = n
                all_obs.append(ob)
    violations = []
    undecided = []
    known_obs = []
    for ob in all_obs:
        if ob['status'] == 'failed':
            from . import stages as _st
            kf = _st.known_match(prop, ob)
            if kf:
                # a deductive obligation that fails because of a committed known finding (identified by
                # function + clause): reported through the KNOWN-FINDING line, not as a violation
                ob['status'] = 'known-finding'
                known_obs.append(kf)
                continue
            violations.append(ob)
        elif ob['status'] in ('undecided', 'failed-proof'):
            undecided.append(ob)
    # extra stages (kani stand-ins, known findings) are plugged in here
    extra = {}
    try:
        from . import stages
        extra = stages.run(prop, tier, seed, results, violations, undecided, infra) or {}
    except ImportError:
        pass
    code = 0
    vio_lines = []
    for ob in violations:
        path = ob.get('replay') or write_replay(prop, ob, results[ob['unit']])
        suffix = '' if ob.get('counterexample') else ' no-failing-input-found'
        vio_lines.append('VIOLATION property=%s replay=%s%s' % (prop, path, suffix))
        log('  failed obligation: %s' % ob['id'])
        d = ob.get('diag') or {}
        if d.get('rendered'):
            log('  ' + d['rendered'].strip().replace('\n', '\n  ')[:1500])
    kf_lines = list(extra.get('known_finding_lines', []))
    for kf in known_obs:
        if not any(kf['text'] in l for l in kf_lines):
            kf_lines.append('KNOWN-FINDING: property=%s %s' % (prop, kf['text']))
    extra.setdefault('known_findings', [])
    extra['known_findings'] += [dict(k, via='deductive obligation') for k in known_obs]
    write_evidence(prop, tier, seed, units, results, all_obs, infra, violations, undecided, time.time() - t0, extra)
    for kf in kf_lines:
        log(kf)
    if vio_lines:
        # the deductive stage's own state is reported too (a violation found by a harness while the verifier
        # could not read the changed text is still a violation, but the reader should see both facts)
        for i in infra:
            log('INFRA: ' + i)
        for ob in undecided:
            log('UNDECIDED (%s): %s' % ('not verified: front end rejected the function or the verifier did not reach it' if ob.get('unreached') else 'proof-internal, no semantic obligation failed', ob['id']))
        for l in vio_lines:
            log(l)
        return 1
    if infra or undecided:
        for i in infra:
            log('INFRA: ' + i)
        for ob in undecided:
            log('UNDECIDED (%s): %s' % ('not verified: the front end rejected this function, or an error elsewhere kept the verifier from reaching it' if ob.get('unreached') else 'proof needs maintenance, no semantic obligation failed', ob['id']))
            if ob.get('unreached') and ob.get('text') and (ob['id'].endswith('#front-end') or '#outside-contracts' in ob['id']):
                log('  ' + ob['text'][:300])
            d = ob.get('diag') or {}
            if d.get('rendered'):
                log('  ' + d['rendered'].strip().replace('\n', '\n  ')[:800])
        return 2
    n_ok = sum(1 for o in all_obs if o['status'] == 'discharged')
    n_kf = sum(1 for o in all_obs if o['status'] == 'known-finding')
    log('OK property=%s tier=%s obligations=%d discharged=%d%s units=%s wall=%.1fs' % (
        prop, tier, len(all_obs) - n_kf, n_ok, (' known-finding-obligations=%d' % n_kf) if n_kf else '', ','.join(units), time.time() - t0))
    return 0


def write_evidence(prop, tier, seed, units, results, all_obs, infra, violations, undecided, wall, extra):
    os.makedirs(EVID, exist_ok=True)
    trusted = []
    functions = []
    fb = []
    renames = {}
    dropped = {}
    canaries = 0
    canaries_ok = 0
    smt_ms = 0
    cmds = []
    for n in units:
        ur = results[n]
        g = ur.get('g')
        if g is None:
            continue
        trusted += ['[%s] %s' % (n, t) for t in g.trusted]
        for f in g.functions:
            if prop in f['props']:
                ff = dict(f)
                ff['engine'] = 'kani-bounded (external_body in Verus)' if f['external_body'] else 'verus'
                functions.append(ff)
        for k, v in g.renamed.items():
            renames[k] = renames.get(k, 0) + v
        for kind, txt in g.dropped:
            key = '%s %s' % (kind, txt)
            dropped[key] = dropped.get(key, 0) + 1
        res = ur.get('res') or {}
        smt_ms += res.get('smt_ms') or 0
        cmds.append(res.get('cmd', ''))
        canaries += ur.get('canaries_expected', 0) + ur.get('lemma_vacuity_twins', 0)
        canaries_ok += ur.get('canaries_failed_as_expected', 0) + ur.get('lemma_vacuity_twins_failed_as_expected', 0)
        for f in res.get('function_breakdown', []):
            fb.append({'unit': n, 'function': f['function'], 'ms': f['ms'], 'rlimit': f['rlimit'], 'success': f['success']})
    # an obligation that fails because of a committed known finding is not part of the proof-level claim: it is listed
    # separately (known_finding_obligations) together with the finding it belongs to
    kf_obs = [o for o in all_obs if o.get('status') == 'known-finding']
    counted = [o for o in all_obs if o['kind'] != 'proof-internal' and o.get('status') != 'known-finding']
    discharged = [o for o in counted if o['status'] == 'discharged']
    samples = [{'obligation': o['id'], 'kind': o['kind'], 'text': o['text'], 'status': o['status']} for o in counted[:6]]
    trusted_base = sorted(set(trusted)) + [
        'drivers D1-D7 of the `cipher`/`inout`/`crypto-common` crates: assumed as stated in prelude/*.rs (DESIGN 3.2)',
        'machine integers: Verus checks overflow on u8/u32/u64/u128/usize; spec arithmetic is on int/nat',
        'Verus 0.2026.09.13 + Z3; extraction transformation T of DESIGN 3.1 (checked by the fidelity guard every run)',
    ] + extra.get('trusted_base', [])
    ev = {
        'property_id': prop, 'tier': tier, 'seed': seed, 'level': 'proof',
        'coverage': {
            'obligations': len(counted), 'discharged': len(discharged),
            'checker_cmd': ' ; '.join(c for c in cmds if c),
            'trusted_base': trusted_base,
            'samples': samples,
            'functions_under_contract': functions,
            'verus_function_breakdown': sorted(fb, key=lambda x: -x['ms'])[:40],
            'solver_time_ms': smt_ms,
            'canaries_expected_to_fail': canaries, 'canaries_failed_as_expected': canaries_ok,
            'renames_applied': renames, 'dropped_by_extraction': dropped,
            'fidelity_items_checked': sum((results[n].get('g').fidelity_items if results[n].get('g') else 0) for n in units),
            'bounded': extra.get('bounded', []),
            'kani': extra.get('kani', []),
            'kani_incomplete': extra.get('kani_incomplete', []),
            'known_findings': extra.get('known_findings', []),
            'known_finding_obligations': [{'obligation': o['id'], 'text': o.get('text')} for o in kf_obs],
            'undecided': [o['id'] for o in undecided],
            'infrastructure_errors': infra,
            'units': units,
        },
        'assumptions': extra.get('assumptions', []) + [
            'every external_body / assume_specification / uninterp item listed in coverage.trusted_base',
            'the block cipher is a fixed function of its input block (D8)',
            'lemma hypotheses where stated: the cipher is length preserving, D after E is the identity (round-trip / resume lemmas), every keystream block has the block size (byte-wrapper lemmas)',
            'cfg(feature = "zeroize") and cfg(feature = "block-padding") are taken as enabled by the extraction; usize is 64 bits',
            'bounded stages (native random search, Kani harnesses) are exploration / bounded stand-ins and are not counted in obligations/discharged',
            'termination of exec functions is not claimed beyond what Verus requires (decreases on loops it asks for)'],
        'wall_s': round(wall, 2),
        'violations': len(violations),
    }
    with open(os.path.join(EVID, '%s.json' % prop), 'w') as f:
        json.dump(ev, f, indent=1, default=str)


def replay(path):
    doc = json.load(open(path))
    prop = doc['property']
    if doc.get('runner') == 'cargo' or doc.get('counterexample'):
        from . import stages
        return stages.replay(doc)
    from contracts import registry as REG
    ur = run_unit(doc['unit'], REG.load_units([doc['unit']])[doc['unit']], canaries=False)
    if ur['infra']:
        for i in ur['infra']:
            log('INFRA: ' + i)
        return 2
    for ob in obligations_for(prop, ur):
        if ob['id'] == doc['obligation']:
            if ob['status'] == 'failed':
                log('obligation %s still fails on the current tree:' % ob['id'])
                log((ob['diag'] or {}).get('rendered', ''))
                log('VIOLATION property=%s replay=%s no-failing-input-found' % (prop, path))
                return 1
            log('obligation %s is discharged on the current tree' % ob['id'])
            return 0
    log('obligation %s not found' % doc['obligation'])
    return 2


def main(argv):
    if len(argv) >= 2 and argv[0] == '--replay':
        return replay(argv[1])
    if not argv:
        log(__doc__)
        return 2
    prop = argv[0]
    tier = os.environ.get('VERIF_TIER', 'quick')
    if '--tier' in argv:
        tier = argv[argv.index('--tier') + 1]
    seed = int(os.environ.get('VERIF_SEED', '0') or 0)
    return check_property(prop, tier, seed)


if __name__ == '__main__':
    sys.exit(main(sys.argv[1:]))
