"""Mechanical extraction of items from /repo's working tree, the fixed transformation T applied to
them (DESIGN 3.1), and splicing of contract text.  Everything that is not a repo token is emitted
between the sentinels /*@+*/ and /*@-*/ so that the fidelity guard can remove it again."""
import copy
import hashlib
import os, json
import re

from .lexer import Tok, lex, match_close, strip_comments, LexError
from . import rustitems as R

REPO = os.environ.get('VERIF_REPO', '/repo')

# --- the rename table (single tokens; see DESIGN 3.1) -------------------------------------------
RENAMES = {
    'to_be_bytes': 'shim_to_be_bytes', 'to_le_bytes': 'shim_to_le_bytes', 'to_ne_bytes': 'shim_to_ne_bytes',
    'from_be_bytes': 'shim_from_be_bytes', 'from_le_bytes': 'shim_from_le_bytes',
    'from_ne_bytes': 'shim_from_ne_bytes',
    'try_into': 'shim_try_into',
    'try_from': 'shim_try_from',
}
# renames that apply only when the previous tokens are `<int type> ::`
INT_ASSOC = {'from_be_bytes', 'from_le_bytes', 'from_ne_bytes'}

IMPL_ARG_NAMES = {'process_with_backend': 'SCL'}
# alpha-renaming of a method-level generic parameter of a trait declaration to the name its impls use (this Verus
# mis-encodes inherited contracts when the names differ): trait name -> {old: new}
ALPHA = {'StreamCipherSeek': {'T': 'SN'}}

DROP_ATTR_HEADS = ('inline', 'derive', 'allow', 'doc', 'must_use', 'cfg_attr')


class InfraError(Exception):
    """lost anchor, unsupported construct, ... : never a verdict (exit 2)"""


class Clause:
    def __init__(self, name, props, text, only=False):
        self.name = name
        # only=True: a failure of this (trait) clause inside an implementation counts for the clause's own
        # properties only, not for the other properties the implementing function is claimed by
        self.only = only
        self.props = tuple(props)
        # properties a failure of this clause INSIDE AN IMPLEMENTATION counts for (trait clauses of the dependency
        # are counted once, in unit `deps`, but an impl that breaks them breaks these properties)
        self.iprops = tuple(props)
        self.text = text.strip().rstrip(',')


class FnC:
    def __init__(self, requires=(), ensures=(), ret=None, attrs=(), stmts=None, loops=None, iters=None,
                 external_body=False, extra_spec='', props=(), kani=(), note='', impl_args=None, inherits=False, closures=None):
        self.requires = list(requires)
        self.ensures = [c if isinstance(c, Clause) else Clause(*c) for c in ensures]
        self.ret = ret
        self.attrs = list(attrs)
        self.stmts = dict(stmts or {})
        self.loops = dict(loops or {})
        self.iters = dict(iters or {})
        # closures: {k: 'spec'} -- the k-th closure expression of the body (pre-order) gets `spec {` after its parameter
        # list and `}` after its body, e.g. '-> (rc: T) requires P ensures Q' (Verus reads closure contracts only from
        # such annotations)
        self.closures = dict(closures or {})
        self.external_body = external_body
        # an external_body function of the REPO whose text differs from the recorded outside-the-subset text
        # (contracts/outside_subset.json) is given to the verifier with its body: a rewrite INTO the subset is
        # then checked against the contract instead of staying on the bounded stand-in
        self.try_body = True
        self.extra_spec = extra_spec      # e.g. "opens_invariants none no_unwind"
        self.props = tuple(props)         # properties the body-level (safety) obligations belong to
        self.kani = tuple(kani)           # kani harnesses that stand in / confirm
        self.note = note
        self.impl_args = impl_args
        self.inherits = inherits      # the shim trait method carries an ensures this body must meet
        self.canary = False


class Sel:
    """selects one item of a source file"""

    def __init__(self, anchor, fns=None, members='', inside=None, pre='', drop_fns=(), rest='verify', rest_props=()):
        self.anchor = anchor
        self.fns = dict(fns or {})
        self.members = members
        self.inside = inside
        self.pre = pre
        self.drop_fns = tuple(drop_fns)
        self.rest = rest
        self.rest_props = tuple(rest_props)


class Mod:
    def __init__(self, name, file, uses='', items=(), text_before='', text_after='', export=False):
        self.name = name
        self.file = file
        self.uses = uses
        self.items = list(items)
        self.text_before = text_before
        self.text_after = text_after
        self.export = export


# ------------------------------------------------------------------------------ source files

def dep_dir(crate):
    """source directory of a dependency at the version pinned by /repo/Cargo.lock (cargo registry)"""
    lock = open(os.path.join(REPO, 'Cargo.lock')).read()
    m = re.search(r'name = "%s"\nversion = "([^"]+)"' % re.escape(crate), lock)
    if not m:
        raise InfraError('dependency %s not found in Cargo.lock' % crate)
    ver = m.group(1)
    base = os.path.expanduser('~/.cargo/registry/src')
    for d in sorted(os.listdir(base)):
        cand = os.path.join(base, d, '%s-%s' % (crate, ver))
        if os.path.isdir(cand):
            return cand, ver
    raise InfraError('source of %s %s not found in the cargo registry' % (crate, ver))


# ---- mechanical expansion of one-metavariable macro_rules! (the dependency generates `impl SeekNum for $t` this way).
# Only the shape `macro_rules! NAME { {$($v:ty )*} => { $( BODY )* }; }` + one invocation `NAME! { T1 T2 .. }` is
# supported; BODY is repeated once per Ti with every `$v` replaced by Ti (exactly what rustc does for this shape).
# Anything else is an infrastructure error, never a guess.
EXPAND_MACROS = {'dep:cipher/src/stream.rs': ['impl_seek_num']}
MACRO_EXPANSIONS = []   # (file, macro, [types]) of this process, reported under dropped_by_extraction


def _match_brace(text, i):
    assert text[i] == '{'
    d = 0
    for j in range(i, len(text)):
        if text[j] == '{':
            d += 1
        elif text[j] == '}':
            d -= 1
            if d == 0:
                return j
    raise InfraError('unbalanced braces in macro definition')


def expand_macro(text, name, relpath):
    m = re.search(r'macro_rules!\s+%s\s*\{' % re.escape(name), text)
    if not m:
        raise InfraError('macro %s not found in %s (lost anchor)' % (name, relpath))
    o = m.end() - 1
    c = _match_brace(text, o)
    inner = text[o + 1:c]
    mm = re.match(r'\s*\{\s*\$\(\s*\$(\w+)\s*:\s*ty\s*\)\*\s*\}\s*=>\s*\{', inner)
    if not mm:
        raise InfraError('macro %s in %s: matcher is not `{$($v:ty )*}` (unsupported shape)' % (name, relpath))
    var = mm.group(1)
    bo = mm.end() - 1
    bc = _match_brace(inner, bo)
    if inner[bc + 1:].strip() not in (';', ''):
        raise InfraError('macro %s in %s: more than one rule (unsupported shape)' % (name, relpath))
    body = inner[bo + 1:bc]
    rm = re.match(r'\s*\$\(', body)
    end = body.rstrip()
    if not rm or not end.endswith(')*'):
        raise InfraError('macro %s in %s: transcriber is not `$( .. )*` (unsupported shape)' % (name, relpath))
    rep = end[rm.end():-2]
    if re.search(r'\$(?!%s\b)' % re.escape(var), rep):
        raise InfraError('macro %s in %s: transcriber uses more than `$%s` (unsupported shape)' % (name, relpath, var))
    invs = list(re.finditer(r'(?m)^%s!\s*\{([^{}]*)\}' % re.escape(name), text))
    if len(invs) != 1:
        raise InfraError('macro %s in %s: %d invocations (expected 1)' % (name, relpath, len(invs)))
    tys = invs[0].group(1).split()
    if not tys or not all(re.fullmatch(r'\w+', t) for t in tys):
        raise InfraError('macro %s in %s: invocation arguments are not plain type names' % (name, relpath))
    out = ''.join(re.sub(r'\$%s\b' % re.escape(var), t, rep) + '\n' for t in tys)
    MACRO_EXPANSIONS.append((relpath, name, tys))
    return text[:invs[0].start()] + out + text[invs[0].end():]


class Source:
    def __init__(self, relpath):
        self.relpath = relpath
        macros = EXPAND_MACROS.get(relpath, ())
        if relpath.startswith('dep:'):
            crate, rest = relpath[4:].split('/', 1)
            d, ver = dep_dir(crate)
            path = os.path.join(d, rest)
            self.relpath = 'dep:%s-%s/%s' % (crate, ver, rest)
        else:
            path = os.path.join(REPO, relpath)
        try:
            self.text = open(path, encoding='utf-8').read()
        except OSError as e:
            raise InfraError('cannot read %s: %s' % (path, e))
        self.macro_expansions = []
        for mname in macros:
            self.text = expand_macro(self.text, mname, self.relpath)
            self.macro_expansions.append((mname, MACRO_EXPANSIONS[-1][2]))
        try:
            self.toks, _ = lex(self.text)
            self.items = R.parse_items(self.toks, 0, len(self.toks))
        except LexError as e:
            raise InfraError('cannot parse %s: %s' % (relpath, e))

    def find(self, anchor, inside=None):
        cands = self.items
        if inside:
            cands = []
            for f in self.all_fns():
                if f.name == inside and f.body:
                    for (lo, hi) in R.split_stmts(self.toks, f.body[0] + 1, f.body[1]):
                        try:
                            it = R.parse_item(self.toks, lo, hi)
                        except LexError:
                            it = None
                        if it is not None:
                            it.enclosing = f
                            cands.append(it)
        hits = [it for it in cands if it.label() == anchor]
        if len(hits) != 1:
            raise InfraError('anchor %r%s in %s: %d matches (lost or ambiguous anchor)' % (
                anchor, ' inside fn ' + inside if inside else '', self.relpath, len(hits)))
        return hits[0]

    def all_fns(self):
        out = []
        for it in self.items:
            if it.kind == 'fn':
                out.append(it)
            for m in it.members:
                if m.kind == 'fn':
                    out.append(m)
        return out


# ------------------------------------------------------------------------------ transformation T

def attr_head(toks, a):
    lo, hi = a
    j = lo + 1
    if toks[j].text == '!':
        j += 1
    return toks[j + 1].text


def is_zeroize_cfg(toks, a):
    # cfg gates that are taken as ENABLED by the extraction (recorded under dropped_by_extraction): zeroize (the Drop
    # impls) and block-padding (default feature of the mode crates; gates the padded front-ends of the dependency)
    txt = ''.join(t.text for t in toks[a[0]:a[1]])
    return txt in ('#[cfg(feature="zeroize")]', '#[cfg(feature="block-padding")]')


def mk(kind, text, ws=' '):
    return Tok(kind, text, ws, -1, -1)


def clone_tok(t, text=None):
    n = Tok(t.kind, t.text if text is None else text, strip_comments(t.ws), t.pos, t.line)
    return n


class TResult:
    def __init__(self):
        self.toks = []
        self.dropped = []     # (what, text)
        self.renamed = {}     # name -> count
        self.hoisted = []     # list of TResult for nested items


def nested_items_of_fn(toks, fn):
    out = []
    if not fn.body:
        return out
    for (lo, hi) in R.split_stmts(toks, fn.body[0] + 1, fn.body[1]):
        try:
            it = R.parse_item(toks, lo, hi)
        except LexError:
            it = None
        if it is not None and it.kind in ('struct', 'enum', 'impl', 'fn', 'use', 'trait', 'type'):
            out.append(it)
    return out


def transform(toks, it, hoist_names=None, hoist_suffix=None, is_member=False, res=None):
    """apply T to item `it` (token indexes into toks); returns TResult (flat token list)."""
    top = res is None
    if res is None:
        res = TResult()
    out = res.toks
    hoist_names = hoist_names or {}

    alpha = ALPHA.get(it.name, {}) if it.kind == 'trait' else (ALPHA.get(it.parent.name, {}) if it.parent is not None and it.parent.kind == 'trait' else {})

    def emit(t, text=None):
        if text is None and t.kind == 'ident' and t.text in hoist_names:
            text = hoist_names[t.text]
        if text is None and t.kind == 'ident' and t.text in alpha:
            text = alpha[t.text]
            res.renamed['generic %s->%s' % (t.text, text)] = res.renamed.get('generic %s->%s' % (t.text, text), 0) + 1
        out.append(clone_tok(t, text))

    # attributes
    first_ws = toks[it.lo].ws
    for a in it.attrs:
        head = attr_head(toks, a)
        txt = ''.join(t.text for t in toks[a[0]:a[1]])
        if head in DROP_ATTR_HEADS or is_zeroize_cfg(toks, a):
            res.dropped.append(('attr', txt))
        else:
            raise InfraError('unsupported attribute %s on %s' % (txt, it.label()))
    start = it.attrs[-1][1] if it.attrs else it.lo

    def body_tokens(lo, hi, fn_item):
        """emit body tokens lo..hi (exclusive) of a fn applying renames and dropping nested items,
        inner attributes and `use` statements"""
        skip = set()
        for n in nested_items_of_fn(toks, fn_item):
            for q in range(n.lo, n.hi):
                skip.add(q)
        j = lo
        while j < hi:
            if j in skip:
                j += 1
                continue
            t = toks[j]
            if t.text == '#' and toks[j + 1].text == '[':
                k = match_close(toks, j + 1)
                a = (j, k + 1)
                txt = ''.join(x.text for x in toks[j:k + 1])
                if is_zeroize_cfg(toks, a) or attr_head(toks, a) in DROP_ATTR_HEADS:
                    res.dropped.append(('attr', txt))
                    j = k + 1
                    continue
                raise InfraError('unsupported attribute %s in body of %s' % (txt, fn_item.name))
            if t.kind == 'ident' and t.text == 'use' and toks[j - 1].text in ('{', ';', '}', ']'):
                # a `use` declaration inside a nested block (Verus rejects items in bodies; the
                # prelude provides the names): dropped
                k = j
                while toks[k].text != ';':
                    k += 1
                res.dropped.append(('use', ''.join(x.text for x in toks[j:k + 1])))
                j = k + 1
                continue
            if t.kind == 'ident' and t.text in ('debug_assert_eq', 'debug_assert', 'assert') and toks[j + 1].text == '!':
                # an assertion macro panics when violated: rewritten to a Verus obligation (C13: no panic) --
                # `debug_assert_eq!(a, b);` -> `let dbg_l__ = a; let dbg_r__ = b; assert(dbg_l__ == dbg_r__);`
                k = match_close(toks, j + 2)
                args = [[]]
                depth = 0
                for q in range(j + 3, k):
                    x = toks[q]
                    if x.kind == 'punct' and x.text in ('(', '[', '{'):
                        depth += 1
                    elif x.kind == 'punct' and x.text in (')', ']', '}'):
                        depth -= 1
                    if depth == 0 and x.kind == 'punct' and x.text == ',':
                        args.append([])
                    else:
                        args[-1].append(x)
                ws = strip_comments(t.ws)
                def emit_let(name, a, first):
                    out.append(mk('ident', 'let', ws if first else ' '))
                    out.append(mk('ident', name))
                    out.append(mk('punct', '='))
                    for x in a:
                        emit(x)
                    out.append(mk('punct', ';', ''))
                if t.text == 'debug_assert_eq' and len(args) >= 2:
                    emit_let('dbg_l__', args[0], True)
                    emit_let('dbg_r__', args[1], False)
                    for tx in ('assert', '(', 'dbg_l__', '==', 'dbg_r__', ')'):
                        out.append(mk('punct' if tx in '()==' else 'ident', tx, ' ' if tx == 'assert' else ''))
                else:
                    emit_let('dbg_l__', args[0], True)
                    for tx in ('assert', '(', 'dbg_l__', ')'):
                        out.append(mk('punct' if tx in '()' else 'ident', tx, ' ' if tx == 'assert' else ''))
                res.dropped.append(('rewrite', '%s!(..) -> let-bound operands + Verus assert (proof obligation)' % t.text))
                j = k + 1
                continue
            if t.text == '|' and toks[j - 1].text in ('(', ',') and j + 2 < hi and toks[j + 1].text == '_' and toks[j + 2].text == '|':
                # `|_| expr`: wildcard closure parameter (not accepted by this Verus) -> `|_pat| expr`
                emit(t)
                out.append(mk('ident', '_pat', ''))
                emit(toks[j + 2])
                res.dropped.append(('rewrite', 'closure parameter `|_|` -> `|_pat|`'))
                j += 3
                continue
            if t.text == '|' and toks[j - 1].text in ('(', ',') and j + 2 < hi and toks[j + 1].kind == 'ident' \
                    and toks[j + 1].text[:1].isupper() and toks[j + 2].text == '|':
                # `|UnitStruct| expr`: a closure whose parameter is a unit-struct PATTERN (this Verus accepts only
                # variables as closure parameters) -> `|_pat: UnitStruct| expr`
                emit(t)
                out.append(mk('ident', '_pat', ''))
                out.append(mk('punct', ':', ''))
                out.append(clone_tok(toks[j + 1], None))
                out[-1].ws = ' '
                emit(toks[j + 2])
                res.dropped.append(('rewrite', 'closure parameter pattern `|%s|` -> `|_pat: %s|`' % (toks[j + 1].text, toks[j + 1].text)))
                j += 3
                continue
            if t.kind == 'ident' and t.text in RENAMES and j > 0 and toks[j - 1].text in ('.', '::'):
                res.renamed[t.text] = res.renamed.get(t.text, 0) + 1
                emit(t, RENAMES[t.text])
            else:
                emit(t)
            j += 1

    if it.kind == 'struct':
        res.dropped.append(('vis', ''.join(t.text for t in toks[it.vis[0]:it.vis[1]])))
        p = mk('ident', 'pub', strip_comments(first_ws))
        out.append(p)
        j = it.kw
        if it.body:
            for q in range(it.kw, it.body[0] + 1):
                emit(toks[q])
            # fields
            q = it.body[0] + 1
            while q < it.body[1]:
                fa, q2 = R.skip_attrs(toks, q, it.body[1])
                for a in fa:
                    res.dropped.append(('attr', ''.join(t.text for t in toks[a[0]:a[1]])))
                v, q3 = R.skip_vis(toks, q2, it.body[1])
                ws = strip_comments(toks[q].ws)
                out.append(mk('ident', 'pub', ws))
                # field: up to ',' at depth 0
                first = True
                depth = 0
                while q3 < it.body[1]:
                    t = toks[q3]
                    if t.kind == 'punct' and t.text in ('<',):
                        depth += 1
                    elif t.kind == 'punct' and t.text == '>':
                        depth -= 1
                    elif t.kind == 'punct' and t.text in ('(', '['):
                        k = match_close(toks, q3)
                        for z in range(q3, k):
                            emit(toks[z])
                        q3 = k
                        t = toks[q3]
                    n = clone_tok(t)
                    if t.kind == 'ident' and t.text in hoist_names:
                        n.text = hoist_names[t.text]
                    if first:
                        n.ws = ' '
                        first = False
                    out.append(n)
                    q3 += 1
                    if t.kind == 'punct' and t.text == ',' and depth == 0:
                        break
                q = q3
            emit(toks[it.body[1]])
        else:
            for q in range(it.kw, it.hi):
                emit(toks[q])
        return res

    if it.kind == 'enum':
        if it.body and it.body[1] == it.body[0] + 1:
            # uninhabited tag type -> unit struct
            out.append(mk('ident', 'pub', strip_comments(first_ws)))
            out.append(mk('ident', 'struct'))
            for q in range(it.kw + 1, it.body[0]):
                emit(toks[q])
            out.append(mk('punct', ';', ''))
            res.dropped.append(('rewrite', 'enum %s {} -> struct %s;' % (it.name, it.name)))
            return res
        raise InfraError('enum %s with variants is outside the supported subset' % it.name)

    if it.kind in ('const', 'type', 'use', 'static'):
        if not is_member and it.kind in ('const', 'type'):
            res.dropped.append(('vis', ''.join(t.text for t in toks[it.vis[0]:it.vis[1]])))
            out.append(mk('ident', 'pub', strip_comments(first_ws)))
            for q in range(it.vis[1], it.hi):
                emit(toks[q])
            return res
        t0 = clone_tok(toks[start])
        t0.ws = strip_comments(first_ws)
        out.append(t0)
        for q in range(start + 1, it.hi):
            emit(toks[q])
        return res

    if it.kind == 'fn':
        t0 = True
        # header with `impl Trait` argument rewriting
        hend = it.body[0] if it.body else it.hi - 1
        header = list(range(start, hend))
        # find `ident : impl Bound` at paren depth 1
        impl_positions = [q for q in header if toks[q].kind == 'ident' and toks[q].text == 'impl'
                          and toks[q - 1].text == ':']
        moved = []   # (generic name, bound token indexes)
        skipq = {}
        for n_i, q in enumerate(impl_positions):
            # bound extends to ',' or ')' at depth 0 (angle-aware)
            depth = 0
            e = q + 1
            while e < hend:
                t = toks[e]
                if t.kind == 'punct' and t.text == '<':
                    depth += 1
                elif t.kind == 'punct' and t.text == '>':
                    depth -= 1
                elif t.kind == 'punct' and t.text in ('(', '['):
                    e = match_close(toks, e)
                elif depth == 0 and t.kind == 'punct' and t.text in (',', ')'):
                    break
                e += 1
            # the name must equal the one used by the shim trait declaration (this Verus mis-encodes
            # inherited ensures otherwise); `F` collides with CtrCore's own parameter, hence the table
            gname = IMPL_ARG_NAMES.get(it.name, 'F')
            if len(impl_positions) > 1:
                raise InfraError('more than one impl-Trait argument in fn %s' % it.name)
            moved.append((gname, list(range(q + 1, e))))
            skipq[q] = (gname, e)
            res.dropped.append(('rewrite', 'impl-Trait argument -> named generic %s' % gname))
        name_idx = it.kw + 1
        # `mut self` receivers are not supported by this Verus: `fn f(mut self, ..) { B }` is rewritten to
        # `fn f(self, ..) { let mut this__ = self; B[self := this__] }`
        mut_self = None
        for q0 in header:
            if toks[q0].text == 'mut' and q0 + 1 < hend and toks[q0 + 1].text == 'self' and toks[q0 - 1].text == '(':
                mut_self = q0
        q = start
        if not is_member:
            # free functions are referenced across the generated modules: visibility rewritten to `pub`
            res.dropped.append(('vis', ''.join(t.text for t in toks[it.vis[0]:it.vis[1]])))
            out.append(mk('ident', 'pub', strip_comments(first_ws)))
            q = it.vis[1]
            first_ws = ' '
        while q < hend:
            t = toks[q]
            if q in skipq:
                gname, e = skipq[q]
                out.append(mk('ident', gname))
                q = e
                continue
            if mut_self is not None and q == mut_self:
                res.dropped.append(('rewrite', '`mut self` receiver -> `self` + `let mut this__ = self;`'))
                q += 1
                continue
            n = clone_tok(t)
            if q == start or (not is_member and q == it.vis[1]):
                n.ws = strip_comments(first_ws)
            if t.kind == 'ident' and t.text in hoist_names:
                n.text = hoist_names[t.text]
            elif t.kind == 'ident' and t.text in alpha:
                n.text = alpha[t.text]
                res.renamed['generic %s->%s' % (t.text, n.text)] = res.renamed.get('generic %s->%s' % (t.text, n.text), 0) + 1
            out.append(n)
            if q == name_idx and moved:
                has_generics = toks[q + 1].text == '<'
                if has_generics:
                    raise InfraError('impl-Trait argument together with explicit generics in fn %s' % it.name)
                out.append(mk('punct', '<', ''))
                for gi, (gname, idxs) in enumerate(moved):
                    if gi:
                        out.append(mk('punct', ',', ''))
                    out.append(mk('ident', gname, ''))
                    out.append(mk('punct', ':', ''))
                    for z in idxs:
                        emit(toks[z])
                out.append(mk('punct', '>', ''))
            q += 1
        if it.body:
            emit(toks[it.body[0]])
            if mut_self is not None:
                for tx, kd in (('let', 'ident'), ('mut', 'ident'), ('this__', 'ident'), ('=', 'punct'), ('self', 'ident'), (';', 'punct')):
                    out.append(mk(kd, tx, ' '))
                hoist_names = dict(hoist_names, self='this__')
            body_tokens(it.body[0] + 1, it.body[1], it)
            emit(toks[it.body[1]])
        else:
            emit(toks[it.hi - 1])
        return res

    if it.kind in ('impl', 'trait'):
        n0 = clone_tok(toks[start])
        n0.ws = strip_comments(first_ws)
        if it.kind == 'trait' and it.vis[1] > it.vis[0]:
            pass
        out.append(n0)
        for q in range(start + 1, it.body[0] + 1):
            emit(toks[q])
        for m in it.members:
            transform(toks, m, hoist_names, hoist_suffix, True, res)
        emit(toks[it.body[1]])
        return res
    raise InfraError('unsupported item kind %s' % it.kind)


# ------------------------------------------------------------------------------ splicing

ADD_O = '/*@+*/'
ADD_C = '/*@-*/'


def add(text):
    return ADD_O + text + ADD_C


class Emitter:
    """collects output text; tracks clause markers"""

    def __init__(self):
        self.parts = []

    def tok(self, t):
        self.parts.append(t.ws + t.text)

    def add(self, text):
        if text:
            self.parts.append(add(text))

    def raw(self, text):
        self.parts.append(text)

    def text(self):
        return ''.join(self.parts)


def generic_type_params(toks, kw_idx, end_idx):
    """names of type parameters in `struct Name<'a, A, B: X>`"""
    out = []
    j = kw_idx + 2
    if j < end_idx and toks[j].text == '<':
        depth = 0
        expect = True
        while j < end_idx:
            t = toks[j]
            if t.text == '<':
                depth += 1
                if depth == 1:
                    expect = True
            elif t.text == '>':
                depth -= 1
                if depth == 0:
                    break
            elif depth == 1 and t.text == ',':
                expect = True
            elif depth == 1 and expect:
                if t.kind == 'ident' and t.text != 'const':
                    out.append(t.text)
                expect = False
            j += 1
    return out


def resolve_addr(toks, body, addr):
    """addr: 'end' | 'k' | 'k.g.j' ... -> token index before which to insert (index of the closing
    brace for 'end')."""
    lo, hi = body[0] + 1, body[1]
    parts = str(addr).split('.')
    i = 0
    while True:
        p = parts[i]
        stmts = R.split_stmts(toks, lo, hi)
        if p == 'end':
            return hi
        k = int(p)
        if k >= len(stmts):
            raise InfraError('statement address %s out of range (%d statements)' % (addr, len(stmts)))
        s = stmts[k]
        if i == len(parts) - 1:
            return s[0]
        g = int(parts[i + 1])
        groups = R.brace_groups(toks, s[0], s[1])
        if g >= len(groups):
            raise InfraError('statement address %s: no brace group %d' % (addr, g))
        lo, hi = groups[g][0] + 1, groups[g][1]
        i += 2


def splice_fn(em, toks, fn, fc, ctx, marks):
    """toks: T'd tokens; fn: Item parsed over them; fc: FnC or None; marks: list collecting clause ids"""
    hend = fn.body[0] if fn.body else fn.hi - 1
    pre_attrs = []
    if fc is not None and fn.body and not fc.external_body and (fc.stmts or fc.loops or getattr(fc, 'closures', None)) and not os.environ.get('VERIF_RECORD_OUTSIDE'):
        rmap = local_renames(ctx, toks, fn)
        if rmap:
            fc = rename_hints(fc, rmap)
    if fc is not None:
        pre_attrs += list(fc.attrs)
        if fc.external_body and fn.body:
            pre_attrs.append('#[verifier::external_body]')
    ins_before = {}

    def ins(idx, text, front=False):
        if front:
            ins_before.setdefault(idx, []).insert(0, text)
        else:
            ins_before.setdefault(idx, []).append(text)

    ins(fn.lo, '/*@fn:%s*/' % ctx)
    if pre_attrs:
        ins(fn.lo, '\n' + ' '.join(pre_attrs) + ' ')
    if fc is not None:
        # return value naming
        arrow = None
        j = fn.kw
        while j < hend:
            t = toks[j]
            if t.kind == 'punct' and t.text in ('(', '['):
                j = match_close(toks, j)
            elif t.kind == 'punct' and t.text == '->':
                arrow = j
                break
            j += 1
        where = hend
        depth = 0
        for q in range(fn.kw, hend):
            t = toks[q]
            if t.kind == 'punct' and t.text in ('(', '['):
                pass
            if t.kind == 'ident' and t.text == 'where':
                where = q
                break
        if fc.ret:
            if arrow is None:
                raise InfraError('fn %s: contract names a result but the function returns ()' % fn.name)
            ins(arrow + 1, ' (' + fc.ret + ':')
            ins(where, ')')
        spec = []
        if fc.requires:
            spec.append('\n    requires')
            for r in fc.requires:
                spec.append('\n        ' + r.strip().rstrip(',') + ',')
        ens = list(fc.ensures)
        if ens:
            spec.append('\n    ensures')
            for c in ens:
                cid = '%s#%s' % (ctx, c.name)
                marks.append({'id': cid, 'fn': ctx, 'clause': c.name, 'props': list(c.props), 'iprops': list(getattr(c, 'iprops', c.props)), 'only': getattr(c, 'only', False), 'text': c.text})
                spec.append('\n        /*@c:%s*/ %s,' % (cid, c.text))
            spec.append('\n    /*@c:-*/')
        if fc.extra_spec:
            spec.append('\n    ' + fc.extra_spec)
        if spec:
            ins(hend, ''.join(spec) + '\n')
        if fn.body and not fc.external_body and fc.canary:
            # vacuity canary: `assert(false)` that must FAIL.  Placed at the end of the body, or before
            # a tail expression (an `ensures false` would instead leak into the callers' context).
            st = R.split_stmts(toks, fn.body[0] + 1, fn.body[1])
            if not st:
                cidx = fn.body[1]
            else:
                last = st[-1]
                lt = toks[last[1] - 1].text
                first = toks[last[0]].text
                if lt == '}' and first in ('if', 'match', 'unsafe', 'loop') and arrow is not None:
                    cidx = last[0]      # block-like tail expression of a function that returns a value
                elif lt == ';' or (lt == '}' and first in R.BLOCK_KW):
                    cidx = fn.body[1]
                else:
                    cidx = last[0]
            marks.append({'id': '%s#__canary' % ctx, 'fn': ctx, 'clause': '__canary', 'props': [], 'text': 'assert(false)', 'canary': True})
            ins(cidx, '\n/*@k:%s*/ assert(false);\n' % ctx)
        if fn.body and not fc.external_body:
            for addr, text in fc.stmts.items():
                idx = resolve_addr(toks, fn.body, addr)
                ins(idx, '\n' + text.strip('\n') + '\n')
            if fc.loops or fc.iters:
                loops = R.find_loops(toks, fn.body[0] + 1, fn.body[1])
                for k, text in fc.loops.items():
                    if k >= len(loops):
                        raise InfraError('fn %s: loop %d not found (%d loops)' % (fn.name, k, len(loops)))
                    ins(loops[k]['body'][0], '\n' + text.strip('\n') + '\n')
                for k, name in fc.iters.items():
                    if k >= len(loops) or loops[k]['in'] is None:
                        raise InfraError('fn %s: for-loop %d not found' % (fn.name, k))
                    ins(loops[k]['in'] + 1, ' ' + name + ':')
    if fc is not None and fn.body and not fc.external_body and getattr(fc, 'closures', None):
        cl = find_closures(toks, fn.body[0] + 1, fn.body[1])
        for k, spec in fc.closures.items():
            if k >= len(cl):
                raise InfraError('fn %s: closure %d not found (%d closures)' % (fn.name, k, len(cl)))
            (p_open, p_close, end) = cl[k]
            ins(p_close + 1, ' ' + spec.strip() + ' {')
            ins(end, ' }', front=True)
    dropped = None
    if ctx in DEMOTED and fn.body and fn.body[1] > fn.body[0] + 1:
        # the front end rejects this function's current text: its body is not shown to the verifier at all (rustc would
        # still type-check an external_body); the function is reported undecided and excluded from the fidelity guard
        dropped = (fn.body[0] + 1, fn.body[1])
    for q in range(fn.lo, fn.hi):
        if dropped and dropped[0] <= q < dropped[1]:
            continue
        if dropped and q == dropped[1]:
            em.add(' unimplemented!() ')
        else:
            for text in ins_before.get(q, ()):
                em.add(text)
        em.tok(toks[q])
    return dropped


def init_post_member(toks, impl_item, sel):
    """`impl InnerIvInit for X` / `impl InnerInit for X`: the trait (extracted from crypto-common) states the result of
    the constructor through a spec member `iv_init_post` / `init_post`; here it is DEFINED as the conjunction of the
    ensures clauses the contract file gives for this impl's constructor (so the two cannot drift apart)."""
    for trait, fname, post, ivty in (('InnerIvInit', 'inner_iv_init', 'iv_init_post', True), ('InnerInit', 'inner_init', 'init_post', False)):
        if not sel.anchor.startswith('impl %s for ' % trait):
            continue
        fc = sel.fns.get(fname)
        if fc is None or callable(fc) or not fc.ensures or not fc.ret:
            return ''
        m = [x for x in impl_item.members if x.kind == 'fn' and x.name == fname]
        if not m:
            return ''
        m = m[0]
        # parameter names of the constructor
        j = m.kw
        while toks[j].text != '(':
            j += 1
        close = match_close(toks, j)
        names = []
        depth = 0
        for q in range(j + 1, close):
            t = toks[q]
            if t.kind == 'punct' and t.text in ('(', '[', '<'):
                depth += 1
            elif t.kind == 'punct' and t.text in (')', ']', '>'):
                depth -= 1
            elif depth == 0 and t.kind == 'ident' and toks[q + 1].text == ':' and toks[q - 1].text in ('(', ',', 'mut'):
                names.append(t.text)
        want = 2 if ivty else 1
        if len(names) != want:
            raise InfraError('%s: cannot read the parameter names of %s' % (sel.anchor, fname))
        body = ' && '.join('(%s)' % c.text for c in fc.ensures)
        if ivty:
            return '\n    open spec fn %s(%s: Self::Inner, %s: Iv<Self>, %s: Self) -> bool { %s }\n' % (post, names[0], names[1], fc.ret, body)
        return '\n    open spec fn %s(%s: Self::Inner, %s: Self) -> bool { %s }\n' % (post, names[0], fc.ret, body)
    return ''


def fn_locals(toks, fn):
    """identifiers bound inside the body of `fn`, in order of appearance: `let [mut] x`, `let (a, mut b)`, `for x in`,
    `for (a, b) in`, closure parameters `|x|` in argument position"""
    out = []
    if not fn.body:
        return out
    lo, hi = fn.body[0] + 1, fn.body[1]
    j = lo
    KW = ('mut', 'ref', '_')

    def pat_idents(a, b):
        return [toks[q].text for q in range(a, b) if toks[q].kind == 'ident' and toks[q].text not in KW
                and toks[q + 1].text not in ('::', '(', '{') and toks[q - 1].text not in ('::',) and not toks[q].text[:1].isupper()]

    while j < hi:
        t = toks[j]
        if t.kind == 'ident' and t.text == 'let':
            k = j + 1
            while k < hi and toks[k].text not in ('=', ':', ';'):
                if toks[k].text in ('(', '['):
                    k = match_close(toks, k)
                k += 1
            out += pat_idents(j + 1, k)
            j = k
            continue
        if t.kind == 'ident' and t.text == 'for':
            k = j + 1
            while k < hi and not (toks[k].kind == 'ident' and toks[k].text == 'in'):
                k += 1
            out += pat_idents(j + 1, k)
            j = k
            continue
        if t.kind == 'punct' and t.text == '|' and toks[j - 1].text in ('(', ','):
            k = j + 1
            while k < hi and toks[k].text != '|':
                k += 1
            out += [toks[q].text for q in range(j + 1, k) if toks[q].kind == 'ident' and toks[q].text not in KW and toks[q - 1].text in ('|', ',', 'mut')]
            j = k + 1
            continue
        j += 1
    return out


_LOCALS = None


def local_renames(ctx, toks, fn):
    """{old: new} when the body binds the same NUMBER of locals as on the tree the proof annotations were written for
    (contracts/locals_baseline.json) but some carry other names: a pure rename, which the annotations follow"""
    global _LOCALS
    if _LOCALS is None:
        p = os.path.join(os.path.dirname(os.path.dirname(os.path.abspath(__file__))), 'contracts', 'locals_baseline.json')
        _LOCALS = json.load(open(p)).get('functions', {}) if os.path.exists(p) else {}
    base = _LOCALS.get(ctx)
    if base is None:
        return {}
    cur = fn_locals(toks, fn)
    if len(cur) != len(base) or cur == base:
        return {}
    m = {}
    for a, b in zip(base, cur):
        if a != b:
            if m.get(a, b) != b:
                return {}          # not a consistent renaming
            m[a] = b
    if set(m.values()) & (set(base) - set(m)):
        return {}                  # a new name collides with a kept one
    return m


def rename_hints(fc, m):
    import copy as _c
    fc2 = _c.copy(fc)
    pat = re.compile(r'(?<![\w@])(' + '|'.join(re.escape(k) for k in sorted(m, key=len, reverse=True)) + r')(?!\w)')

    def rn(text):
        return pat.sub(lambda mm: m[mm.group(1)], text)
    fc2.stmts = dict((k, rn(v)) for k, v in fc.stmts.items())
    fc2.loops = dict((k, rn(v)) for k, v in fc.loops.items())
    fc2.closures = dict((k, rn(v)) for k, v in getattr(fc, 'closures', {}).items())
    fc2.note = (fc.note + ' ' if fc.note else '') + '[locals renamed in the body: proof annotations follow: %s]' % ', '.join('%s->%s' % kv for kv in sorted(m.items()))
    return fc2


def find_closures(toks, lo, hi):
    """closure expressions in toks[lo:hi], pre-order: (index of opening `|`, index of closing `|`, index of the token
    that ends the closure expression).  Only closures in argument position `(|..| body)` / `, |..| body` are found."""
    out = []
    j = lo
    while j < hi:
        t = toks[j]
        if t.kind == 'punct' and t.text == '|' and toks[j - 1].text in ('(', ','):
            k = j + 1
            while k < hi and toks[k].text != '|':
                k += 1
            e = k + 1
            while e < hi:
                u = toks[e]
                if u.kind == 'punct' and u.text in ('(', '[', '{'):
                    e = match_close(toks, e)
                elif u.kind == 'punct' and u.text in (',', ')', ';'):
                    break
                e += 1
            out.append((j, k, e))
            j = k + 1
            continue
        j += 1
    return out


def unclaimed_items(sources, claimed):
    """top-level items of the extracted source files that no contract selects: {file: [labels]}.  `use` / `mod` /
    `extern` declarations and macro definitions are not items of interest."""
    out = {}
    got = set(claimed)
    for f, src in sources.items():
        if src is None:
            continue
        labels = []
        for it in src.items:
            if it.kind in ('use', 'mod', 'extern', 'macro_rules'):
                continue
            if (f, it.lo) in got:
                continue
            labels.append(it.label())
        out[f] = sorted(labels)
    return out


def body_hash(toks, fn):
    if not fn.body:
        return None
    h = hashlib.sha256()
    for t in toks[fn.body[0]:fn.body[1] + 1]:
        h.update(t.text.encode())
        h.update(b'\0')
    return h.hexdigest()[:16]


_OUTSIDE = None
FORCE_EXTERNAL = set()
# functions whose current text (with its proof annotations) the verifier's front end rejects: given to the verifier
# WITHOUT body (contract assumed for callers, the function itself reported undecided) so that the rest of the unit is
# still verified
DEMOTED = set()
DEMOTE_REASON = {}
# demoted functions whose CONTRACT text the front end rejects as well (e.g. the change removed a trait bound the clause uses):
# emitted without contract and without body, all their obligations undecided
NOCONTRACT = set()


def outside_subset():
    global _OUTSIDE
    if _OUTSIDE is None:
        p = os.path.join(os.path.dirname(os.path.dirname(os.path.abspath(__file__))), 'contracts', 'outside_subset.json')
        _OUTSIDE = json.load(open(p)).get('functions', {}) if os.path.exists(p) else {}
    return _OUTSIDE


def effective_fc(fc, ctx, toks, fn):
    """(FnC to splice, tried_body): see FnC.try_body"""
    if ctx in NOCONTRACT and fn.body:
        fc2 = FnC(external_body=True, props=(fc.props if fc is not None else ()), note='[front end rejects the contract text against the changed item: undecided]')
        return fc2, False
    if ctx in DEMOTED and fn.body:
        import copy
        fc2 = copy.copy(fc) if fc is not None else FnC()
        fc2.external_body = True
        fc2.stmts, fc2.loops, fc2.iters = {}, {}, {}
        fc2.note = (fc2.note + ' ' if fc2.note else '') + '[front end rejects the current text of this function: body not verified, undecided]'
        return fc2, False
    if fc is None or not fc.external_body or not fn.body or not getattr(fc, 'try_body', True):
        return fc, False
    if os.environ.get('VERIF_RECORD_OUTSIDE'):
        return fc, False
    if outside_subset().get(ctx) == body_hash(toks, fn) or ctx in FORCE_EXTERNAL:
        return fc, False
    import copy
    fc2 = copy.copy(fc)
    fc2.external_body = False
    fc2.note = (fc.note + ' ' if fc.note else '') + '[text differs from the recorded outside-the-subset text: body given to the verifier]'
    return fc2, True


class Extracted:
    """result of generating one module"""

    def __init__(self):
        self.text = ''
        self.functions = []   # dicts: name(ctx), file, anchor, line, hash, engine, props, kani
        self.marks = []
        self.dropped = []
        self.renamed = {}
        self.items = []       # (item id, expected token texts)
        self.claimed = []     # (file, token index of the item start) of every selected source item
        self.derives = {}     # 'file :: item label' -> sorted derive arguments that T dropped


def gen_mod(mod, sources):
    src = sources.setdefault(mod.file, None) or Source(mod.file)
    sources[mod.file] = src
    ex = Extracted()
    for mname, tys in getattr(src, 'macro_expansions', []):
        ex.dropped.append(('rewrite', 'macro_rules! %s in %s expanded mechanically: its body once per type (%s), `$t` substituted' % (mname, src.relpath, ' '.join(tys))))
    em = Emitter()
    em.raw('\npub mod %s {\nuse super::*;\n%s\n%s\n' % (mod.name, mod.uses, mod.text_before))
    n_item = 0
    for sel in mod.items:
        it = src.find(sel.anchor, sel.inside)
        hoist_names = {}
        # names to rename when hoisting: nested struct names of the enclosing fn
        enclosing = getattr(it, 'enclosing', None)

        def hoist_map(fnitem):
            m = {}
            for n in nested_items_of_fn(src.toks, fnitem):
                if n.kind in ('struct', 'enum'):
                    m[n.name] = '%s__%s' % (n.name, fnitem.name)
            return m

        if enclosing is not None:
            hoist_names = hoist_map(enclosing)
        if it.kind == 'impl':
            # members that contain nested items get their names mapped too
            for m in it.members:
                if m.kind == 'fn':
                    hm = hoist_map(m)
                    for k, v in hm.items():
                        if k in hoist_names and hoist_names[k] != v:
                            raise InfraError('conflicting hoist names in %s' % it.label())
                        hoist_names[k] = v
        elif it.kind == 'fn':
            hoist_names.update(hoist_map(it))
        if it.kind in ('impl', 'trait') and sel.drop_fns:
            it = copy.copy(it)
            it.members = [m for m in it.members if not (m.kind == 'fn' and m.name in sel.drop_fns)]
            for d in sel.drop_fns:
                ex.dropped.append(('member', '%s::%s (not extracted)' % (sel.anchor, d)))
        orig_it = src.find(sel.anchor, sel.inside)
        ex.claimed.append((mod.file, orig_it.lo))
        dv = []
        for a in orig_it.attrs:
            txt = ''.join(t.text for t in src.toks[a[0]:a[1]])
            mm = re.match(r'#\[derive\((.*)\)\]$', txt)
            if mm:
                dv += [x.strip() for x in mm.group(1).split(',') if x.strip()]
            mm = re.match(r'#\[cfg_attr\((.*?),derive\((.*)\)\)\]$', txt)
            if mm:
                dv += ['%s if %s' % (x.strip(), mm.group(1)) for x in mm.group(2).split(',') if x.strip()]
        if orig_it.kind in ('struct', 'enum'):
            ex.derives['%s :: %s' % (mod.file, orig_it.label())] = sorted(dv)
        tr = transform(src.toks, it, hoist_names)
        ex.dropped += tr.dropped
        for k, v in tr.renamed.items():
            ex.renamed[k] = ex.renamed.get(k, 0) + v
        toks = tr.toks
        n_item += 1
        item_id = '%s:%d' % (mod.name, n_item)
        ex.items.append((item_id, [t.text for t in toks], sel.anchor, mod.file))
        dropped_ranges = []
        try:
            pit = R.parse_items(toks, 0, len(toks))
        except LexError as e:
            raise InfraError('re-parse of transformed %s failed: %s' % (sel.anchor, e))
        if len(pit) != 1:
            raise InfraError('transformed %s is not a single item' % sel.anchor)
        p = pit[0]
        em.raw('\n/*@item %s*/' % item_id)
        pre = sel.pre
        if p.kind == 'struct':
            gens = generic_type_params(toks, p.kw, p.body[0] if p.body else p.hi)
            pre = pre + ''.join('\n#[verifier::reject_recursive_types(%s)]' % g for g in gens)
        if pre:
            em.add(pre + '\n')
        base_ctx = '%s::%s' % (mod.name, sel.anchor.replace('impl ', '').replace(' for ', '@').replace(' ', '_'))
        if enclosing is not None:
            base_ctx += '[%s]' % sel.inside
        if p.kind in ('impl', 'trait'):
            for q in range(p.lo, p.body[0] + 1):
                em.tok(toks[q])
            members = sel.members(toks, p) if callable(sel.members) else sel.members
            members = (members or '') + init_post_member(toks, p, sel)
            if members:
                em.add('\n' + members.strip('\n') + '\n')
            seen = set()
            for m in p.members:
                if m.kind == 'fn':
                    fc = sel.fns.get(m.name)
                    seen.add(m.name)
                    ctx = '%s::%s' % (base_ctx, m.name)
                    if callable(fc):
                        fc_maker = fc
                        try:
                            fc = fc(toks, m)
                        except InfraError as e_:
                            # the contract of this function is read mechanically from its body (e.g. Debug text) and the
                            # current body is outside the readable shape: the function is undecided, the unit goes on
                            DEMOTED.add(ctx)
                            DEMOTE_REASON[ctx] = str(e_)[:300]
                            fc = FnC(inherits=True, props=getattr(fc_maker, 'props', ()))
                    if fc is None and m.body:
                        if sel.rest == 'external':
                            fc = FnC(external_body=True, note='not under contract')
                        else:
                            # a method the contract files do not know (e.g. newly added override of a
                            # default method): verified against whatever the shim trait demands of it
                            fc = FnC(inherits=True, props=sel.rest_props,
                                     note='no contract file: checked against the inherited trait contract only')
                    fc, tried = effective_fc(fc, ctx, toks, m)
                    try:
                        n_marks = len(ex.marks)
                        dr = splice_fn(em, toks, m, fc, ctx, ex.marks)
                    except InfraError as e_:
                        # the proof annotations no longer fit the body (a statement / loop / closure they are anchored to is
                        # gone).  If only closure annotations are lost the body is still given to the verifier without them;
                        # otherwise this function is undecided (demoted) and the rest of the unit is still verified
                        del ex.marks[n_marks:]
                        done = False
                        if 'closure' in str(e_) and fc is not None and not (fc.stmts or fc.loops or fc.iters):
                            fc3 = copy.copy(fc)
                            fc3.closures = {}
                            try:
                                dr = splice_fn(em, toks, m, fc3, ctx, ex.marks)
                                fc = fc3
                                done = True
                            except InfraError:
                                del ex.marks[n_marks:]
                        if not done:
                            DEMOTED.add(ctx)
                            DEMOTE_REASON[ctx] = str(e_)[:300]
                            fc, tried = effective_fc(sel.fns.get(m.name) if not callable(sel.fns.get(m.name)) else fc, ctx, toks, m)
                            dr = splice_fn(em, toks, m, fc, ctx, ex.marks)
                    if dr:
                        dropped_ranges.append(dr)
                    orig = [o for o in it.members if o.kind == 'fn' and o.name == m.name][0]
                    ex.functions.append({
                        'tried_body': tried,
                        'id': ctx, 'file': mod.file, 'anchor': sel.anchor + ' :: fn ' + m.name,
                        'line': src.toks[orig.kw].line, 'body_sha256_16': body_hash(toks, m),
                        'under_contract': bool(fc and (fc.ensures or fc.requires or not fc.external_body) and fc.note != 'not under contract'),
                        'external_body': bool(fc and fc.external_body),
                        'props': list(fc.props) if fc else [], 'kani': list(fc.kani) if fc else [],
                        'note': fc.note if fc else '', 'has_body': bool(m.body),
                        'inherits': bool(fc and fc.inherits)})
                else:
                    for q in range(m.lo, m.hi):
                        em.tok(toks[q])
            missing = set(sel.fns) - seen
            if missing:
                raise InfraError('lost anchor: fn %s not found in %s (%s)' % (sorted(missing), sel.anchor, mod.file))
            em.tok(toks[p.body[1]])
        elif p.kind == 'fn':
            fc = sel.fns.get(p.name)
            if callable(fc):
                fc = fc(toks, p)
            if set(sel.fns) - {p.name}:
                raise InfraError('contract for unknown fn in %s' % sel.anchor)
            ctx = base_ctx.replace('fn_', '')
            fc, tried = effective_fc(fc, ctx, toks, p)
            try:
                n_marks = len(ex.marks)
                dr = splice_fn(em, toks, p, fc, ctx, ex.marks)
            except InfraError as e_:
                del ex.marks[n_marks:]
                DEMOTED.add(ctx)
                DEMOTE_REASON[ctx] = str(e_)[:300]
                fc, tried = effective_fc(fc, ctx, toks, p)
                dr = splice_fn(em, toks, p, fc, ctx, ex.marks)
            if dr:
                dropped_ranges.append(dr)
            ex.functions.append({
                'tried_body': tried,
                'id': ctx, 'file': mod.file, 'anchor': sel.anchor, 'line': src.toks[it.kw].line,
                'body_sha256_16': body_hash(toks, p),
                'under_contract': bool(fc), 'external_body': bool(fc and fc.external_body),
                'props': list(fc.props) if fc else [], 'kani': list(fc.kani) if fc else [],
                'note': fc.note if fc else '', 'has_body': True, 'inherits': False})
        else:
            for q in range(p.lo, p.hi):
                em.tok(toks[q])
        if dropped_ranges:
            keep = [t.text for i_, t in enumerate(toks) if not any(a <= i_ < b for a, b in dropped_ranges)]
            ex.items[-1] = (item_id, keep, sel.anchor, mod.file)
        em.raw('/*@end %s*/\n' % item_id)
    em.raw('\n%s\n} // mod %s\n' % (mod.text_after, mod.name))
    ex.text = em.text()
    return ex


# ------------------------------------------------------------------------------ fidelity guard

def strip_additions(text):
    out = []
    i = 0
    while True:
        j = text.find(ADD_O, i)
        if j < 0:
            out.append(text[i:])
            break
        out.append(text[i:j])
        k = text.find(ADD_C, j)
        if k < 0:
            raise InfraError('unterminated addition sentinel')
        i = k + len(ADD_C)
    return ''.join(out)


def fidelity_guard(gen_text, expected_items):
    """re-lex the generated module text, drop additions, and compare every item token by token with
    T(repo item).  expected_items: list of (item_id, [token texts], anchor, file)."""
    stripped = strip_additions(gen_text)
    checked = 0
    for item_id, exp, anchor, file in expected_items:
        a = stripped.find('/*@item %s*/' % item_id)
        b = stripped.find('/*@end %s*/' % item_id)
        if a < 0 or b < 0:
            raise InfraError('fidelity guard: item markers for %s missing' % item_id)
        seg = stripped[a + len('/*@item %s*/' % item_id):b]
        got = [t.text for t in lex(seg)[0]]
        if got != exp:
            for n, (x, y) in enumerate(zip(got, exp)):
                if x != y:
                    raise InfraError('fidelity guard: %s (%s) differs at token %d: generated %r vs repo %r'
                                     % (anchor, file, n, x, y))
            raise InfraError('fidelity guard: %s (%s) token count differs (%d vs %d)' % (anchor, file, len(got), len(exp)))
        checked += 1
    return checked


# ------------------------------------------------------------------------------ fmt bodies

def fmt_pieces(toks, fn):
    """Mechanical reading of a Debug::fmt / write_alg_name body: a sequence of
    `f.write_str(<literal or F::NAME>)` and `<X as AlgorithmName>::write_alg_name(f)` statements.
    Returns list of ('lit', text) / ('alg', type) / ('const', path).  Anything else is outside the
    type-only subset -> InfraError (the property is then decided by the replay witness)."""
    pieces = []
    for (lo, hi) in R.split_stmts(toks, fn.body[0] + 1, fn.body[1]):
        t = [x.text for x in toks[lo:hi]]
        while t and t[-1] in (';', '?'):
            t.pop()
        if len(t) >= 6 and t[:4] == ['f', '.', 'write_str', '('] and t[-1] == ')':
            arg = t[4:-1]
            if len(arg) == 1 and toks[lo + 4].kind == 'str':
                pieces.append(('lit', arg[0]))
                continue
            if len(arg) == 3 and arg[1] == '::' and arg[2] == 'NAME':
                pieces.append(('const', ''.join(arg)))
                continue
        if len(t) == 10 and t[0] == '<' and t[2:5] == ['as', 'AlgorithmName', '>'] and t[5:] == ['::', 'write_alg_name', '(', 'f', ')']:
            pieces.append(('alg', t[1]))
            continue
        raise InfraError('fmt body of %s: statement `%s` is outside the type-only subset' % (fn.name, ' '.join(t)))
    return pieces
