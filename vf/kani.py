"""Kani / native-replay runner for the harness crate /verif/kani (DESIGN 3.7)."""
import os
import re
import shutil
import subprocess
import time

from . import extract as X

VERIF = os.path.dirname(os.path.dirname(os.path.abspath(__file__)))
KSRC = os.path.join(VERIF, 'kani')
KWORK = os.path.join(VERIF, '.work', 'kani' if X.REPO == '/repo' else 'kani_' + os.path.basename(X.REPO.rstrip('/')))

HARNESS_RE = re.compile(r'^(?:\w+_harness|harness)!\(\s*(\w+)\s*,', re.M)
MISC_RE = re.compile(r'^(?:\w+!\(|pub fn )((?:misc|ctr_seekpast)_\w+)', re.M)
PLAIN_RE = re.compile(r'#\[cfg_attr\(kani, kani::proof\)\][^\n]*\n(?:\s*#\[[^\n]*\n)*\s*pub fn (\w+)\s*\(', re.M)


def harness_names():
    out = []
    for f in sorted(os.listdir(os.path.join(KSRC, 'src'))):
        if f.startswith('h_') and f.endswith('.rs'):
            txt = open(os.path.join(KSRC, 'src', f)).read()
            mod = f[:-3]
            # names defined through macros (first macro argument) and plain harness fns
            body = txt
            for m in HARNESS_RE.finditer(body):
                if 'macro_rules' in body[max(0, m.start() - 200):m.start()] and '$' in m.group(0):
                    continue
                out.append((mod, m.group(1)))
            for m in PLAIN_RE.finditer(body):
                if not m.group(1).startswith('$'):
                    out.append((mod, m.group(1)))
            for m in MISC_RE.finditer(body):
                out.append((mod, m.group(1)))
    seen = set()
    res = []
    for mod, n in out:
        if n not in seen:
            seen.add(n)
            res.append((mod, n))
    return res


def prepare():
    """(re)create the harness crate in .work/kani with path deps on the repo's working tree"""
    os.makedirs(KWORK, exist_ok=True)
    toml = open(os.path.join(KSRC, 'Cargo.toml.in')).read().replace('@REPO@', X.REPO)
    p = os.path.join(KWORK, 'Cargo.toml')
    if not os.path.exists(p) or open(p).read() != toml:
        open(p, 'w').write(toml)
    dst = os.path.join(KWORK, 'src')
    # copy sources only when they changed (keeps cargo's incremental cache warm)
    for root, dirs, files in os.walk(os.path.join(KSRC, 'src')):
        rel = os.path.relpath(root, os.path.join(KSRC, 'src'))
        os.makedirs(os.path.join(dst, rel), exist_ok=True)
        for f in files:
            s = os.path.join(root, f)
            d = os.path.join(dst, rel, f)
            data = open(s).read()
            if not os.path.exists(d) or open(d).read() != data:
                open(d, 'w').write(data)
    names = harness_names()
    lines = ['pub fn table() -> Vec<(&\'static str, fn())> {\n    let mut v: Vec<(&\'static str, fn())> = Vec::new();\n']
    for mod, n in names:
        cfg = ''
        if n.startswith('misc_drop_'):
            cfg = '#[cfg(all(not(kani), feature = "zeroize"))] '
        elif n.startswith('misc_'):
            cfg = '#[cfg(not(kani))] '
        lines.append('    %sv.push(("%s", crate::%s::%s as fn()));\n' % (cfg, n, mod, n))
    lines.append('    v\n}\n')
    table = ''.join(lines)
    tp = os.path.join(dst, 'table.rs')
    if not os.path.exists(tp) or open(tp).read() != table:
        open(tp, 'w').write(table)
    lock = os.path.join(X.REPO, 'Cargo.lock')
    if os.path.exists(lock) and not os.path.exists(os.path.join(KWORK, 'Cargo.lock')):
        shutil.copy(lock, os.path.join(KWORK, 'Cargo.lock'))
    invalidate_if_sources_changed()
    return [n for _, n in names]


REPO_CRATES = ('belt-ctr', 'cbc', 'cfb-mode', 'cfb8', 'ctr', 'cts', 'ige', 'ofb', 'pcbc')


def repo_sources_hash():
    import hashlib
    h = hashlib.sha256()
    for c in REPO_CRATES:
        for root, dirs, files in sorted(os.walk(os.path.join(X.REPO, c))):
            dirs[:] = sorted(d for d in dirs if d not in ('target', 'tests', 'benches'))
            for f in sorted(files):
                if f.endswith('.rs') or f == 'Cargo.toml':
                    p = os.path.join(root, f)
                    h.update(os.path.relpath(p, X.REPO).encode())
                    h.update(open(p, 'rb').read())
    return h.hexdigest()


def invalidate_if_sources_changed():
    """cargo decides freshness by mtime; a file restored with an OLDER mtime (checkout, rsync -a, patch -R)
    would leave a stale build.  The build is therefore keyed by the CONTENT of the repo crates: when the
    hash differs from the one of the last build, the fingerprints of the path dependencies are removed."""
    hp = os.path.join(KWORK, '.repo_src_hash')
    cur = repo_sources_hash()
    old = open(hp).read() if os.path.exists(hp) else ''
    if cur == old:
        return False
    names = tuple(c.replace('-', '_') + '-' for c in REPO_CRATES) + tuple(c + '-' for c in REPO_CRATES) + ('vkani-',)
    for root, dirs, files in os.walk(KWORK):
        if os.path.basename(root) == '.fingerprint':
            for d in list(dirs):
                if d.startswith(names):
                    shutil.rmtree(os.path.join(root, d), ignore_errors=True)
            dirs[:] = []
    _native_built.clear()
    open(hp, 'w').write(cur)
    return True


def _env():
    e = dict(os.environ)
    e['CARGO_NET_OFFLINE'] = 'true'
    e['CARGO_TARGET_DIR'] = os.path.join(KWORK, 'target')
    return e


_native_built = {}


def build_native(features=()):
    key = tuple(features)
    if key in _native_built:
        return _native_built[key]
    prepare()
    cmd = ['cargo', 'build', '--offline', '--release', '--bin', 'replay']
    if features:
        cmd += ['--features', ','.join(features), '--target-dir', os.path.join(KWORK, 'target_' + '_'.join(features))]
    t0 = time.time()
    p = subprocess.run(cmd, cwd=KWORK, env=_env(), stdout=subprocess.PIPE, stderr=subprocess.STDOUT, text=True)
    ok = p.returncode == 0
    _native_built[key] = (ok, p.stdout[-3000:], round(time.time() - t0, 1))
    return _native_built[key]


def native(args, timeout=120, features=()):
    ok, out, _ = build_native(features)
    if not ok:
        return {'status': 'build-failed', 'output': out}
    exe = os.path.join(KWORK, 'target' + ('_' + '_'.join(features) if features else ''), 'release', 'replay')
    try:
        p = subprocess.run([exe] + args, stdout=subprocess.PIPE, stderr=subprocess.STDOUT, text=True, timeout=timeout)
    except subprocess.TimeoutExpired:
        return {'status': 'timeout', 'output': ''}
    return {'status': 'ok', 'rc': p.returncode, 'output': p.stdout.strip()}


def feats_of(harness):
    return ('zeroize',) if harness.startswith('misc_drop_') else ()


def search(harness, iters=20000, seed=1):
    """random search for a failing input of one harness on the real code (exploration, not a proof)"""
    r = native(['search', harness, str(iters), str(seed)], features=feats_of(harness))
    if r['status'] != 'ok':
        return r
    m = re.search(r'FOUND harness=(\S+) iter=(\d+) bytes=([0-9a-f]*) assertion=(.*)', r['output'])
    if m:
        return {'status': 'found', 'harness': harness, 'bytes': m.group(3), 'assertion': m.group(4), 'iter': int(m.group(2))}
    if r.get('rc') != 0 or 'NOTFOUND' not in r['output']:
        # e.g. a harness name the binary does not know: never to be mistaken for "searched, nothing found"
        return {'status': 'error', 'harness': harness, 'output': r['output'][-300:]}
    return {'status': 'notfound', 'harness': harness, 'iters': iters}


def replay(harness, hexbytes):
    r = native(['replay', harness, hexbytes], features=feats_of(harness))
    if r['status'] != 'ok':
        return r
    return {'status': 'fail' if r['rc'] == 1 else ('pass' if r['rc'] == 0 else 'error'), 'output': r['output']}


def run_kani(harnesses, jobs=8, timeout=3600, playback=False):
    """run the given harnesses under Kani; returns {name: {status, seconds, checks, failed_checks}}"""
    all_names = prepare()
    mods = dict((n, m) for m, n in harness_names())
    for h in harnesses:
        if h not in mods:
            raise X.InfraError('unknown kani harness %s' % h)
    cmd = ['cargo', 'kani', '--output-format', 'terse', '-j', str(jobs), '--exact']
    for h in harnesses:
        cmd += ['--harness', '%s::%s' % (mods[h], h)]
    if playback:
        cmd += ['-Z', 'concrete-playback', '--concrete-playback=print']
    t0 = time.time()
    # own process group: on timeout the whole tree (cargo-kani -> kani-driver -> cbmc, which can hold many GB) is killed
    import signal
    pr = subprocess.Popen(cmd, cwd=KWORK, env=_env(), stdout=subprocess.PIPE, stderr=subprocess.STDOUT, text=True,
                          start_new_session=True)
    try:
        out, _ = pr.communicate(timeout=timeout)
    except subprocess.TimeoutExpired:
        try:
            os.killpg(pr.pid, signal.SIGKILL)
        except OSError:
            pass
        try:
            out, _ = pr.communicate(timeout=30)
        except Exception:
            out = ''
        out = (out or '') + '\nTIMEOUT'
    wall = time.time() - t0
    res = {}
    thread_h = {}
    cur = None
    single = harnesses[0] if len(harnesses) == 1 else None
    for line in out.split('\n'):
        m = re.match(r'(?:Thread (\d+): )?Checking harness (\S+?)\.\.\.', line)
        if m:
            name = m.group(2).split('::')[-1]
            thread_h[m.group(1)] = name
            cur = name
            res.setdefault(name, {'status': 'unknown', 'failed_checks': []})
            continue
        m = re.match(r'Thread (\d+):\s*$', line)
        if m:
            cur = thread_h.get(m.group(1))
            continue
        if cur is None:
            continue
        m = re.match(r'\s*\*\* (\d+) of (\d+) failed', line)
        if m:
            res[cur]['checks'] = int(m.group(2))
            res[cur]['failed'] = int(m.group(1))
        m = re.match(r'Failed Checks: (.*)', line)
        if m:
            res[cur]['failed_checks'].append(m.group(1))
        if line.startswith('VERIFICATION:- SUCCESSFUL'):
            res[cur]['status'] = 'pass'
        elif line.startswith('VERIFICATION:- FAILED'):
            res[cur]['status'] = 'fail'
        m = re.match(r'Verification Time: ([0-9.]+)s', line)
        if m:
            res[cur]['seconds'] = float(m.group(1))
    for h in harnesses:
        res.setdefault(h, {'status': 'not-run', 'failed_checks': []})
    info = {'cmd': ' '.join(cmd), 'wall_s': round(wall, 1), 'results': res}
    if 'error: could not compile' in out or 'error[E' in out:
        info['build_error'] = out[-3000:]
    if playback:
        vals = []
        m = re.search(r'let concrete_vals: Vec<Vec<u8>> = vec!\[(.*?)\n\s*\];', out, re.S)
        if m:
            for mm in re.finditer(r'vec!\[([0-9, ]*)\]', m.group(1)):
                vals += [int(x) for x in mm.group(1).split(',') if x.strip()]
            info['playback_bytes'] = ''.join('%02x' % v for v in vals)
    info['raw_tail'] = out[-1500:]
    return info
