"""developer helper: python3 -m vf.dev <unit> : generate + run verus, print classified results"""
import importlib, sys, json
from . import unit as U, extract as X

def main():
    name = sys.argv[1]
    mod = importlib.import_module('contracts.' + name)
    try:
        g = U.build(mod.unit())
    except X.InfraError as e:
        print('INFRA:', e); sys.exit(2)
    print('generated', g.path, 'functions', len(g.functions), 'clauses', len(g.marks), 'fidelity items', g.fidelity_items)
    if '--gen' in sys.argv: return
    res = U.run_verus(g)
    print('verified', res['verified'], 'errors', res['errors'], 'wall', res['wall_s'], 'smt_ms', res['smt_ms'])
    cl = U.classify(g, res)
    for k, v in cl.items():
        for x in v:
            print(k, x.get('id') or x.get('fn'), x.get('line'), x['message'][:200])
            if '-v' in sys.argv: print(x.get('rendered', ''))
    if res['json'] is None or '-e' in sys.argv: print(res['raw_err'])
    for f in res['function_breakdown']:
        if f['ms'] > 2000 or not f['success']: print('  ', f)
main()
