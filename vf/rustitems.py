"""Item-level structure over a token list (no expression parsing)."""
from .lexer import Tok, match_close, LexError

ITEM_KW = {'use', 'mod', 'struct', 'enum', 'impl', 'fn', 'const', 'type', 'trait', 'static',
           'macro_rules', 'extern', 'unsafe'}
BLOCK_KW = {'if', 'for', 'while', 'loop', 'match', 'unsafe'}


class Item:
    def __init__(self):
        self.kind = None
        self.attrs = []        # list of (lo, hi) token index ranges, hi exclusive
        self.vis = (0, 0)
        self.lo = self.hi = 0  # token range of the whole item incl. attrs
        self.kw = 0            # index of keyword token
        self.name = None
        self.trait_name = None
        self.self_name = None
        self.body = None       # (open_idx, close_idx) of { } if any
        self.members = []      # for impl / trait
        self.parent = None

    def label(self):
        if self.kind == 'impl':
            if self.trait_name:
                return 'impl %s for %s' % (self.trait_name, self.self_name)
            return 'impl %s' % self.self_name
        return '%s %s' % (self.kind, self.name)


def skip_attrs(toks, i, hi):
    attrs = []
    while i < hi and toks[i].text == '#':
        j = i + 1
        if j < hi and toks[j].text == '!':
            j += 1
        if j < hi and toks[j].text == '[':
            k = match_close(toks, j)
            attrs.append((i, k + 1))
            i = k + 1
        else:
            break
    return attrs, i


def skip_vis(toks, i, hi):
    lo = i
    if i < hi and toks[i].text == 'pub':
        i += 1
        if i < hi and toks[i].text == '(':
            i = match_close(toks, i) + 1
    return (lo, i), i


def _angle_skip(toks, i, hi):
    """toks[i] == '<' : return index after the matching '>' (generic params)."""
    depth = 0
    j = i
    while j < hi:
        t = toks[j]
        if t.kind == 'punct':
            if t.text == '<':
                depth += 1
            elif t.text == '>':
                depth -= 1
                if depth == 0:
                    return j + 1
            elif t.text in ('(', '[', '{'):
                j = match_close(toks, j)
        j += 1
    raise LexError('unbalanced <')


def path_last_ident(toks, lo, hi):
    """last identifier of a type path at angle depth 0 in toks[lo:hi] (skipping generics)."""
    depth = 0
    last = None
    first = None
    j = lo
    while j < hi:
        t = toks[j]
        if t.kind == 'punct' and t.text == '<':
            depth += 1
        elif t.kind == 'punct' and t.text == '>':
            depth -= 1
        elif depth == 0 and t.kind == 'ident' and t.text not in ('dyn', 'mut', 'const'):
            last = t.text
            if first is None:
                first = t.text
        j += 1
    return last


def parse_item(toks, i, hi):
    """parse one item starting at i; returns Item (or None if not an item start)."""
    it = Item()
    it.lo = i
    it.attrs, i = skip_attrs(toks, i, hi)
    it.vis, i = skip_vis(toks, i, hi)
    if i >= hi:
        return None
    # qualifiers
    while toks[i].text in ('unsafe', 'async', 'default') or (
            toks[i].text == 'const' and toks[i + 1].text in ('fn', 'unsafe')):
        i += 1
    kw = toks[i].text
    if toks[i].kind == 'ident' and kw not in ITEM_KW and i + 2 < hi and toks[i + 1].text == '!' and toks[i + 2].text in ('{', '(', '['):
        # item-position macro invocation, e.g. `impl_counter! { u32 u64 u128 }`
        k = match_close(toks, i + 2)
        it.kw = i
        it.kind = 'macro_call'
        it.name = kw
        it.hi = k + 1
        if k + 1 < hi and toks[k + 1].text == ';':
            it.hi = k + 2
        return it
    if toks[i].kind != 'ident' or kw not in ITEM_KW:
        return None
    it.kw = i
    it.kind = kw
    if kw in ('use', 'mod', 'const', 'type', 'static', 'extern'):
        # ends at ';' at depth 0, or a brace block for `mod x { }`
        j = i + 1
        it.name = toks[j].text if toks[j].kind == 'ident' else None
        while j < hi:
            t = toks[j]
            if t.kind == 'punct' and t.text in ('(', '[', '{'):
                k = match_close(toks, j)
                if t.text == '{' and kw in ('mod', 'extern'):
                    it.body = (j, k)
                    it.hi = k + 1
                    return it
                j = k
            elif t.kind == 'punct' and t.text == ';':
                it.hi = j + 1
                return it
            j += 1
        raise LexError('unterminated %s item' % kw)
    if kw == 'macro_rules':
        j = i
        while toks[j].text not in ('{', '('):
            j += 1
        k = match_close(toks, j)
        it.hi = k + 1
        if k + 1 < hi and toks[k + 1].text == ';':
            it.hi = k + 2
        it.name = toks[i + 2].text
        return it
    if kw in ('struct', 'enum', 'trait', 'fn'):
        it.name = toks[i + 1].text
    # header: up to '{' or ';' at depth 0 (parens/brackets skipped)
    j = i + 1
    while j < hi:
        t = toks[j]
        if t.kind == 'punct' and t.text in ('(', '['):
            j = match_close(toks, j)
        elif t.kind == 'punct' and t.text == '{':
            k = match_close(toks, j)
            it.body = (j, k)
            it.hi = k + 1
            break
        elif t.kind == 'punct' and t.text == ';':
            it.hi = j + 1
            break
        j += 1
    else:
        raise LexError('unterminated item %s' % kw)
    if kw == 'impl':
        # impl<..> [Trait for] Type [where ..] {
        h0 = i + 1
        if toks[h0].text == '<':
            h0 = _angle_skip(toks, h0, hi)
        hend = it.body[0]
        # cut where clause
        depth = 0
        w = hend
        for q in range(h0, hend):
            t = toks[q]
            if t.kind == 'punct' and t.text == '<':
                depth += 1
            elif t.kind == 'punct' and t.text == '>':
                depth -= 1
            elif depth == 0 and t.kind == 'ident' and t.text == 'where':
                w = q
                break
        f = None
        depth = 0
        for q in range(h0, w):
            t = toks[q]
            if t.kind == 'punct' and t.text == '<':
                depth += 1
            elif t.kind == 'punct' and t.text == '>':
                depth -= 1
            elif depth == 0 and t.kind == 'ident' and t.text == 'for':
                f = q
                break
        if f is None:
            it.self_name = path_last_ident(toks, h0, w)
        else:
            it.trait_name = path_last_ident(toks, h0, f)
            it.self_name = path_last_ident(toks, f + 1, w)
    if kw in ('impl', 'trait') and it.body:
        it.members = parse_items(toks, it.body[0] + 1, it.body[1])
        for m in it.members:
            m.parent = it
    return it


def parse_items(toks, lo, hi):
    items = []
    i = lo
    while i < hi:
        it = parse_item(toks, i, hi)
        if it is None:
            raise LexError('cannot parse item at token %d: %r (line %d)' % (i, toks[i].text, toks[i].line))
        items.append(it)
        i = it.hi
    return items


# ---------------------------------------------------------------- statements

def split_stmts(toks, lo, hi):
    """split toks[lo:hi] (the inside of a block) into statements.
    returns list of (lo, hi) ranges."""
    out = []
    i = lo
    while i < hi:
        s = i
        # attributes belong to the statement
        _, j = skip_attrs(toks, i, hi)
        first = toks[j].text if j < hi else None
        blocklike = first in BLOCK_KW or first == '{'
        if j < hi and toks[j].kind == 'lifetime' and j + 2 < hi and toks[j + 1].text == ':':
            blocklike = toks[j + 2].text in BLOCK_KW
        # nested item?
        probe = None
        try:
            probe = parse_item(toks, i, hi)
        except LexError:
            probe = None
        if probe is not None and probe.kind in ('struct', 'enum', 'impl', 'fn', 'use', 'trait', 'type', 'static',
                                                 'macro_rules') or (
                probe is not None and probe.kind == 'const' and toks[probe.kw + 1].kind == 'ident'
                and toks[probe.kw + 2].text == ':'):
            out.append((s, probe.hi))
            i = probe.hi
            continue
        while j < hi:
            t = toks[j]
            if t.kind == 'punct' and t.text in ('(', '['):
                j = match_close(toks, j)
            elif t.kind == 'punct' and t.text == '{':
                k = match_close(toks, j)
                j = k
                if blocklike:
                    nxt = toks[k + 1].text if k + 1 < hi else None
                    if nxt == 'else':
                        pass
                    elif nxt in ('.', '?') :
                        blocklike = False
                    else:
                        if nxt == ';':
                            j = k + 1
                        break
            elif t.kind == 'punct' and t.text == ';':
                break
            j += 1
        e = min(j + 1, hi)
        out.append((s, e))
        i = e
    return out


def brace_groups(toks, lo, hi):
    """top-level {..} groups inside toks[lo:hi] (parens/brackets are entered? no: skipped)."""
    out = []
    j = lo
    while j < hi:
        t = toks[j]
        if t.kind == 'punct' and t.text in ('(', '['):
            j = match_close(toks, j)
        elif t.kind == 'punct' and t.text == '{':
            k = match_close(toks, j)
            out.append((j, k))
            j = k
        j += 1
    return out


def find_loops(toks, lo, hi):
    """pre-order list of loops in toks[lo:hi]: dicts with kw index, body (open, close), and for
    `for` loops the index of `in`."""
    out = []
    j = lo
    while j < hi:
        t = toks[j]
        if t.kind == 'ident' and t.text in ('for', 'while', 'loop'):
            # `for` in `impl X for Y` / HRTB cannot occur inside bodies we handle
            k = j + 1
            in_idx = None
            while k < hi:
                u = toks[k]
                if u.kind == 'punct' and u.text in ('(', '['):
                    k = match_close(toks, k)
                elif u.kind == 'ident' and u.text == 'in' and in_idx is None and t.text == 'for':
                    in_idx = k
                elif u.kind == 'punct' and u.text == '{':
                    break
                k += 1
            if k < hi:
                out.append({'kw': j, 'in': in_idx, 'body': (k, match_close(toks, k))})
        j += 1
    return out
