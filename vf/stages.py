"""Kani / native-replay stages of a property check (DESIGN 3.7, 3.8) and known findings."""
import json
import os
import time

from . import extract as X
from . import kani as KN

VERIF = KN.VERIF
# evidence of checks run against a scratch copy of the repository (VERIF_REPO set: seeded changes) is kept apart from
# the evidence of /repo itself
_ALT = os.environ.get('VERIF_REPO', '/repo').rstrip('/')
EVID = os.path.join(VERIF, 'evidence') if _ALT == '/repo' else os.path.join(VERIF, '.work', 'alt_' + os.path.basename(_ALT), 'evidence')
REPLAYS = os.path.join(EVID, 'replays')


def _write_cex(prop, obligation, harness, hexbytes, how, assertion, verifier_output=None, extra=None):
    os.makedirs(REPLAYS, exist_ok=True)
    safe = obligation.replace('/', '_').replace(':', '_').replace('@', '_').replace('#', '-').replace('[', '_').replace(']', '_')
    if len(safe) > 100:
        import hashlib as _h
        safe = safe[:88] + '-' + _h.sha1(obligation.encode()).hexdigest()[:8]
    path = os.path.join(REPLAYS, '%s-%s.json' % (prop, safe))
    from contracts import registry as REG
    doc = {
        'property': prop, 'obligation': obligation, 'runner': 'cargo',
        'harness': harness, 'harness_info': REG.harness_info(harness),
        'input_bytes_hex': hexbytes,
        'input_layout': 'values of the harness\'s nd::any() calls in program order (see kani/src: cipher outputs ys first, then IV, data, ...)',
        'found_by': how, 'failed_assertion': assertion,
        'verifier_output': verifier_output,
        'counterexample': True,
        'replay': './check --replay ' + path,
    }
    if extra:
        doc.update(extra)
    with open(path, 'w') as f:
        json.dump(doc, f, indent=1)
    return path


def search_units(units, iters, seed, prop=None):
    """native random search over the harnesses mapped to the given units (and applicable to the property);
    returns first hit or None.  Harnesses that carry a recorded known finding are skipped."""
    from contracts import registry as REG
    known = set()
    for k in load_known():
        if k.get('status') == 'known':
            known.add(k.get('obligation'))
            known.update(k.get('obligations_known', []))
    hs = []
    for h, info in REG.HARNESSES.items():
        if set(info['units']) & set(units) and (prop is None or prop in info['props']) and ('harness::' + h) not in known:
            hs.append(h)
    tried = []
    for h in hs:
        r = KN.search(h, iters, seed)
        tried.append((h, r.get('status')))
        if r.get('status') == 'found':
            return r, tried
        if r.get('status') == 'build-failed':
            return r, tried
    return None, tried


def run(prop, tier, seed, results, violations, undecided, infra):
    from contracts import registry as REG
    extra = {'kani': [], 'bounded': [], 'trusted_base': [], 'assumptions': [], 'known_findings': [], 'known_finding_lines': []}
    spec = REG.PROP_HARNESS.get(prop, {})
    units = REG.PROP_UNITS.get(prop, [])
    t0 = time.time()
    try:
        KN.prepare()
    except X.InfraError as e:
        infra.append('kani harness crate: %s' % e)
        return extra
    # ---- 1. native random search over every harness of the property's units (seconds; exploration only)
    iters = 200000 if tier == 'quick' else 3000000
    hs_all = [h for h, i in REG.HARNESSES.items() if (set(i['units']) & set(units)) and (prop in i['props'] or not i['props'])]
    native_found = {}
    b = KN.build_native()
    if not b[0]:
        # the harness crate does not build against the current tree (e.g. a public API the harnesses use
        # was removed): infrastructure, not a verdict
        infra.append('native harness build failed: ' + b[1][-600:])
    else:
        for h in hs_all:
            r = KN.search(h, iters, seed + 1)
            if r.get('status') == 'found':
                native_found[h] = r
            elif r.get('status') != 'notfound':
                infra.append('native search of harness %s did not run (%s)' % (h, (r.get('output') or r.get('status') or '')[-200:]))
        extra['bounded'].append({'engine': 'native random search (exploration, not a proof)', 'harnesses': hs_all,
                                 'iterations_each': iters, 'failing': sorted(native_found)})
    # ---- 2. Kani: bounded stand-in / conformance harnesses of this tier
    klist = list(spec.get('quick', [])) if tier == 'quick' else list(spec.get('thorough', spec.get('quick', [])))
    if tier == 'thorough':
        # conformance of the assumed shim contracts with the real dependency code (kani/src/h_shim.rs): part of every
        # thorough run, whatever the property
        klist += [h for h, i in REG.HARNESSES.items() if h.startswith('shim_') and i.get('kani', True) and h not in klist]
    kres = {}
    if klist and b[0]:
        # CBMC on the CTS / buffered-CFB harnesses needs up to ~14 GB per process: the lists that contain them run with few jobs
        info = KN.run_kani(klist, jobs=spec.get('jobs', 8), timeout=spec.get('timeout', 1500 if tier == 'quick' else 7200))
        if info.get('build_error'):
            infra.append('kani build failed: ' + info['build_error'][-600:])
        kres = info['results']
        for h in klist:
            r = kres.get(h, {})
            extra['kani'].append({'harness': h, 'status': r.get('status'), 'seconds': r.get('seconds'), 'checks': r.get('checks'),
                                  'bounds': REG.harness_info(h).get('bounds'), 'unwinding_assertions': True,
                                  'role': REG.harness_info(h).get('role', 'bounded stand-in / conformance')})
            if r.get('status') not in ('pass', 'fail'):
                # a bounded stand-in that ran out of time or memory decides nothing either way: recorded in the evidence
                # (coverage.kani[].status, coverage.kani_incomplete) and reported, but it is not a verdict of the
                # deductive check and does not change the exit code
                extra.setdefault('kani_incomplete', []).append({'harness': h, 'status': r.get('status')})
                print('NOTE: kani harness %s did not complete (%s); it decides nothing in this run' % (h, r.get('status')), flush=True)
        extra['kani_cmd'] = info['cmd']
        extra['kani_wall_s'] = info['wall_s']
    # ---- 3. harness failures are violations with a concrete input
    failing = dict(native_found)
    for h, r in kres.items():
        if r.get('status') == 'fail' and h not in failing:
            # get concrete bytes: first try the cheap native search with more iterations, then Kani playback
            s = KN.search(h, 3000000, seed + 7)
            if s.get('status') == 'found':
                failing[h] = s
            else:
                pb = KN.run_kani([h], jobs=1, timeout=3600, playback=True)
                if pb.get('playback_bytes'):
                    failing[h] = {'status': 'found', 'harness': h, 'bytes': pb['playback_bytes'],
                                  'assertion': '; '.join(r.get('failed_checks', [])), 'how': 'kani concrete playback'}
                else:
                    failing[h] = {'status': 'nobytes', 'harness': h, 'assertion': '; '.join(r.get('failed_checks', []))}
    for h, r in failing.items():
        if not REG.harness_applies(h, prop):
            continue
        ob = {'id': 'harness::' + h, 'kind': 'bounded-harness', 'fn': h, 'status': 'failed', 'unit': units[0] if units else None,
              'text': REG.harness_info(h).get('bounds'), 'diag': {'rendered': r.get('assertion')}}
        if r.get('bytes') is not None and r.get('status') == 'found':
            rp = KN.replay(h, r['bytes'])
            if rp.get('status') == 'fail':
                ob['counterexample'] = True
                ob['replay'] = _write_cex(prop, ob['id'], h, r['bytes'], r.get('how', 'native random search / kani'), r.get('assertion'))
            else:
                infra.append('counterexample for %s did not reproduce natively (%s): discarded' % (h, rp.get('status')))
                continue
        kf = known_match(prop, ob)
        if kf:
            extra['known_findings'].append(kf)
            continue
        violations.append(ob)
    # ---- 4. counterexamples for failing Verus obligations; triage of proof-internal failures
    need = [o for o in violations if o.get('kind') != 'bounded-harness' and not o.get('counterexample')] + [o for o in undecided if not o.get('unreached')]
    demoted_units = set(n for n in units if results.get(n) is not None and (results[n].get('demoted') or results[n].get('new_items')
                        or any(f['id'] in X.DEMOTED for f in (results[n]['g'].functions if results[n].get('g') else []))))
    if (need or infra or demoted_units) and b[0]:
        # units in which the verifier could not read a function (demoted) or sees code outside the contracts get the
        # longer search as well: there the bounded stage is the only source of a verdict
        bad_units = sorted(set(o.get('unit') for o in need if o.get('unit')) | demoted_units | set(
            n for n in units if results.get(n) is not None and results[n].get('infra')))
        hit, tried = search_units(bad_units, 1000000, seed + 3, prop)
        extra['bounded'].append({'engine': 'native random search for a counterexample to failing obligations',
                                 'units': bad_units, 'tried': tried})
        if hit and hit.get('status') == 'found':
            rp = KN.replay(hit['harness'], hit['bytes'])
            if rp.get('status') == 'fail':
                for o in need:
                    o['counterexample'] = True
                    o['replay'] = _write_cex(prop, o['id'], hit['harness'], hit['bytes'], 'native random search', hit.get('assertion'),
                                             verifier_output=(o.get('diag') or {}).get('rendered'))
                # proof-internal failures with a reproduced counterexample are violations
                for o in [u for u in undecided if not u.get('unreached')]:
                    o['status'] = 'failed'
                    undecided.remove(o)
                    violations.append(o)
                if not need:
                    # the verifier could not decide (front end / extraction), but the real code fails a harness
                    o = {'id': 'harness::' + hit['harness'], 'kind': 'bounded-harness', 'fn': hit['harness'], 'status': 'failed',
                         'unit': bad_units[0] if bad_units else None, 'text': REG.harness_info(hit['harness']).get('bounds'),
                         'diag': {'rendered': hit.get('assertion')}, 'counterexample': True}
                    o['replay'] = _write_cex(prop, o['id'], hit['harness'], hit['bytes'], 'native random search', hit.get('assertion'))
                    if not any(v['id'] == o['id'] for v in violations):
                        violations.append(o)
    # proof-internal failures without counterexample: undecided only if the unit's Kani harnesses pass
    for o in list(undecided):
        if o.get('status') == 'failed-proof' or o.get('unreached'):
            continue
        hs = [h for h, i in REG.HARNESSES.items() if o.get('unit') in i['units'] and i.get('kani', True)]
        hs = hs[:6]
        decided_by_kani = False
        if hs and b[0]:
            info = KN.run_kani(hs, jobs=12, timeout=1800)
            rs = info['results']
            extra['kani'] += [{'harness': h, 'status': rs.get(h, {}).get('status'), 'seconds': rs.get(h, {}).get('seconds'),
                               'role': 'triage of a proof-internal failure', 'bounds': REG.harness_info(h).get('bounds')} for h in hs]
            if all(rs.get(h, {}).get('status') == 'pass' for h in hs):
                decided_by_kani = True
        if not decided_by_kani:
            # DESIGN 3.8: no bounded evidence that the behaviour is intact -> report, without an input
            o['status'] = 'failed'
            undecided.remove(o)
            violations.append(o)
    if prop == 'C16':
        hits = scan_shared_state()
        extra['shared_state_scan'] = {'rule': 'tokens static mut / thread_local / Cell / RefCell / Atomic* / Mutex / RwLock / Once* / Lazy / unsafe / raw pointers in the crates\' src; forbid(unsafe_code) present',
                                      'hits': hits}
        if hits and not any(v.get('counterexample') for v in violations):
            infra.append('C16 side condition: constructs that can carry hidden shared state were found (%s); no harness '
                         'exhibited interference, so the property is undecided for them' % ', '.join(hits[:5]))
    extra['stage_wall_s'] = round(time.time() - t0, 1)
    # ---- 5. known findings (committed file; never written at run time)
    kf_extra = known_findings_stage(prop, tier)
    extra['known_findings'] += kf_extra['entries']
    extra['known_finding_lines'] += kf_extra['lines']
    for v in list(violations):
        kf = known_match(prop, v)
        if kf:
            violations.remove(v)
            extra['known_findings'].append(kf)
    return extra


def scan_shared_state():
    """mechanical side condition of C16 (DESIGN 4, C16): contracts cannot see state that no signature
    mentions, so the crate sources are scanned for constructs that can hold hidden shared state"""
    import re
    from .lexer import lex
    bad = ('thread_local', 'Cell', 'RefCell', 'UnsafeCell', 'Mutex', 'RwLock', 'OnceCell', 'OnceLock', 'Lazy', 'LazyLock',
           'unsafe')
    hits = []
    for crate in ('belt-ctr', 'cbc', 'cfb-mode', 'cfb8', 'ctr', 'cts', 'ige', 'ofb', 'pcbc'):
        src = os.path.join(X.REPO, crate, 'src')
        lib_forbids = False
        for root, _, files in os.walk(src):
            for f in files:
                if not f.endswith('.rs'):
                    continue
                path = os.path.join(root, f)
                text = open(path).read()
                if f == 'lib.rs' and re.search(r'#!\[(forbid|deny)\(unsafe_code\)\]', text):
                    lib_forbids = True
                toks, _ = lex(text)
                for i, t in enumerate(toks):
                    rel = os.path.relpath(path, X.REPO)
                    if t.kind == 'ident' and (t.text in bad or t.text.startswith('Atomic')):
                        if t.text == 'unsafe' and toks[i - 1].text == '(' :
                            continue
                        hits.append('%s:%d:%s' % (rel, t.line, t.text))
                    if t.kind == 'ident' and t.text == 'static' and toks[i - 1].kind != 'lifetime' and toks[i - 1].text != "'":
                        # `&'static str` lexes as lifetime token; a `static` item/keyword is shared storage
                        hits.append('%s:%d:static' % (rel, t.line))
                    if t.kind == 'punct' and t.text == '*' and i + 1 < len(toks) and toks[i + 1].text in ('const', 'mut') and toks[i - 1].text in (':', '(', ',', '<', '->', '&', '='):
                        hits.append('%s:%d:raw-pointer' % (rel, t.line))
        if not lib_forbids:
            hits.append('%s/src/lib.rs: no forbid/deny(unsafe_code)' % crate)
    return hits


# ------------------------------------------------------------------------------ known findings

def load_known():
    p = os.path.join(VERIF, 'known_findings.json')
    if not os.path.exists(p):
        return []
    return json.load(open(p)).get('findings', [])


def known_match(prop, ob):
    for k in load_known():
        if k.get('status') != 'known' or prop not in k.get('properties', [k.get('property')]):
            continue
        if k.get('obligation') == ob.get('id') or ob.get('id') in k.get('obligations_known', []):
            return {'id': k.get('id'), 'obligation': ob['id'], 'text': k.get('text')}
    return None


def known_findings_stage(prop, tier):
    """every `known` entry carries a concrete replay; it is re-run on the current tree and the
    KNOWN-FINDING line is printed iff it still reproduces"""
    out = {'entries': [], 'lines': []}
    for k in load_known():
        if k.get('status') != 'known' or prop not in k.get('properties', [k.get('property')]):
            continue
        rp = k.get('replay') or {}
        if rp.get('harness'):
            r = KN.replay(rp['harness'], rp.get('bytes', ''))
            if r.get('status') == 'fail':
                out['lines'].append('KNOWN-FINDING: property=%s %s' % (prop, k.get('text')))
                out['entries'].append({'id': k.get('id'), 'reproduced': True, 'text': k.get('text')})
            else:
                out['entries'].append({'id': k.get('id'), 'reproduced': False, 'status': r.get('status'), 'text': k.get('text')})
    return out


def replay(doc):
    """./check --replay for a file carrying a concrete input"""
    prop = doc['property']
    r = KN.replay(doc['harness'], doc.get('input_bytes_hex', ''))
    print(r.get('output', r))
    if r.get('status') == 'fail':
        print('VIOLATION property=%s replay=%s' % (prop, doc.get('replay', '').replace('./check --replay ', '')))
        return 1
    if r.get('status') == 'pass':
        return 0
    return 2
