use vstd::prelude::*;
verus! {

pub type Blk = Seq<u8>;
pub open spec fn xor_seq(a: Seq<u8>, b: Seq<u8>) -> Seq<u8> { Seq::new(a.len(), |i: int| a[i] ^ b[i]) }

// generic transducer fold
pub open spec fn run<S>(step: spec_fn(S, Blk) -> (S, Blk), s: S, xs: Seq<Blk>) -> (S, Seq<Blk>)
    decreases xs.len()
{
    if xs.len() == 0 { (s, Seq::empty()) } else {
        let (s1, y) = step(s, xs[0]);
        let (s2, ys) = run(step, s1, xs.skip(1));
        (s2, seq![y] + ys)
    }
}

pub proof fn run_len<S>(step: spec_fn(S, Blk) -> (S, Blk), s: S, xs: Seq<Blk>)
    ensures run(step, s, xs).1.len() == xs.len()
    decreases xs.len()
{
    if xs.len() > 0 { let (s1, y) = step(s, xs[0]); run_len(step, s1, xs.skip(1)); }
}

pub proof fn run_concat<S>(step: spec_fn(S, Blk) -> (S, Blk), s: S, a: Seq<Blk>, b: Seq<Blk>)
    ensures run(step, s, a + b) == ({ let (s1, ya) = run(step, s, a); let (s2, yb) = run(step, s1, b); (s2, ya + yb) })
    decreases a.len()
{
    if a.len() == 0 {
        assert(a + b =~= b);
        assert(Seq::<Blk>::empty() + run(step, s, b).1 =~= run(step, s, b).1);
    } else {
        let (s1, y) = step(s, a[0]);
        assert((a + b)[0] == a[0]);
        assert((a + b).skip(1) =~= a.skip(1) + b);
        run_concat(step, s1, a.skip(1), b);
        let (sa, ya) = run(step, s1, a.skip(1));
        let (sb, yb) = run(step, sa, b);
        assert(seq![y] + (ya + yb) =~= (seq![y] + ya) + yb);
    }
}

pub open spec fn cbc_enc_step(e: spec_fn(Blk) -> Blk) -> spec_fn(Blk, Blk) -> (Blk, Blk) {
    |iv: Blk, p: Blk| { let c = e(xor_seq(p, iv)); (c, c) }
}
pub open spec fn cbc_dec_step(d: spec_fn(Blk) -> Blk) -> spec_fn(Blk, Blk) -> (Blk, Blk) {
    |iv: Blk, c: Blk| (c, xor_seq(d(c), iv))
}

pub proof fn xor_cancel(a: Seq<u8>, b: Seq<u8>)
    requires a.len() == b.len()
    ensures xor_seq(xor_seq(a, b), b) =~= a
{
    assert forall |i: int| 0 <= i < a.len() implies #[trigger] xor_seq(xor_seq(a, b), b)[i] == a[i] by {
        let x = a[i]; let y = b[i];
        assert((x ^ y) ^ y == x) by (bit_vector);
    }
}

pub open spec fn all_len(xs: Seq<Blk>, n: nat) -> bool { forall |i: int| 0 <= i < xs.len() ==> (#[trigger] xs[i]).len() == n }

pub proof fn cbc_roundtrip(e: spec_fn(Blk) -> Blk, d: spec_fn(Blk) -> Blk, n: nat, iv: Blk, ps: Seq<Blk>)
    requires
        forall |x: Blk| x.len() == n ==> (#[trigger] e(x)).len() == n && d(e(x)) == x,
        iv.len() == n, all_len(ps, n),
    ensures
        run(cbc_dec_step(d), iv, run(cbc_enc_step(e), iv, ps).1).1 =~= ps,
        run(cbc_dec_step(d), iv, run(cbc_enc_step(e), iv, ps).1).0 == run(cbc_enc_step(e), iv, ps).0,
    decreases ps.len()
{
    if ps.len() > 0 {
        let c = e(xor_seq(ps[0], iv));
        let (s2, cs) = run(cbc_enc_step(e), c, ps.skip(1));
        cbc_roundtrip(e, d, n, c, ps.skip(1));
        let full = seq![c] + cs;
        assert(full[0] == c);
        assert(full.skip(1) =~= cs);
        xor_cancel(ps[0], iv);
        assert(xor_seq(ps[0], iv).len() == n);
        assert(seq![ps[0]] + ps.skip(1) =~= ps);
    }
}

} // verus!
fn main() {}
