use vstd::prelude::*;
use core::marker::PhantomData;
use core::ops::{Index, IndexMut};
verus! {

// ---------- shim: typenum / hybrid-array ----------
pub trait Unsigned { const USIZE: usize; }
pub trait ArraySize: Unsigned + Sized {}
pub trait BlockSizes: ArraySize {
    proof fn block_size_bounds() ensures 1 <= Self::USIZE <= 255;
}

#[verifier::external_body]
#[verifier::accept_recursive_types(T)]
#[verifier::accept_recursive_types(U)]
pub struct Array<T, U: ArraySize> { v: Vec<T>, _p: PhantomData<U> }

impl<T, U: ArraySize> Array<T, U> {
    pub uninterp spec fn view(&self) -> Seq<T>;

    #[verifier::external_body]
    pub broadcast proof fn axiom_len(&self)
        ensures #[trigger] self@.len() == U::USIZE
    {}

    #[verifier::external_body]
    pub fn len(&self) -> (r: usize) ensures r == U::USIZE { unimplemented!() }
}

impl<T: Clone, U: ArraySize> Clone for Array<T, U> {
    #[verifier::external_body]
    fn clone(&self) -> (r: Self) ensures r@ == self@ { unimplemented!() }
}

impl<T, U: ArraySize> vstd::std_specs::core::IndexSpecImpl<usize> for Array<T, U> {
    open spec fn index_req(&self, i: &usize) -> bool { *i < U::USIZE }
}
impl<T, U: ArraySize> Index<usize> for Array<T, U> {
    type Output = T;
    #[verifier::external_body]
    fn index(&self, i: usize) -> (r: &T) ensures *r == self@[i as int] { unimplemented!() }
}
impl<T, U: ArraySize> IndexMut<usize> for Array<T, U> {
    #[verifier::external_body]
    fn index_mut(&mut self, i: usize) -> (r: &mut T)
        ensures *r == old(self)@[i as int],
                final(self)@ == old(self)@.update(i as int, *final(r))
    { unimplemented!() }
}

#[verifier::external]
impl<T, U: ArraySize> core::ops::Deref for Array<T, U> { type Target = [T]; fn deref(&self) -> &[T] { &self.v } }
#[verifier::external]
impl<T, U: ArraySize> core::ops::DerefMut for Array<T, U> { fn deref_mut(&mut self) -> &mut [T] { &mut self.v } }
#[verifier::external]
impl<'a, T, U: ArraySize> IntoIterator for &'a Array<T, U> { type Item = &'a T; type IntoIter = core::slice::Iter<'a, T>; fn into_iter(self) -> Self::IntoIter { self.v.iter() } }

// ---------- shim: inout ----------
pub struct InOut<'inp, 'out, T> { pub inp: &'inp T, pub out: &'out mut T, pub aliased: Ghost<bool> }

impl<'inp, 'out, T> InOut<'inp, 'out, T> {
    pub open spec fn in_val(&self) -> T { if self.aliased@ { *self.out } else { *self.inp } }
    #[verifier::prophetic]
    pub open spec fn out_fut(&self) -> T { mut_ref_future(self.out) }

    #[verifier::external_body]
    pub fn get_in(&self) -> (r: &T) ensures *r == self.in_val() { unimplemented!() }

    #[verifier::external_body]
    pub fn get_out(&mut self) -> (r: &mut T)
        ensures *r == *old(self).out,
                *final(self).out == *final(r),
                mut_ref_future(final(self).out) == mut_ref_future(old(self).out),
                final(self).inp == old(self).inp,
                final(self).aliased == old(self).aliased,
    { unimplemented!() }
}
impl<'inp, 'out, T: Clone> InOut<'inp, 'out, T> {
    #[verifier::external_body]
    pub fn clone_in(&self) -> (r: T) ensures r == self.in_val() { unimplemented!() }
}
impl<'a, T> From<&'a mut T> for InOut<'a, 'a, T> {
    #[verifier::external_body]
    fn from(x: &'a mut T) -> (r: Self) ensures r.aliased@, r.out == x { unimplemented!() }
}

impl<'inp, 'out, T> From<(&'inp T, &'out mut T)> for InOut<'inp, 'out, T> {
    #[verifier::external_body]
    fn from(x: (&'inp T, &'out mut T)) -> (r: Self) ensures !r.aliased@, r.inp == x.0, r.out == x.1 { unimplemented!() }
}
impl<'inp, 'out, T, N: ArraySize> InOut<'inp, 'out, Array<T, N>> {
    #[verifier::external_body]
    pub fn get<'a>(&'a mut self, pos: usize) -> (r: InOut<'a, 'a, T>)
        requires pos < N::USIZE
        ensures
            r.in_val() == old(self).in_val()@[pos as int],
            *r.out == old(self).out@[pos as int],
            r.aliased == old(self).aliased,
            final(self).out@ == old(self).out@.update(pos as int, mut_ref_future(r.out)),
            mut_ref_future(final(self).out) == mut_ref_future(old(self).out),
            final(self).inp == old(self).inp,
            final(self).aliased == old(self).aliased,
    { unimplemented!() }
}
impl<'inp, 'out, N: ArraySize> InOut<'inp, 'out, Array<u8, N>> {
    #[verifier::external_body]
    pub fn xor_in2out(&mut self, data: &Array<u8, N>)
        ensures
            final(self).out@ == xor_seq(old(self).in_val()@, data@),
            mut_ref_future(final(self).out) == mut_ref_future(old(self).out),
            final(self).inp == old(self).inp,
            final(self).aliased == old(self).aliased,
    { unimplemented!() }
}
pub uninterp spec fn zero_of<T>() -> T;
impl<T, U: ArraySize> Default for Array<T, U> {
    #[verifier::external_body]
    fn default() -> (r: Self) ensures forall |i: int| 0 <= i < U::USIZE ==> #[trigger] r@[i] == zero_of::<T>() { unimplemented!() }
}

// ---------- shim: crypto-common / cipher ----------
pub trait BlockSizeUser { type BlockSize: BlockSizes; }
pub trait ParBlocksSizeUser: BlockSizeUser { type ParBlocksSize: ArraySize; }
pub type Block<B> = Array<u8, <B as BlockSizeUser>::BlockSize>;
pub type ParBlocks<B> = Array<Block<B>, <B as ParBlocksSizeUser>::ParBlocksSize>;

pub trait BlockCipherDecBackend: ParBlocksSizeUser + Sized {
    spec fn dec_fn(&self) -> spec_fn(Seq<u8>) -> Seq<u8>;

    fn decrypt_block(&self, block: InOut<'_, '_, Block<Self>>)
        ensures mut_ref_future(block.out)@ == self.dec_fn()(block.in_val()@);

    fn decrypt_par_blocks(&self, blocks: InOut<'_, '_, ParBlocks<Self>>)
        ensures forall |i: int| 0 <= i < Self::ParBlocksSize::USIZE ==>
            (#[trigger] mut_ref_future(blocks.out)@[i])@ == self.dec_fn()(blocks.in_val()@[i]@);
}

pub trait BlockCipherEncBackend: ParBlocksSizeUser + Sized {
    spec fn enc(&self, x: Seq<u8>) -> Seq<u8>;

    fn encrypt_block(&self, block: InOut<'_, '_, Block<Self>>)
        ensures mut_ref_future(block.out)@ == self.enc(block.in_val()@);

    fn encrypt_par_blocks(&self, blocks: InOut<'_, '_, ParBlocks<Self>>)
        ensures forall |i: int| 0 <= i < Self::ParBlocksSize::USIZE ==>
            (#[trigger] mut_ref_future(blocks.out)@[i])@ == self.enc(blocks.in_val()@[i]@);
}

pub trait EncInplace: BlockCipherEncBackend {
    fn encrypt_block_inplace(&self, block: &mut Block<Self>)
        ensures final(block)@ == self.enc(old(block)@);
}
pub type Blk = Seq<u8>;
pub type Abs = Seq<Seq<u8>>;
pub open spec fn run(step: spec_fn(Abs, Blk) -> (Abs, Blk), s: Abs, xs: Seq<Blk>) -> (Abs, Seq<Blk>)
    decreases xs.len()
{
    if xs.len() == 0 { (s, Seq::empty()) } else {
        let (s1, y) = step(s, xs[0]);
        let (s2, ys) = run(step, s1, xs.skip(1));
        (s2, seq![y] + ys)
    }
}
pub open spec fn views<N: ArraySize>(s: Seq<Array<u8, N>>) -> Seq<Blk> { Seq::new(s.len(), |i: int| s[i]@) }

pub trait BlockModeDecBackend: ParBlocksSizeUser {
    spec fn abs(&self) -> Abs;
    #[verifier::prophetic]
    spec fn abs_fut(&self) -> Abs;
    spec fn step(&self) -> spec_fn(Abs, Blk) -> (Abs, Blk);

    fn decrypt_block(&mut self, block: InOut<'_, '_, Block<Self>>)
        ensures
            final(self).step() == old(self).step(),
            final(self).abs_fut() == old(self).abs_fut(),
            (final(self).abs(), seq![block.out_fut()@]) == run(old(self).step(), old(self).abs(), seq![block.in_val()@]);

    fn decrypt_par_blocks(&mut self, blocks: InOut<'_, '_, ParBlocks<Self>>)
        requires Self::ParBlocksSize::USIZE > 1
        ensures
            final(self).step() == old(self).step(),
            final(self).abs_fut() == old(self).abs_fut(),
            (final(self).abs(), views(blocks.out_fut()@)) == run(old(self).step(), old(self).abs(), views(blocks.in_val()@));
}

pub open spec fn xor_seq(a: Seq<u8>, b: Seq<u8>) -> Seq<u8> {
    Seq::new(a.len(), |i: int| a[i] ^ b[i])
}


// ---------- shim: inout::InOutBuf ----------
pub struct InOutBuf<'inp, 'out, T> { pub inp: &'inp [T], pub out: &'out mut [T], pub aliased: Ghost<bool> }

pub open spec fn flat<N: ArraySize>(s: Seq<Array<u8, N>>) -> Seq<u8> {
    Seq::new((s.len() * N::USIZE) as nat, |i: int| s[i / (N::USIZE as int)]@[i % (N::USIZE as int)])
}

impl<'inp, 'out, T> InOutBuf<'inp, 'out, T> {
    pub open spec fn out_cur(&self) -> Seq<T> { self.out@ }
    #[verifier::prophetic]
    pub open spec fn out_fut(&self) -> Seq<T> { final(self.out)@ }
    pub open spec fn in_val(&self) -> Seq<T> { if self.aliased@ { self.out@ } else { self.inp@ } }
    pub open spec fn wf(&self) -> bool { self.inp@.len() == self.out@.len() }

    #[verifier::external_body]
    pub fn len(&self) -> (r: usize) ensures r == self.out_cur().len() { unimplemented!() }

    #[verifier::external_body]
    pub fn is_empty(&self) -> (r: bool) ensures r == (self.out_cur().len() == 0) { unimplemented!() }

    #[verifier::external_body]
    pub fn get_in<'a>(&'a self) -> (r: &'a [T]) ensures r@ == self.in_val() { unimplemented!() }

    #[verifier::external_body]
    pub fn get_out<'a>(&'a mut self) -> (r: &'a mut [T])
        ensures r@ == old(self).out_cur(),
                final(self).out_cur() == final(r)@,
                final(self).out_fut() == old(self).out_fut(),
                final(self).inp == old(self).inp,
                final(self).aliased == old(self).aliased,
    { unimplemented!() }

    #[verifier::external_body]
    pub fn reborrow<'a>(&'a mut self) -> (r: InOutBuf<'a, 'a, T>)
        ensures r.out_cur() == old(self).out_cur(), r.in_val() == old(self).in_val(), r.aliased == old(self).aliased,
                r.wf() == old(self).wf(),
                final(self).out_cur() == r.out_fut(),
                final(self).out_fut() == old(self).out_fut(),
                final(self).inp == old(self).inp,
                final(self).aliased == old(self).aliased,
    { unimplemented!() }
}

impl<'inp, 'out> InOutBuf<'inp, 'out, u8> {
    #[verifier::external_body]
    pub fn into_chunks<N: ArraySize>(self) -> (r: (InOutBuf<'inp, 'out, Array<u8, N>>, InOutBuf<'inp, 'out, u8>))
        requires N::USIZE > 0, self.wf()
        ensures
            r.0.wf(), r.1.wf(),
            r.0.out_cur().len() == self.out_cur().len() / (N::USIZE as nat),
            r.1.out_cur().len() == self.out_cur().len() % (N::USIZE as nat),
            flat(r.0.out_cur()) + r.1.out_cur() == self.out_cur(),
            flat(r.0.in_val()) + r.1.in_val() == self.in_val(),
            r.0.aliased == self.aliased, r.1.aliased == self.aliased,
            self.out_fut() == flat(r.0.out_fut()) + r.1.out_fut(),
    { unimplemented!() }
}
// ---------- shim: InOutBuf iteration ----------
#[verifier::external_body]
#[verifier::accept_recursive_types(T)]
pub struct InOutBufIter<'inp, 'out, T> { buf: InOutBuf<'inp, 'out, T>, pos: usize }

pub uninterp spec fn iob_remaining<'inp, 'out, T>(it: &InOutBufIter<'inp, 'out, T>) -> Seq<InOut<'inp, 'out, T>>;

impl<'inp, 'out, T> vstd::std_specs::iter::IteratorSpecImpl for InOutBufIter<'inp, 'out, T> {
    open spec fn obeys_prophetic_iter_laws(&self) -> bool { true }
    open spec fn remaining(&self) -> Seq<InOut<'inp, 'out, T>> { iob_remaining(self) }
    open spec fn will_return_none(&self) -> bool { true }
    open spec fn decrease(&self) -> Option<nat> { Some(iob_remaining(self).len()) }
    open spec fn peek(&self, i: int) -> Option<InOut<'inp, 'out, T>> {
        if 0 <= i < iob_remaining(self).len() { Some(iob_remaining(self)[i]) } else { None }
    }
}
impl<'inp, 'out, T> Iterator for InOutBufIter<'inp, 'out, T> {
    type Item = InOut<'inp, 'out, T>;
    #[verifier::external_body]
    fn next(&mut self) -> (r: Option<InOut<'inp, 'out, T>>) { unimplemented!() }
}
impl<'inp, 'out, T> IntoIterator for InOutBuf<'inp, 'out, T> {
    type Item = InOut<'inp, 'out, T>;
    type IntoIter = InOutBufIter<'inp, 'out, T>;
    #[verifier::external_body]
    fn into_iter(self) -> (r: InOutBufIter<'inp, 'out, T>)
        ensures
            iob_remaining(&r).len() == self.out_cur().len(),
            self.out_fut().len() == self.out_cur().len(),
            forall |i: int| #![trigger iob_remaining(&r)[i]] #![trigger self.out_fut()[i]] 0 <= i < self.out_cur().len() ==> {
                &&& iob_remaining(&r)[i].in_val() == self.in_val()[i]
                &&& *iob_remaining(&r)[i].out == self.out_cur()[i]
                &&& iob_remaining(&r)[i].aliased == self.aliased
                &&& mut_ref_future(iob_remaining(&r)[i].out) == self.out_fut()[i]
            },
    { unimplemented!() }
}


pub proof fn run_concat(step: spec_fn(Abs, Blk) -> (Abs, Blk), s: Abs, a: Seq<Blk>, b: Seq<Blk>)
    ensures run(step, s, a + b) == ({ let (s1, ya) = run(step, s, a); let (s2, yb) = run(step, s1, b); (s2, ya + yb) })
    decreases a.len()
{
    if a.len() == 0 {
        assert(a + b =~= b);
        assert(Seq::<Blk>::empty() + run(step, s, b).1 =~= run(step, s, b).1);
    } else {
        let (s1, y) = step(s, a[0]);
        assert((a + b)[0] == a[0]);
        assert((a + b).skip(1) =~= a.skip(1) + b);
        run_concat(step, s1, a.skip(1), b);
        let (sa, ya) = run(step, s1, a.skip(1));
        let (sb, yb) = run(step, sa, b);
        assert(seq![y] + (ya + yb) =~= (seq![y] + ya) + yb);
    }
}

pub open spec fn ins_of<'a, 'b, N: ArraySize>(h: Seq<InOut<'a, 'b, Array<u8, N>>>) -> Seq<Blk> { Seq::new(h.len(), |i: int| h[i].in_val()@) }
#[verifier::prophetic]
pub open spec fn outs_of<'a, 'b, N: ArraySize>(h: Seq<InOut<'a, 'b, Array<u8, N>>>) -> Seq<Blk> { Seq::new(h.len(), |i: int| h[i].out_fut()@) }

// ---------- generic driver, modelled on cipher::block::ctx::BlocksCtx (tail part only) ----------
#[verifier::loop_isolation(false)]
fn drive_tail<BK: BlockModeDecBackend>(backend: &mut BK, blocks: InOutBuf<'_, '_, Block<BK>>)
    requires blocks.wf()
    ensures
        final(backend).step() == old(backend).step(),
        (final(backend).abs(), views(blocks.out_fut())) == run(old(backend).step(), old(backend).abs(), views(blocks.in_val())),
{
    let ghost step0 = backend.step();
    let ghost abs0 = backend.abs();
    let ghost n = blocks.out_cur().len();
    let ghost insv = views(blocks.in_val());
    let ghost outf = views(blocks.out_fut());
    for block in it: blocks
        invariant
            ins_of(it.history@) =~= insv.take(it.index@ as int),
            outs_of(it.history@) =~= outf.take(it.index@ as int),
            it.history@.len() == it.index@, it.index@ <= n,
            it.history@ + iob_remaining(&it.iter) == iob_remaining(&it.snapshot@),
            iob_remaining(&it.snapshot@).len() == n,
            backend.step() == step0,
            (backend.abs(), outs_of(it.history@)) == run(step0, abs0, ins_of(it.history@)),
    {
        let ghost h0 = it.history@;
        let ghost a1 = backend.abs();
        backend.decrypt_block(block);
        proof {
            let h1 = h0.push(block);
            run_concat(step0, abs0, ins_of(h0), seq![block.in_val()@]);
            assert(ins_of(h1) =~= ins_of(h0) + seq![block.in_val()@]);
            assert(outs_of(h1) =~= outs_of(h0) + seq![block.out_fut()@]);
            assert(block == iob_remaining(&it.snapshot@)[h0.len() as int]);
        }
    }
    assert(insv.take(n as int) =~= insv);
    assert(outf.take(n as int) =~= outf);
}


pub trait BlockModeDecClosure: BlockSizeUser + Sized {
    #[verifier::prophetic]
    spec fn post(&self, step: spec_fn(Abs, Blk) -> (Abs, Blk), a0: Abs, a1: Abs) -> bool;
    fn call<B: BlockModeDecBackend<BlockSize = Self::BlockSize>>(self, backend: &mut B)
        ensures self.post(old(backend).step(), old(backend).abs(), final(backend).abs()),
                final(backend).step() == old(backend).step(),
                final(backend).abs_fut() == old(backend).abs_fut();
}
pub trait BlockCipherDecClosure: BlockSizeUser + Sized {
    #[verifier::prophetic]
    spec fn post_c(&self, dec: spec_fn(Blk) -> Blk) -> bool;
    fn call<B: BlockCipherDecBackend<BlockSize = Self::BlockSize>>(self, backend: &B)
        ensures self.post_c(backend.dec_fn());
}
pub trait BlockCipherDecrypt: BlockSizeUser {
    spec fn dec_fn(&self) -> spec_fn(Blk) -> Blk;
    fn decrypt_with_backend<F: BlockCipherDecClosure<BlockSize = Self::BlockSize>>(&self, f: F)
        ensures f.post_c(self.dec_fn());
}
pub trait BlockModeDecrypt: BlockSizeUser + Sized {
    spec fn abs(&self) -> Abs;
    spec fn step(&self) -> spec_fn(Abs, Blk) -> (Abs, Blk);
    fn decrypt_with_backend<F: BlockModeDecClosure<BlockSize = Self::BlockSize>>(&mut self, f: F)
        ensures f.post(old(self).step(), old(self).abs(), final(self).abs()),
                final(self).step() == old(self).step();
}

pub open spec fn cbc_dec_step(d: spec_fn(Blk) -> Blk) -> spec_fn(Abs, Blk) -> (Abs, Blk) {
    |a: Abs, c: Blk| (seq![c], xor_seq(d(c), a[0]))
}

#[verifier::external_body]
fn xor<N: ArraySize>(out: &mut Array<u8, N>, buf: &Array<u8, N>)
    ensures final(out)@ == xor_seq(old(out)@, buf@)
{
    for (a, b) in out.iter_mut().zip(buf) {
        *a ^= *b;
    }
}

// ---------- extracted from /repo/cbc/src/decrypt.rs ----------
pub struct Decryptor<C>
where
    C: BlockCipherDecrypt,
{
    pub cipher: C,
    pub iv: Block<C>,
}

impl<C> BlockSizeUser for Decryptor<C>
where
    C: BlockCipherDecrypt,
{
    type BlockSize = C::BlockSize;
}

// hoisted from decrypt_with_backend
#[verifier::reject_recursive_types(BS)]
#[verifier::reject_recursive_types(BC)]
pub struct Closure<'a, BS, BC>
where
    BS: BlockSizes,
    BC: BlockModeDecClosure<BlockSize = BS>,
{
    pub iv: &'a mut Array<u8, BS>,
    pub f: BC,
}

impl<BS, BC> BlockSizeUser for Closure<'_, BS, BC>
where
    BS: BlockSizes,
    BC: BlockModeDecClosure<BlockSize = BS>,
{
    type BlockSize = BS;
}

impl<BS, BC> BlockCipherDecClosure for Closure<'_, BS, BC>
where
    BS: BlockSizes,
    BC: BlockModeDecClosure<BlockSize = BS>,
{
    #[verifier::prophetic]
    open spec fn post_c(&self, dec: spec_fn(Blk) -> Blk) -> bool {
        self.f.post(cbc_dec_step(dec), seq![self.iv@], seq![mut_ref_future(self.iv)@])
    }

    #[inline(always)]
    fn call<B: BlockCipherDecBackend<BlockSize = Self::BlockSize>>(
        self,
        cipher_backend: &B,
    ) {
        let Self { iv, f } = self;
        f.call(&mut Backend { iv, cipher_backend });
    }
}

impl<C> BlockModeDecrypt for Decryptor<C>
where
    C: BlockCipherDecrypt,
{
    open spec fn abs(&self) -> Abs { seq![self.iv@] }
    open spec fn step(&self) -> spec_fn(Abs, Blk) -> (Abs, Blk) { cbc_dec_step(self.cipher.dec_fn()) }

    fn decrypt_with_backend<F: BlockModeDecClosure<BlockSize = Self::BlockSize>>(&mut self, f: F) {
        let Self { cipher, iv } = self;
        cipher.decrypt_with_backend(Closure { iv, f })
    }
}

#[verifier::reject_recursive_types(BS)]
#[verifier::reject_recursive_types(BK)]
pub struct Backend<'a, BS, BK>
where
    BS: BlockSizes,
    BK: BlockCipherDecBackend<BlockSize = BS>,
{
    pub iv: &'a mut Array<u8, BS>,
    pub cipher_backend: &'a BK,
}

impl<BS, BK> BlockSizeUser for Backend<'_, BS, BK>
where
    BS: BlockSizes,
    BK: BlockCipherDecBackend<BlockSize = BS>,
{
    type BlockSize = BS;
}

impl<BS, BK> ParBlocksSizeUser for Backend<'_, BS, BK>
where
    BS: BlockSizes,
    BK: BlockCipherDecBackend<BlockSize = BS>,
{
    type ParBlocksSize = BK::ParBlocksSize;
}

impl<BS, BK> BlockModeDecBackend for Backend<'_, BS, BK>
where
    BS: BlockSizes,
    BK: BlockCipherDecBackend<BlockSize = BS>,
{
    open spec fn abs(&self) -> Abs { seq![self.iv@] }
    #[verifier::prophetic]
    open spec fn abs_fut(&self) -> Abs { seq![mut_ref_future(self.iv)@] }
    open spec fn step(&self) -> spec_fn(Abs, Blk) -> (Abs, Blk) { cbc_dec_step(self.cipher_backend.dec_fn()) }

    #[inline(always)]
    fn decrypt_block(&mut self, mut block: InOut<'_, '_, Block<Self>>)
        ensures
            mut_ref_future(final(self).iv) == mut_ref_future(old(self).iv),
            final(self).cipher_backend == old(self).cipher_backend,
    {
        let ghost x0 = block.in_val()@;
        let in_block = block.clone_in();
        let mut t = block.clone_in();
        self.cipher_backend.decrypt_block((&mut t).into());
        xor(&mut t, self.iv);
        *block.get_out() = t;
        *self.iv = in_block;
        proof {
            reveal_with_fuel(run, 3);
            let st = old(self).step();
            let a0 = old(self).abs();
            let x = x0;
            assert(seq![x].skip(1) =~= Seq::<Blk>::empty());
            assert(run(st, a0, seq![x]).1 =~= seq![st(a0, x).1]);
            assert(seq![self.iv@] =~= st(a0, x).0);
        }
    }

    #[verifier::external_body]
    fn decrypt_par_blocks(&mut self, mut blocks: InOut<'_, '_, ParBlocks<Self>>) { unimplemented!() }
}

} // verus!
fn main() {}
