use vstd::prelude::*;
use core::fmt;
verus! {

pub uninterp spec fn fmt_out(f: &fmt::Formatter<'_>) -> Seq<char>;

pub assume_specification<'a> [fmt::Formatter::<'a>::write_str] (f: &mut fmt::Formatter<'a>, s: &str) -> (r: fmt::Result)
    ensures
        r is Ok ==> fmt_out(final(f)) == fmt_out(old(f)) + s@,
        r is Err ==> fmt_out(final(f)) == fmt_out(old(f));

pub trait AlgorithmName {
    spec fn alg_name() -> Seq<char>;
    fn write_alg_name(f: &mut fmt::Formatter<'_>) -> (r: fmt::Result)
        ensures
            r is Ok ==> fmt_out(final(f)) == fmt_out(old(f)) + Self::alg_name(),
            r is Err ==> exists |k: int| 0 <= k <= Self::alg_name().len() && fmt_out(final(f)) == fmt_out(old(f)) + #[trigger] Self::alg_name().take(k);
}

pub struct Encryptor<C> {
    pub cipher: C,
    pub iv: Vec<u8>,
}

pub open spec fn dbg_text<C: AlgorithmName>() -> Seq<char> {
    "cbc::Encryptor<"@ + C::alg_name() + "> { ... }"@
}

impl<C> fmt::Debug for Encryptor<C>
where
    C: AlgorithmName,
{
    fn fmt(&self, f: &mut fmt::Formatter<'_>) -> (r: fmt::Result)
        ensures
            exists |k: int| 0 <= k <= dbg_text::<C>().len() && fmt_out(final(f)) == fmt_out(old(f)) + #[trigger] dbg_text::<C>().take(k),
            r is Ok ==> fmt_out(final(f)) == fmt_out(old(f)) + dbg_text::<C>(),
    {
        f.write_str("cbc::Encryptor<")?;
        <C as AlgorithmName>::write_alg_name(f)?;
        f.write_str("> { ... }")
    }
}

} // verus!
fn main() {}
