use vstd::prelude::*;
use core::marker::PhantomData;
use core::ops::{Index, IndexMut};
verus! {

// ---------- shim: typenum / hybrid-array ----------
pub trait Unsigned { const USIZE: usize; }
pub trait ArraySize: Unsigned + Sized {}
pub trait BlockSizes: ArraySize {
    proof fn block_size_bounds() ensures 1 <= Self::USIZE <= 255;
}

#[verifier::external_body]
#[verifier::accept_recursive_types(T)]
#[verifier::accept_recursive_types(U)]
pub struct Array<T, U: ArraySize> { v: Vec<T>, _p: PhantomData<U> }

impl<T, U: ArraySize> Array<T, U> {
    pub uninterp spec fn view(&self) -> Seq<T>;

    #[verifier::external_body]
    pub broadcast proof fn axiom_len(&self)
        ensures #[trigger] self@.len() == U::USIZE
    {}

    #[verifier::external_body]
    pub fn len(&self) -> (r: usize) ensures r == U::USIZE { unimplemented!() }
}

impl<T: Clone, U: ArraySize> Clone for Array<T, U> {
    #[verifier::external_body]
    fn clone(&self) -> (r: Self) ensures r@ == self@ { unimplemented!() }
}

impl<T, U: ArraySize> vstd::std_specs::core::IndexSpecImpl<usize> for Array<T, U> {
    open spec fn index_req(&self, i: &usize) -> bool { *i < U::USIZE }
}
impl<T, U: ArraySize> Index<usize> for Array<T, U> {
    type Output = T;
    #[verifier::external_body]
    fn index(&self, i: usize) -> (r: &T) ensures *r == self@[i as int] { unimplemented!() }
}
impl<T, U: ArraySize> IndexMut<usize> for Array<T, U> {
    #[verifier::external_body]
    fn index_mut(&mut self, i: usize) -> (r: &mut T)
        ensures *r == old(self)@[i as int],
                final(self)@ == old(self)@.update(i as int, *final(r))
    { unimplemented!() }
}

#[verifier::external]
impl<T, U: ArraySize> core::ops::Deref for Array<T, U> { type Target = [T]; fn deref(&self) -> &[T] { &self.v } }
#[verifier::external]
impl<T, U: ArraySize> core::ops::DerefMut for Array<T, U> { fn deref_mut(&mut self) -> &mut [T] { &mut self.v } }
#[verifier::external]
impl<'a, T, U: ArraySize> IntoIterator for &'a Array<T, U> { type Item = &'a T; type IntoIter = core::slice::Iter<'a, T>; fn into_iter(self) -> Self::IntoIter { self.v.iter() } }

// ---------- shim: inout ----------
pub struct InOut<'inp, 'out, T> { pub inp: &'inp T, pub out: &'out mut T, pub aliased: Ghost<bool> }

impl<'inp, 'out, T> InOut<'inp, 'out, T> {
    pub open spec fn in_val(&self) -> T { if self.aliased@ { *self.out } else { *self.inp } }

    #[verifier::external_body]
    pub fn get_in(&self) -> (r: &T) ensures *r == self.in_val() { unimplemented!() }

    #[verifier::external_body]
    pub fn get_out(&mut self) -> (r: &mut T)
        ensures *r == *old(self).out,
                *final(self).out == *final(r),
                mut_ref_future(final(self).out) == mut_ref_future(old(self).out),
                final(self).inp == old(self).inp,
                final(self).aliased == old(self).aliased,
    { unimplemented!() }
}
impl<'inp, 'out, T: Clone> InOut<'inp, 'out, T> {
    #[verifier::external_body]
    pub fn clone_in(&self) -> (r: T) ensures r == self.in_val() { unimplemented!() }
}
impl<'a, T> From<&'a mut T> for InOut<'a, 'a, T> {
    #[verifier::external_body]
    fn from(x: &'a mut T) -> (r: Self) ensures r.aliased@, r.out == x { unimplemented!() }
}

impl<'inp, 'out, T> From<(&'inp T, &'out mut T)> for InOut<'inp, 'out, T> {
    #[verifier::external_body]
    fn from(x: (&'inp T, &'out mut T)) -> (r: Self) ensures !r.aliased@, r.inp == x.0, r.out == x.1 { unimplemented!() }
}
impl<'inp, 'out, T, N: ArraySize> InOut<'inp, 'out, Array<T, N>> {
    #[verifier::external_body]
    pub fn get<'a>(&'a mut self, pos: usize) -> (r: InOut<'a, 'a, T>)
        requires pos < N::USIZE
        ensures
            r.in_val() == old(self).in_val()@[pos as int],
            *r.out == old(self).out@[pos as int],
            r.aliased == old(self).aliased,
            final(self).out@ == old(self).out@.update(pos as int, mut_ref_future(r.out)),
            mut_ref_future(final(self).out) == mut_ref_future(old(self).out),
            final(self).inp == old(self).inp,
            final(self).aliased == old(self).aliased,
    { unimplemented!() }
}
impl<'inp, 'out, N: ArraySize> InOut<'inp, 'out, Array<u8, N>> {
    #[verifier::external_body]
    pub fn xor_in2out(&mut self, data: &Array<u8, N>)
        ensures
            final(self).out@ == xor_seq(old(self).in_val()@, data@),
            mut_ref_future(final(self).out) == mut_ref_future(old(self).out),
            final(self).inp == old(self).inp,
            final(self).aliased == old(self).aliased,
    { unimplemented!() }
}
pub uninterp spec fn zero_of<T>() -> T;
impl<T, U: ArraySize> Default for Array<T, U> {
    #[verifier::external_body]
    fn default() -> (r: Self) ensures forall |i: int| 0 <= i < U::USIZE ==> #[trigger] r@[i] == zero_of::<T>() { unimplemented!() }
}

// ---------- shim: crypto-common / cipher ----------
pub trait BlockSizeUser { type BlockSize: BlockSizes; }
pub trait ParBlocksSizeUser: BlockSizeUser { type ParBlocksSize: ArraySize; }
pub type Block<B> = Array<u8, <B as BlockSizeUser>::BlockSize>;
pub type ParBlocks<B> = Array<Block<B>, <B as ParBlocksSizeUser>::ParBlocksSize>;

pub trait BlockCipherDecBackend: ParBlocksSizeUser + Sized {
    spec fn dec(&self, x: Seq<u8>) -> Seq<u8>;

    fn decrypt_block(&self, block: InOut<'_, '_, Block<Self>>)
        ensures mut_ref_future(block.out)@ == self.dec(block.in_val()@);

    fn decrypt_par_blocks(&self, blocks: InOut<'_, '_, ParBlocks<Self>>)
        ensures forall |i: int| 0 <= i < Self::ParBlocksSize::USIZE ==>
            (#[trigger] mut_ref_future(blocks.out)@[i])@ == self.dec(blocks.in_val()@[i]@);
}

pub trait BlockCipherEncBackend: ParBlocksSizeUser + Sized {
    spec fn enc(&self, x: Seq<u8>) -> Seq<u8>;

    fn encrypt_block(&self, block: InOut<'_, '_, Block<Self>>)
        ensures mut_ref_future(block.out)@ == self.enc(block.in_val()@);

    fn encrypt_par_blocks(&self, blocks: InOut<'_, '_, ParBlocks<Self>>)
        ensures forall |i: int| 0 <= i < Self::ParBlocksSize::USIZE ==>
            (#[trigger] mut_ref_future(blocks.out)@[i])@ == self.enc(blocks.in_val()@[i]@);
}

pub trait BlockModeDecBackend: ParBlocksSizeUser {
    fn decrypt_block(&mut self, block: InOut<'_, '_, Block<Self>>);
    fn decrypt_par_blocks(&mut self, blocks: InOut<'_, '_, ParBlocks<Self>>)
        requires Self::ParBlocksSize::USIZE > 1;
}

pub open spec fn xor_seq(a: Seq<u8>, b: Seq<u8>) -> Seq<u8> {
    Seq::new(a.len(), |i: int| a[i] ^ b[i])
}


// ---------- extracted from /repo/cfb-mode/src/decrypt.rs ----------
#[verifier::reject_recursive_types(BS)]
#[verifier::reject_recursive_types(BK)]
pub struct CbcDecryptBackend<'a, BS, BK>
where
    BS: BlockSizes,
    BK: BlockCipherEncBackend<BlockSize = BS>,
{
    pub iv: &'a mut Array<u8, BS>,
    pub cipher_backend: &'a BK,
}

impl<BS, BK> BlockSizeUser for CbcDecryptBackend<'_, BS, BK>
where
    BS: BlockSizes,
    BK: BlockCipherEncBackend<BlockSize = BS>,
{
    type BlockSize = BS;
}

impl<BS, BK> ParBlocksSizeUser for CbcDecryptBackend<'_, BS, BK>
where
    BS: BlockSizes,
    BK: BlockCipherEncBackend<BlockSize = BS>,
{
    type ParBlocksSize = BK::ParBlocksSize;
}

impl<BS, BK> BlockModeDecBackend for CbcDecryptBackend<'_, BS, BK>
where
    BS: BlockSizes,
    BK: BlockCipherEncBackend<BlockSize = BS>,
{
    #[inline(always)]
    fn decrypt_block(&mut self, mut block: InOut<'_, '_, Block<Self>>)
        ensures
            mut_ref_future(block.out)@ == xor_seq(block.in_val()@, old(self).iv@),
            final(self).iv@ == old(self).cipher_backend.enc(block.in_val()@),
            mut_ref_future(final(self).iv) == mut_ref_future(old(self).iv),
            final(self).cipher_backend == old(self).cipher_backend,
    {
        let mut t = block.clone_in();
        block.xor_in2out(self.iv);
        self.cipher_backend.encrypt_block((&mut t).into());
        *self.iv = t;
    }

    #[inline(always)]
    fn decrypt_par_blocks(&mut self, mut blocks: InOut<'_, '_, ParBlocks<Self>>)
        ensures
            forall |i: int| 0 <= i < BK::ParBlocksSize::USIZE ==>
                (#[trigger] mut_ref_future(blocks.out)@[i])@ == xor_seq(
                    blocks.in_val()@[i]@,
                    if i == 0 { old(self).iv@ } else { old(self).cipher_backend.enc(blocks.in_val()@[i - 1]@) }),
            final(self).iv@ == old(self).cipher_backend.enc(blocks.in_val()@[BK::ParBlocksSize::USIZE - 1]@),
            mut_ref_future(final(self).iv) == mut_ref_future(old(self).iv),
            final(self).cipher_backend == old(self).cipher_backend,
    {
        broadcast use Array::axiom_len;
        let mut t = ParBlocks::<Self>::default();
        let b = (blocks.get_in(), &mut t).into();
        self.cipher_backend.encrypt_par_blocks(b);

        let n = t.len();
        let ghost in0 = blocks.in_val();
        let ghost iv0 = self.iv@;
        let ghost blocks0 = blocks;
        blocks.get(0).xor_in2out(self.iv);
        for i in 1..n
            invariant
                n == BK::ParBlocksSize::USIZE, n > 1, t@.len() == n, in0@.len() == n,
                blocks.out@.len() == n,
                forall |j: int| 0 <= j < n ==> (#[trigger] t@[j])@ == self.cipher_backend.enc(in0@[j]@),
                mut_ref_future(blocks.out) == mut_ref_future(blocks0.out),
                blocks.aliased == blocks0.aliased, blocks.inp == blocks0.inp,
                forall |j: int| 0 <= j < i ==> (#[trigger] blocks.out@[j])@ == xor_seq(in0@[j]@,
                    if j == 0 { iv0 } else { self.cipher_backend.enc(in0@[j - 1]@) }),
                forall |j: int| i <= j < n ==> #[trigger] blocks.in_val()@[j] == in0@[j],
                self.iv@ == iv0,
                mut_ref_future(self.iv) == mut_ref_future(old(self).iv),
                self.cipher_backend == old(self).cipher_backend,
        {
            blocks.get(i).xor_in2out(&t[i - 1])
        }
        *self.iv = t[n - 1].clone();
    }
}

} // verus!
fn main() {}
