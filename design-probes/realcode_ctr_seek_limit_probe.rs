use aes::Aes128;
use ctr::cipher::{KeyIvInit, StreamCipher, StreamCipherSeek};

#[test]
fn probe_seek_end() {
    let key = [0x42u8; 16]; let iv = [0x24u8; 16];
    let mut c = ctr::Ctr32BE::<Aes128>::new(&key.into(), &iv.into());
    let mut ks0 = [0u8; 48];
    c.apply_keystream(&mut ks0);
    let limit: u64 = (u32::MAX as u64) * 16;
    // seek exactly to limit
    println!("seek(limit) = {:?}", c.try_seek(limit));
    println!("pos = {:?}", c.try_current_pos::<u64>());
    let mut b = [0u8; 1];
    println!("apply 1 at limit = {:?}", c.try_apply_keystream(&mut b));
    // request ending exactly at limit
    println!("seek(limit-16) = {:?}", c.try_seek(limit - 16));
    let mut b = [0u8; 16];
    println!("apply 16 ending at limit = {:?}", c.try_apply_keystream(&mut b));
    println!("pos = {:?}", c.try_current_pos::<u64>());
    println!("seek(limit-20) = {:?}", c.try_seek(limit - 20));
    let mut b = [0u8; 21];
    println!("apply 21 crossing limit = {:?} b={:?}", c.try_apply_keystream(&mut b), &b[..4]);
    println!("pos = {:?}", c.try_current_pos::<u64>());
    // seek beyond
    println!("seek(limit+1) = {:?}", c.try_seek(limit + 1));
    println!("pos = {:?}", c.try_current_pos::<u64>());
    let mut b = [0u8; 15 + 48];
    println!("apply after = {:?}", c.try_apply_keystream(&mut b));
    println!("reused ks0? {}", b[15..] == ks0);
    println!("pos = {:?}", c.try_current_pos::<u64>());
    println!("seek(-5) = {:?}", std::panic::catch_unwind(move || { let mut c = c; c.try_seek(-5i32) }));
}
