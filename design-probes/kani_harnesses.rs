use cipher::{
    Block, BlockCipherDecBackend, BlockCipherDecClosure, BlockCipherDecrypt, BlockCipherEncBackend,
    BlockCipherEncClosure, BlockCipherEncrypt, BlockModeDecrypt, BlockModeEncrypt, BlockSizeUser,
    InOut, InnerIvInit, IvState, ParBlocksSizeUser,
    consts::{U2, U3, U4},
};
use core::cell::Cell;

/// Toy cipher, 4-byte blocks, parallel width 3. enc = nondeterministic outputs recorded in a log.
pub struct LogCipher {
    pub n: Cell<usize>,
    pub xs: Cell<[[u8; 4]; 8]>,
    pub ys: [[u8; 4]; 8],
}
impl BlockSizeUser for LogCipher { type BlockSize = U4; }
impl ParBlocksSizeUser for LogCipher { type ParBlocksSize = U3; }
impl BlockCipherDecBackend for LogCipher {
    fn decrypt_block(&self, mut block: InOut<'_, '_, Block<Self>>) {
        let k = self.n.get();
        let mut xs = self.xs.get();
        xs[k] = block.clone_in().into();
        self.xs.set(xs);
        *block.get_out() = self.ys[k].into();
        self.n.set(k + 1);
    }
}
impl BlockCipherDecrypt for LogCipher {
    fn decrypt_with_backend(&self, f: impl BlockCipherDecClosure<BlockSize = U4>) { f.call(self) }
}

#[cfg(kani)]
#[kani::proof]
#[kani::unwind(9)]
fn cbc_dec_5_blocks() {
    let c = LogCipher { n: Cell::new(0), xs: Cell::new([[0; 4]; 8]), ys: kani::any() };
    let iv: [u8; 4] = kani::any();
    let ct: [[u8; 4]; 5] = kani::any();
    let mut buf: [Block<LogCipher>; 5] = ct.map(|b| b.into());
    let mut d = cbc::Decryptor::inner_iv_init(&c, &iv.into());
    d.decrypt_blocks(&mut buf);
    assert!(c.n.get() == 5);
    let xs = c.xs.get();
    let mut prev = iv;
    for i in 0..5 {
        assert!(xs[i] == ct[i]);
        let mut p = c.ys[i];
        for j in 0..4 { p[j] ^= prev[j]; }
        let got: [u8; 4] = buf[i].into();
        assert!(got == p);
        prev = ct[i];
    }
    let st: [u8; 4] = d.iv_state().into();
    assert!(st == ct[4]);
}

pub struct LogCipher2 {
    pub n: Cell<usize>,
    pub xs: Cell<[[u8; 2]; 4]>,
    pub ys: [[u8; 2]; 4],
}
impl BlockSizeUser for LogCipher2 { type BlockSize = U2; }
impl ParBlocksSizeUser for LogCipher2 { type ParBlocksSize = U2; }
impl BlockCipherDecBackend for LogCipher2 {
    fn decrypt_block(&self, mut block: InOut<'_, '_, Block<Self>>) {
        let k = self.n.get();
        let mut xs = self.xs.get();
        xs[k] = block.clone_in().into();
        self.xs.set(xs);
        *block.get_out() = self.ys[k].into();
        self.n.set(k + 1);
    }
}
impl BlockCipherDecrypt for LogCipher2 {
    fn decrypt_with_backend(&self, f: impl BlockCipherDecClosure<BlockSize = U2>) { f.call(self) }
}

#[cfg(kani)]
#[kani::proof]
#[kani::unwind(5)]
fn cbc_dec_3_blocks_small() {
    let c = LogCipher2 { n: Cell::new(0), xs: Cell::new([[0; 2]; 4]), ys: kani::any() };
    let iv: [u8; 2] = kani::any();
    let ct: [[u8; 2]; 3] = kani::any();
    let mut buf: [Block<LogCipher2>; 3] = ct.map(|b| b.into());
    let mut d = cbc::Decryptor::inner_iv_init(&c, &iv.into());
    d.decrypt_blocks(&mut buf);
    assert!(c.n.get() == 3);
    let xs = c.xs.get();
    let mut prev = iv;
    for i in 0..3 {
        assert!(xs[i] == ct[i]);
        let got: [u8; 2] = buf[i].into();
        assert!(got[0] == c.ys[i][0] ^ prev[0]);
        assert!(got[1] == c.ys[i][1] ^ prev[1]);
        prev = ct[i];
    }
    let st: [u8; 2] = d.iv_state().into();
    assert!(st == ct[2]);
}

pub struct EncLog4 { pub n: Cell<usize>, pub xs: Cell<[[u8; 4]; 6]>, pub ys: [[u8; 4]; 6] }
impl BlockSizeUser for EncLog4 { type BlockSize = U4; }
impl ParBlocksSizeUser for EncLog4 { type ParBlocksSize = U2; }
impl BlockCipherEncBackend for EncLog4 {
    fn encrypt_block(&self, mut block: InOut<'_, '_, Block<Self>>) {
        let k = self.n.get();
        let mut xs = self.xs.get();
        xs[k] = block.clone_in().into();
        self.xs.set(xs);
        *block.get_out() = self.ys[k].into();
        self.n.set(k + 1);
    }
}
impl BlockCipherEncrypt for EncLog4 {
    fn encrypt_with_backend(&self, f: impl BlockCipherEncClosure<BlockSize = U4>) { f.call(self) }
}

#[cfg(kani)]
#[kani::proof]
#[kani::unwind(14)]
fn ctr32be_limit() {
    use cipher::{StreamCipher, StreamCipherSeek};
    let c = EncLog4 { n: Cell::new(0), xs: Cell::new([[0; 4]; 6]), ys: kani::any() };
    let iv: [u8; 4] = kani::any();
    let mut s = ctr::Ctr32BE::<&EncLog4>::from_core(ctr::CtrCore::inner_iv_init(&c, &iv.into()));
    let limit: u64 = (u32::MAX as u64) * 4;
    let back: u64 = kani::any();
    kani::assume(back <= 9);
    let start = limit - back;
    assert!(s.try_seek(start).is_ok());
    let len: usize = kani::any();
    kani::assume(len <= 12);
    let data: [u8; 12] = kani::any();
    let mut buf = data;
    let r = s.try_apply_keystream(&mut buf[..len]);
    assert!(r.is_ok() == (len as u64 <= back));
    if r.is_err() {
        assert!(buf == data);
        assert!(s.try_current_pos::<u64>().unwrap() == start);
    } else {
        assert!(s.try_current_pos::<u64>().unwrap() == start + len as u64);
    }
}

#[cfg(kani)]
#[kani::proof]
#[kani::unwind(16)]
fn cfb_buf_enc_b4() {
    const B: usize = 4;
    const MAXN: usize = 3 * B + 2;
    let c = EncLog4 { n: Cell::new(0), xs: Cell::new([[0; 4]; 6]), ys: kani::any() };
    let iv0: [u8; B] = kani::any();
    let pos0: usize = kani::any();
    kani::assume(pos0 < B);
    let mut e = cfb_mode::BufEncryptor::from_state(&c, &iv0.into(), pos0);
    let n: usize = kani::any();
    kani::assume(n <= MAXN);
    let data: [u8; MAXN] = kani::any();
    let mut buf = data;
    e.encrypt(&mut buf[..n]);
    // reference byte transducer over the log
    let xs = c.xs.get();
    let mut iv = iv0;
    let mut pos = pos0;
    let mut k = 0usize;
    let mut i = 0usize;
    while i < n {
        let ct = data[i] ^ iv[pos];
        assert!(buf[i] == ct);
        iv[pos] = ct;
        pos += 1;
        if pos == B {
            assert!(xs[k] == iv);
            iv = c.ys[k];
            k += 1;
            pos = 0;
        }
        i += 1;
    }
    assert!(c.n.get() == k);
    let (siv, spos) = e.get_state();
    let siv: [u8; B] = siv.clone().into();
    assert!(spos == pos);
    assert!(siv == iv);
    while i < MAXN { assert!(buf[i] == data[i]); i += 1; }
}
