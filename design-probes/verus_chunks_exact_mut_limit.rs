use vstd::prelude::*;
use vstd::std_specs::iter::*;
verus! {

#[verifier::external_body]
pub struct ShimChunksExactMut<'a> { it: core::slice::ChunksExactMut<'a, u8> }
pub uninterp spec fn sc_remaining<'a>(it: &ShimChunksExactMut<'a>) -> Seq<&'a mut [u8]>;
pub uninterp spec fn sc_rem_len<'a>(it: &ShimChunksExactMut<'a>) -> nat;

impl<'a> IteratorSpecImpl for ShimChunksExactMut<'a> {
    open spec fn obeys_prophetic_iter_laws(&self) -> bool { true }
    open spec fn remaining(&self) -> Seq<&'a mut [u8]> { sc_remaining(self) }
    open spec fn will_return_none(&self) -> bool { true }
    open spec fn decrease(&self) -> Option<nat> { Some(sc_remaining(self).len()) }
    open spec fn peek(&self, i: int) -> Option<&'a mut [u8]> { if 0 <= i < sc_remaining(self).len() { Some(sc_remaining(self)[i]) } else { None } }
}
impl<'a> Iterator for ShimChunksExactMut<'a> {
    type Item = &'a mut [u8];
    #[verifier::external_body]
    fn next(&mut self) -> (r: Option<&'a mut [u8]>)
        ensures sc_rem_len(final(self)) == sc_rem_len(old(self))
    { unimplemented!() }
}
impl<'a> ShimChunksExactMut<'a> {
    #[verifier::external_body]
    fn into_remainder(self) -> (r: &'a mut [u8]) ensures r@.len() == sc_rem_len(&self) { unimplemented!() }
}
pub trait ShimSlice {
    fn shim_chunks_exact_mut<'a>(&'a mut self, n: usize) -> ShimChunksExactMut<'a> requires n > 0;
}
impl ShimSlice for [u8] {
    #[verifier::external_body]
    fn shim_chunks_exact_mut<'a>(&'a mut self, n: usize) -> (r: ShimChunksExactMut<'a>)
        ensures sc_remaining(&r).len() == old(self)@.len() / (n as nat),
                sc_rem_len(&r) == old(self)@.len() % (n as nat),
    { unimplemented!() }
}

fn user(mut data: &mut [u8], bs: usize) -> (p: usize)
    requires bs > 0
    ensures p == old(data)@.len() % (bs as nat)
{
    let mut chunks = data.shim_chunks_exact_mut(bs);
    let mut k: usize = 0;
    let ghost r0 = sc_rem_len(&chunks);
    for chunk in it: &mut chunks
        invariant sc_rem_len(&*it.iter) == r0,
    {
        k = k / 2;
    }
    assert(sc_rem_len(&chunks) == r0);
    let rem = chunks.into_remainder();
    rem.len()
}

} // verus!
fn main() {}
