use vstd::prelude::*;
use core::marker::PhantomData;
use core::ops::{Index, IndexMut};
verus! {

// ---------- shim: typenum / hybrid-array ----------
pub trait Unsigned { const USIZE: usize; }
pub trait ArraySize: Unsigned + Sized {}
pub trait BlockSizes: ArraySize {
    proof fn block_size_bounds() ensures 1 <= Self::USIZE <= 255;
}

#[verifier::external_body]
#[verifier::accept_recursive_types(T)]
#[verifier::accept_recursive_types(U)]
pub struct Array<T, U: ArraySize> { v: Vec<T>, _p: PhantomData<U> }

impl<T, U: ArraySize> Array<T, U> {
    pub uninterp spec fn view(&self) -> Seq<T>;

    #[verifier::external_body]
    pub broadcast proof fn axiom_len(&self)
        ensures #[trigger] self@.len() == U::USIZE
    {}

    #[verifier::external_body]
    pub fn len(&self) -> (r: usize) ensures r == U::USIZE { unimplemented!() }
}

impl<T: Clone, U: ArraySize> Clone for Array<T, U> {
    #[verifier::external_body]
    fn clone(&self) -> (r: Self) ensures r@ == self@ { unimplemented!() }
}

impl<T, U: ArraySize> vstd::std_specs::core::IndexSpecImpl<usize> for Array<T, U> {
    open spec fn index_req(&self, i: &usize) -> bool { *i < U::USIZE }
}
impl<T, U: ArraySize> Index<usize> for Array<T, U> {
    type Output = T;
    #[verifier::external_body]
    fn index(&self, i: usize) -> (r: &T) ensures *r == self@[i as int] { unimplemented!() }
}
impl<T, U: ArraySize> IndexMut<usize> for Array<T, U> {
    #[verifier::external_body]
    fn index_mut(&mut self, i: usize) -> (r: &mut T)
        ensures *r == old(self)@[i as int],
                final(self)@ == old(self)@.update(i as int, *final(r))
    { unimplemented!() }
}

impl<T, U: ArraySize> core::ops::Deref for Array<T, U> { type Target = [T];
    #[verifier::external_body]
    fn deref(&self) -> (r: &[T]) ensures r@ == self@ { &self.v } }
#[verifier::external]
impl<T, U: ArraySize> core::ops::DerefMut for Array<T, U> { fn deref_mut(&mut self) -> &mut [T] { &mut self.v } }
#[verifier::external]
impl<'a, T, U: ArraySize> IntoIterator for &'a Array<T, U> { type Item = &'a T; type IntoIter = core::slice::Iter<'a, T>; fn into_iter(self) -> Self::IntoIter { self.v.iter() } }

impl<T, U: ArraySize> vstd::std_specs::core::IndexSpecImpl<core::ops::RangeTo<usize>> for Array<T, U> {
    open spec fn index_req(&self, r: &core::ops::RangeTo<usize>) -> bool { r.end <= U::USIZE }
}
impl<T, U: ArraySize> Index<core::ops::RangeTo<usize>> for Array<T, U> {
    type Output = [T];
    #[verifier::external_body]
    fn index(&self, r: core::ops::RangeTo<usize>) -> (o: &[T]) ensures o@ == self@.take(r.end as int) { unimplemented!() }
}
impl<T, U: ArraySize> IndexMut<core::ops::RangeTo<usize>> for Array<T, U> {
    #[verifier::external_body]
    fn index_mut(&mut self, r: core::ops::RangeTo<usize>) -> (o: &mut [T])
        ensures o@ == old(self)@.take(r.end as int),
                final(o)@.len() == o@.len(),
                final(self)@ == final(o)@ + old(self)@.skip(r.end as int)
    { unimplemented!() }
}
// ---------- shim: inout ----------
pub struct InOut<'inp, 'out, T> { pub inp: &'inp T, pub out: &'out mut T, pub aliased: Ghost<bool> }

impl<'inp, 'out, T> InOut<'inp, 'out, T> {
    pub open spec fn in_val(&self) -> T { if self.aliased@ { *self.out } else { *self.inp } }
    #[verifier::prophetic]
    pub open spec fn out_fut(&self) -> T { mut_ref_future(self.out) }

    #[verifier::external_body]
    pub fn get_in(&self) -> (r: &T) ensures *r == self.in_val() { unimplemented!() }

    #[verifier::external_body]
    pub fn get_out(&mut self) -> (r: &mut T)
        ensures *r == *old(self).out,
                *final(self).out == *final(r),
                mut_ref_future(final(self).out) == mut_ref_future(old(self).out),
                final(self).inp == old(self).inp,
                final(self).aliased == old(self).aliased,
    { unimplemented!() }
}
impl<'inp, 'out, T: Clone> InOut<'inp, 'out, T> {
    #[verifier::external_body]
    pub fn clone_in(&self) -> (r: T) ensures r == self.in_val() { unimplemented!() }
}
impl<'a, T> From<&'a mut T> for InOut<'a, 'a, T> {
    #[verifier::external_body]
    fn from(x: &'a mut T) -> (r: Self) ensures r.aliased@, r.out == x { unimplemented!() }
}

impl<'inp, 'out, T> From<(&'inp T, &'out mut T)> for InOut<'inp, 'out, T> {
    #[verifier::external_body]
    fn from(x: (&'inp T, &'out mut T)) -> (r: Self) ensures !r.aliased@, r.inp == x.0, r.out == x.1 { unimplemented!() }
}
impl<'inp, 'out, T, N: ArraySize> InOut<'inp, 'out, Array<T, N>> {
    #[verifier::external_body]
    pub fn get<'a>(&'a mut self, pos: usize) -> (r: InOut<'a, 'a, T>)
        requires pos < N::USIZE
        ensures
            r.in_val() == old(self).in_val()@[pos as int],
            *r.out == old(self).out@[pos as int],
            r.aliased == old(self).aliased,
            final(self).out@ == old(self).out@.update(pos as int, mut_ref_future(r.out)),
            mut_ref_future(final(self).out) == mut_ref_future(old(self).out),
            final(self).inp == old(self).inp,
            final(self).aliased == old(self).aliased,
    { unimplemented!() }
}
impl<'inp, 'out, N: ArraySize> InOut<'inp, 'out, Array<u8, N>> {
    #[verifier::external_body]
    pub fn xor_in2out(&mut self, data: &Array<u8, N>)
        ensures
            final(self).out@ == xor_seq(old(self).in_val()@, data@),
            mut_ref_future(final(self).out) == mut_ref_future(old(self).out),
            final(self).inp == old(self).inp,
            final(self).aliased == old(self).aliased,
    { unimplemented!() }
}
pub uninterp spec fn zero_of<T>() -> T;
impl<T, U: ArraySize> Default for Array<T, U> {
    #[verifier::external_body]
    fn default() -> (r: Self) ensures forall |i: int| 0 <= i < U::USIZE ==> #[trigger] r@[i] == zero_of::<T>() { unimplemented!() }
}

// ---------- shim: crypto-common / cipher ----------
pub trait BlockSizeUser { type BlockSize: BlockSizes; }
pub trait ParBlocksSizeUser: BlockSizeUser { type ParBlocksSize: ArraySize; }
pub type Block<B> = Array<u8, <B as BlockSizeUser>::BlockSize>;
pub type ParBlocks<B> = Array<Block<B>, <B as ParBlocksSizeUser>::ParBlocksSize>;

pub trait BlockCipherDecBackend: ParBlocksSizeUser + Sized {
    spec fn dec(&self, x: Seq<u8>) -> Seq<u8>;

    fn decrypt_block(&self, block: InOut<'_, '_, Block<Self>>)
        ensures mut_ref_future(block.out)@ == self.dec(block.in_val()@);

    fn decrypt_par_blocks(&self, blocks: InOut<'_, '_, ParBlocks<Self>>)
        ensures forall |i: int| 0 <= i < Self::ParBlocksSize::USIZE ==>
            (#[trigger] mut_ref_future(blocks.out)@[i])@ == self.dec(blocks.in_val()@[i]@);
}

pub trait BlockCipherEncBackend: ParBlocksSizeUser + Sized {
    spec fn enc(&self, x: Seq<u8>) -> Seq<u8>;

    fn encrypt_block(&self, block: InOut<'_, '_, Block<Self>>)
        ensures mut_ref_future(block.out)@ == self.enc(block.in_val()@);

    fn encrypt_par_blocks(&self, blocks: InOut<'_, '_, ParBlocks<Self>>)
        ensures forall |i: int| 0 <= i < Self::ParBlocksSize::USIZE ==>
            (#[trigger] mut_ref_future(blocks.out)@[i])@ == self.enc(blocks.in_val()@[i]@);
}

pub trait EncInplace: BlockCipherEncBackend {
    fn encrypt_block_inplace(&self, block: &mut Block<Self>)
        ensures final(block)@ == self.enc(old(block)@);
}
pub trait BlockCipherEncClosure: BlockSizeUser + Sized {
    spec fn pre(&self) -> bool;
    fn call<B: EncInplace<BlockSize = Self::BlockSize>>(self, backend: &B)
        requires self.pre();
}
pub trait BlockModeDecBackend: ParBlocksSizeUser {
    fn decrypt_block(&mut self, block: InOut<'_, '_, Block<Self>>);
    fn decrypt_par_blocks(&mut self, blocks: InOut<'_, '_, ParBlocks<Self>>)
        requires Self::ParBlocksSize::USIZE > 1;
}

pub open spec fn xor_seq(a: Seq<u8>, b: Seq<u8>) -> Seq<u8> {
    Seq::new(a.len(), |i: int| a[i] ^ b[i])
}


// ---------- shim: inout::InOutBuf ----------
pub struct InOutBuf<'inp, 'out, T> { pub inp: &'inp [T], pub out: &'out mut [T], pub aliased: Ghost<bool> }

pub open spec fn flat<N: ArraySize>(s: Seq<Array<u8, N>>) -> Seq<u8> {
    Seq::new((s.len() * N::USIZE) as nat, |i: int| s[i / (N::USIZE as int)]@[i % (N::USIZE as int)])
}

impl<'inp, 'out, T> InOutBuf<'inp, 'out, T> {
    pub open spec fn out_cur(&self) -> Seq<T> { self.out@ }
    #[verifier::prophetic]
    pub open spec fn out_fut(&self) -> Seq<T> { final(self.out)@ }
    pub open spec fn in_val(&self) -> Seq<T> { if self.aliased@ { self.out@ } else { self.inp@ } }
    pub open spec fn wf(&self) -> bool { self.inp@.len() == self.out@.len() }

    #[verifier::external_body]
    pub fn len(&self) -> (r: usize) ensures r == self.out_cur().len() { unimplemented!() }

    #[verifier::external_body]
    pub fn is_empty(&self) -> (r: bool) ensures r == (self.out_cur().len() == 0) { unimplemented!() }

    #[verifier::external_body]
    pub fn get_in<'a>(&'a self) -> (r: &'a [T]) ensures r@ == self.in_val() { unimplemented!() }

    #[verifier::external_body]
    pub fn get_out<'a>(&'a mut self) -> (r: &'a mut [T])
        ensures r@ == old(self).out_cur(),
                final(self).out_cur() == final(r)@,
                final(self).out_fut() == old(self).out_fut(),
                final(self).inp == old(self).inp,
                final(self).aliased == old(self).aliased,
    { unimplemented!() }

    #[verifier::external_body]
    pub fn reborrow<'a>(&'a mut self) -> (r: InOutBuf<'a, 'a, T>)
        ensures r.out_cur() == old(self).out_cur(), r.in_val() == old(self).in_val(), r.aliased == old(self).aliased,
                r.wf() == old(self).wf(),
                final(self).out_cur() == r.out_fut(),
                final(self).out_fut() == old(self).out_fut(),
                final(self).inp == old(self).inp,
                final(self).aliased == old(self).aliased,
    { unimplemented!() }
}

impl<'inp, 'out> InOutBuf<'inp, 'out, u8> {
    #[verifier::external_body]
    pub fn into_chunks<N: ArraySize>(self) -> (r: (InOutBuf<'inp, 'out, Array<u8, N>>, InOutBuf<'inp, 'out, u8>))
        requires N::USIZE > 0, self.wf()
        ensures
            r.0.wf(), r.1.wf(),
            r.0.out_cur().len() == self.out_cur().len() / (N::USIZE as nat),
            r.1.out_cur().len() == self.out_cur().len() % (N::USIZE as nat),
            flat(r.0.out_cur()) + r.1.out_cur() == self.out_cur(),
            flat(r.0.in_val()) + r.1.in_val() == self.in_val(),
            r.0.aliased == self.aliased, r.1.aliased == self.aliased,
            self.out_fut() == flat(r.0.out_fut()) + r.1.out_fut(),
    { unimplemented!() }
}
// ---------- shim: InOutBuf iteration ----------
#[verifier::external_body]
#[verifier::accept_recursive_types(T)]
pub struct InOutBufIter<'inp, 'out, T> { buf: InOutBuf<'inp, 'out, T>, pos: usize }

pub uninterp spec fn iob_remaining<'inp, 'out, T>(it: &InOutBufIter<'inp, 'out, T>) -> Seq<InOut<'inp, 'out, T>>;

impl<'inp, 'out, T> vstd::std_specs::iter::IteratorSpecImpl for InOutBufIter<'inp, 'out, T> {
    open spec fn obeys_prophetic_iter_laws(&self) -> bool { true }
    open spec fn remaining(&self) -> Seq<InOut<'inp, 'out, T>> { iob_remaining(self) }
    open spec fn will_return_none(&self) -> bool { true }
    open spec fn decrease(&self) -> Option<nat> { Some(iob_remaining(self).len()) }
    open spec fn peek(&self, i: int) -> Option<InOut<'inp, 'out, T>> {
        if 0 <= i < iob_remaining(self).len() { Some(iob_remaining(self)[i]) } else { None }
    }
}
impl<'inp, 'out, T> Iterator for InOutBufIter<'inp, 'out, T> {
    type Item = InOut<'inp, 'out, T>;
    #[verifier::external_body]
    fn next(&mut self) -> (r: Option<InOut<'inp, 'out, T>>) { unimplemented!() }
}
impl<'inp, 'out, T> IntoIterator for InOutBuf<'inp, 'out, T> {
    type Item = InOut<'inp, 'out, T>;
    type IntoIter = InOutBufIter<'inp, 'out, T>;
    #[verifier::external_body]
    fn into_iter(self) -> (r: InOutBufIter<'inp, 'out, T>)
        ensures
            iob_remaining(&r).len() == self.out_cur().len(),
            self.out_fut().len() == self.out_cur().len(),
            forall |i: int| #![trigger iob_remaining(&r)[i]] #![trigger self.out_fut()[i]] 0 <= i < self.out_cur().len() ==> {
                &&& iob_remaining(&r)[i].in_val() == self.in_val()[i]
                &&& *iob_remaining(&r)[i].out == self.out_cur()[i]
                &&& iob_remaining(&r)[i].aliased == self.aliased
                &&& mut_ref_future(iob_remaining(&r)[i].out) == self.out_fut()[i]
            },
    { unimplemented!() }
}

// ---------- extracted from /repo/cts/src/lib.rs ----------
#[verifier::external_body]
fn xor<N: ArraySize>(out: &mut Array<u8, N>, buf: &Array<u8, N>)
    ensures final(out)@ == xor_seq(old(out)@, buf@)
{
    for (a, b) in out.iter_mut().zip(buf) {
        *a ^= *b;
    }
}

pub open spec fn cbc_c<B: BlockCipherEncBackend>(c: &B, iv: Seq<u8>, ps: Seq<Block<B>>, i: int) -> Seq<u8>
    decreases i + 1
{
    if i < 0 { iv } else { c.enc(xor_seq(ps[i]@, cbc_c(c, iv, ps, i - 1))) }
}

#[verifier::loop_isolation(false)]
fn cbc_enc<B: EncInplace>(
    cipher: &B,
    iv: &mut Block<B>,
    mut blocks: InOutBuf<'_, '_, Block<B>>,
)
    requires blocks.wf()
    ensures
        blocks.out_fut().len() == blocks.out_cur().len(),
        forall |i: int| 0 <= i < blocks.out_cur().len() ==>
            (#[trigger] blocks.out_fut()[i])@ == cbc_c(cipher, old(iv)@, blocks.in_val(), i),
        final(iv)@ == cbc_c(cipher, old(iv)@, blocks.in_val(), blocks.out_cur().len() - 1),
{
    let ghost ins = blocks.in_val();
    let ghost iv0 = iv@;
    let ghost n = blocks.out_cur().len();
    for mut block in it: blocks.reborrow()
        invariant
            it.history@.len() == it.index@,
            it.index@ <= n,
            it.history@ + iob_remaining(&it.iter) == iob_remaining(&it.snapshot@),
            iob_remaining(&it.snapshot@).len() == n,
            forall |j: int| 0 <= j < it.index@ ==>
                (#[trigger] iob_remaining(&it.snapshot@)[j]).out_fut()@ == cbc_c(cipher, iv0, ins, j),
            iv@ == cbc_c(cipher, iv0, ins, it.index@ - 1),
            forall |j: int| 0 <= j < it.index@ ==>
                (#[trigger] it.history@[j]).out_fut()@ == cbc_c(cipher, iv0, ins, j),
    {
        let mut t = block.clone_in();
        xor(&mut t, iv);
        cipher.encrypt_block_inplace(&mut t);
        *iv = t.clone();
        *block.get_out() = t;
    }
    assert(blocks.out_cur().len() == n);
    assert(forall |i: int| 0 <= i < n ==> (#[trigger] blocks.out_cur()[i])@ == cbc_c(cipher, iv0, ins, i));
    assert(blocks.out_fut() == blocks.out_cur());
}


pub assume_specification<T> [<[T]>::split_last_mut] (s: &mut [T]) -> (r: Option<(&mut T, &mut [T])>)
    ensures
        old(s)@.len() == 0 ==> r is None && final(s)@ == old(s)@,
        old(s)@.len() > 0 ==> r is Some
            && *r.unwrap().0 == old(s)@.last()
            && r.unwrap().1@ == old(s)@.drop_last()
            && final(r.unwrap().1)@.len() == old(s)@.len() - 1
            && final(s)@ == final(r.unwrap().1)@.push(*final(r.unwrap().0));
pub assume_specification<T> [core::mem::replace] (dest: &mut T, src: T) -> (r: T)
    ensures r == *old(dest), *final(dest) == src;

pub proof fn flat_one<N: ArraySize>(s: Seq<Array<u8, N>>)
    requires s.len() == 1, N::USIZE > 0
    ensures flat(s) =~= s[0]@
{
    broadcast use Array::axiom_len;
    let n = N::USIZE as int;
    assert(1 * n == n) by (nonlinear_arith);
    assert(flat(s).len() == n);
    assert forall |i: int| 0 <= i < n implies #[trigger] flat(s)[i] == s[0]@[i] by {
        assert(i / n == 0 && i % n == i) by (nonlinear_arith) requires 0 <= i < n;
    }
}

// ---------- extracted from /repo/cts/src/cbc_cs3.rs ----------
#[verifier::reject_recursive_types(BS)]
pub struct Closure<'a, BS: BlockSizes> {
    pub iv: Array<u8, BS>,
    pub buf: InOutBuf<'a, 'a, u8>,
}

impl<BS: BlockSizes> BlockSizeUser for Closure<'_, BS> {
    type BlockSize = BS;
}

impl<BS: BlockSizes> BlockCipherEncClosure for Closure<'_, BS> {
    open spec fn pre(&self) -> bool { self.buf.wf() && self.buf.out_cur().len() >= BS::USIZE }

    #[verifier::loop_isolation(false)]
    fn call<B: EncInplace<BlockSize = BS>>(self, cipher: &B)
        ensures
            self.buf.out_cur().len() == BS::USIZE ==>
                self.buf.out_fut() == cipher.enc(xor_seq(self.buf.in_val(), self.iv@)),
    {
        proof { BS::block_size_bounds(); }
        broadcast use Array::axiom_len;
        let ghost buf0 = self.buf;
        let ghost iv0 = self.iv@;
        let Self { mut iv, mut buf } = self;
        let (mut blocks, mut tail) = buf.reborrow().into_chunks();
        let ghost ins = blocks.in_val();
        let ghost bl = BS::USIZE as int;
        let ghost ll = buf0.out_cur().len() as int;
        assert(blocks.out_cur().len() >= 1) by (nonlinear_arith)
            requires blocks.out_cur().len() == ll / bl, ll >= bl, bl > 0;
        assert(ll == bl ==> ll / bl == 1 && ll % bl == 0) by (nonlinear_arith) requires bl > 0;

        cbc_enc(cipher, &mut iv, blocks.reborrow());

        if tail.is_empty() {
            if blocks.len() > 1 {
                let blocks = blocks.get_out();
                let (last, rest) = blocks.split_last_mut().unwrap();
                let (penultimate, _) = rest.split_last_mut().unwrap();
                core::mem::swap(penultimate, last);
            }
        } else {
            let mut block = Block::<B>::default();
            block[..tail.len()].copy_from_slice(tail.get_in());
            xor(&mut block, &iv);
            cipher.encrypt_block_inplace(&mut block);

            let penult_block = blocks.get_out().last_mut().unwrap();
            let val = core::mem::replace(penult_block, block);

            let tail_val = &val[..tail.len()];
            tail.get_out().copy_from_slice(tail_val);
        }
        proof {
            if ll == bl {
                assert(ins.len() == 1);
                assert(cbc_c(cipher, iv0, ins, 0) == cipher.enc(xor_seq(ins[0]@, cbc_c(cipher, iv0, ins, -1))));
                flat_one(ins);
                assert(flat(ins) =~= ins[0]@);
                assert(ins[0]@ =~= buf0.in_val());
                flat_one(blocks.out_cur());
                assert(flat(blocks.out_cur()) =~= blocks.out_cur()[0]@);
                assert(buf.out_cur() =~= blocks.out_cur()[0]@);
            }
        }
    }
}

} // verus!
fn main() {}
