use aes::Aes128;
use cts::{Decrypt, Encrypt, cipher::{InnerIvInit, KeyInit, crypto_common::InnerInit, BlockCipherEncrypt}};

#[test]
fn probe_one_block() {
    let key = [0x42u8; 16]; let iv = [0x24u8; 16];
    let cipher = Aes128::new(&key.into());
    let msg: [u8; 16] = core::array::from_fn(|i| i as u8);
    // plain CBC of one block
    let mut x = msg; for i in 0..16 { x[i] ^= iv[i]; }
    let mut blk = x.into(); cipher.encrypt_block(&mut blk);
    let cbc: [u8;16] = blk.into();
    let mut e = msg.into(); cipher.encrypt_block(&mut e); let ecb: [u8;16] = e.into();
    let mut b = msg; cts::CbcCs1::inner_iv_init(&cipher, &iv.into()).encrypt(&mut b).unwrap(); println!("cbc cs1 plain? {}", b==cbc);
    let mut b = msg; cts::CbcCs2::inner_iv_init(&cipher, &iv.into()).encrypt(&mut b).unwrap(); println!("cbc cs2 plain? {}", b==cbc);
    let mut b = msg; cts::CbcCs3::inner_iv_init(&cipher, &iv.into()).encrypt(&mut b).unwrap(); println!("cbc cs3 plain? {}", b==cbc);
    let mut b = msg; cts::EcbCs1::inner_init(&cipher).encrypt(&mut b).unwrap(); println!("ecb cs1 plain? {}", b==ecb);
    let mut b = msg; cts::EcbCs2::inner_init(&cipher).encrypt(&mut b).unwrap(); println!("ecb cs2 plain? {}", b==ecb);
    let mut b = msg; cts::EcbCs3::inner_init(&cipher).encrypt(&mut b).unwrap(); println!("ecb cs3 plain? {}", b==ecb);
    let _ = cts::CbcCs3::inner_iv_init(&cipher, &iv.into()).decrypt(&mut b);
}
