use vstd::prelude::*;
use core::marker::PhantomData;
use core::ops::{Index, IndexMut};
verus! {

// ---------- shim: typenum / hybrid-array ----------
pub trait Unsigned { const USIZE: usize; }
pub trait ArraySize: Unsigned + Sized {}
pub trait BlockSizes: ArraySize {
    proof fn block_size_bounds() ensures 1 <= Self::USIZE <= 255;
}

#[verifier::external_body]
#[verifier::accept_recursive_types(T)]
#[verifier::accept_recursive_types(U)]
pub struct Array<T, U: ArraySize> { v: Vec<T>, _p: PhantomData<U> }

impl<T, U: ArraySize> Array<T, U> {
    pub uninterp spec fn view(&self) -> Seq<T>;

    #[verifier::external_body]
    pub broadcast proof fn axiom_len(&self)
        ensures #[trigger] self@.len() == U::USIZE
    {}

    #[verifier::external_body]
    pub fn len(&self) -> (r: usize) ensures r == U::USIZE { unimplemented!() }
}

impl<T: Clone, U: ArraySize> Clone for Array<T, U> {
    #[verifier::external_body]
    fn clone(&self) -> (r: Self) ensures r@ == self@ { unimplemented!() }
}

impl<T, U: ArraySize> vstd::std_specs::core::IndexSpecImpl<usize> for Array<T, U> {
    open spec fn index_req(&self, i: &usize) -> bool { *i < U::USIZE }
}
impl<T, U: ArraySize> Index<usize> for Array<T, U> {
    type Output = T;
    #[verifier::external_body]
    fn index(&self, i: usize) -> (r: &T) ensures *r == self@[i as int] { unimplemented!() }
}
impl<T, U: ArraySize> IndexMut<usize> for Array<T, U> {
    #[verifier::external_body]
    fn index_mut(&mut self, i: usize) -> (r: &mut T)
        ensures *r == old(self)@[i as int],
                final(self)@ == old(self)@.update(i as int, *final(r))
    { unimplemented!() }
}

impl<T, U: ArraySize> core::ops::Deref for Array<T, U> { type Target = [T];
    #[verifier::external_body]
    fn deref(&self) -> (r: &[T]) ensures r@ == self@ { &self.v } }
#[verifier::external]
impl<T, U: ArraySize> core::ops::DerefMut for Array<T, U> { fn deref_mut(&mut self) -> &mut [T] { &mut self.v } }
#[verifier::external]
impl<'a, T, U: ArraySize> IntoIterator for &'a Array<T, U> { type Item = &'a T; type IntoIter = core::slice::Iter<'a, T>; fn into_iter(self) -> Self::IntoIter { self.v.iter() } }

impl<T, U: ArraySize> vstd::std_specs::core::IndexSpecImpl<core::ops::RangeTo<usize>> for Array<T, U> {
    open spec fn index_req(&self, r: &core::ops::RangeTo<usize>) -> bool { r.end <= U::USIZE }
}
impl<T, U: ArraySize> Index<core::ops::RangeTo<usize>> for Array<T, U> {
    type Output = [T];
    #[verifier::external_body]
    fn index(&self, r: core::ops::RangeTo<usize>) -> (o: &[T]) ensures o@ == self@.take(r.end as int) { unimplemented!() }
}
impl<T, U: ArraySize> IndexMut<core::ops::RangeTo<usize>> for Array<T, U> {
    #[verifier::external_body]
    fn index_mut(&mut self, r: core::ops::RangeTo<usize>) -> (o: &mut [T])
        ensures o@ == old(self)@.take(r.end as int),
                final(o)@.len() == o@.len(),
                final(self)@ == final(o)@ + old(self)@.skip(r.end as int)
    { unimplemented!() }
}

impl<T, U: ArraySize> vstd::std_specs::core::IndexSpecImpl<core::ops::RangeFrom<usize>> for Array<T, U> {
    open spec fn index_req(&self, r: &core::ops::RangeFrom<usize>) -> bool { r.start <= U::USIZE }
}
impl<T, U: ArraySize> Index<core::ops::RangeFrom<usize>> for Array<T, U> {
    type Output = [T];
    #[verifier::external_body]
    fn index(&self, r: core::ops::RangeFrom<usize>) -> (o: &[T]) ensures o@ == self@.skip(r.start as int) { unimplemented!() }
}
impl<T, U: ArraySize> IndexMut<core::ops::RangeFrom<usize>> for Array<T, U> {
    #[verifier::external_body]
    fn index_mut(&mut self, r: core::ops::RangeFrom<usize>) -> (o: &mut [T])
        ensures o@ == old(self)@.skip(r.start as int),
                final(o)@.len() == o@.len(),
                final(self)@ == old(self)@.take(r.start as int) + final(o)@
    { unimplemented!() }
}

pub uninterp spec fn zero_of<T>() -> T;
impl<T, U: ArraySize> Default for Array<T, U> {
    #[verifier::external_body]
    fn default() -> (r: Self) ensures forall |i: int| 0 <= i < U::USIZE ==> #[trigger] r@[i] == zero_of::<T>() { unimplemented!() }
}
#[verifier::external_type_specification]
#[verifier::external_body]
pub struct ExTryFromSliceError(core::array::TryFromSliceError);
pub struct U4;
impl Unsigned for U4 { #[verifier::external_body] const USIZE: usize = 4; }
#[verifier::external_body]
pub broadcast proof fn axiom_u4() ensures #[trigger] U4::USIZE == 4 {}
impl ArraySize for U4 {}
pub trait PartialDiv<Rhs: Unsigned>: Unsigned { 
    type Output: ArraySize;
    proof fn partial_div_exact() ensures Self::Output::USIZE * Rhs::USIZE == Self::USIZE;
}
pub type PartialQuot<A, B> = <A as PartialDiv<B>>::Output;

pub open spec fn be32(x: u32) -> Seq<u8> {
    seq![(x >> 24) as u8, (x >> 16) as u8, (x >> 8) as u8, x as u8]
}
pub uninterp spec fn ne32(x: u32) -> Seq<u8>;
pub trait ShimBytes32: Sized { fn shim_to_be_bytes(self) -> [u8; 4]; fn shim_to_ne_bytes(self) -> [u8; 4]; }
impl ShimBytes32 for u32 {
    #[verifier::external_body]
    fn shim_to_be_bytes(self) -> (r: [u8; 4]) ensures r@ == be32(self) { self.to_be_bytes() }
    #[verifier::external_body]
    fn shim_to_ne_bytes(self) -> (r: [u8; 4]) ensures r@ == ne32(self) { self.to_ne_bytes() }
}
#[verifier::external_body]
pub fn shim_u32_from_be_bytes(b: [u8; 4]) -> (r: u32) ensures be32(r) == b@ { u32::from_be_bytes(b) }
#[verifier::external_body]
pub fn shim_u32_from_ne_bytes(b: [u8; 4]) -> (r: u32) ensures ne32(r) == b@ { u32::from_ne_bytes(b) }

// ---------- extracted from /repo/ctr/src/flavors.rs ----------
pub trait CtrFlavor<B: ArraySize> {
    type CtrNonce: Clone;
    type Backend;
    const NAME: &'static str;
    fn remaining(cn: &Self::CtrNonce) -> Option<usize>;
    fn next_block(cn: &mut Self::CtrNonce) -> Array<u8, B>;
    spec fn spec_word(cn: &Self::CtrNonce, k: int) -> Seq<u8>;
    spec fn spec_words(cn: &Self::CtrNonce) -> nat;
    fn current_block(cn: &Self::CtrNonce) -> (block: Array<u8, B>)
        ensures forall |k: int| 0 <= k < Self::spec_words(cn) ==>
            #[trigger] block@.subrange(4 * k, 4 * k + 4) == Self::spec_word(cn, k);
    fn from_nonce(block: &Array<u8, B>) -> Self::CtrNonce;
    fn set_from_backend(cn: &mut Self::CtrNonce, v: Self::Backend);
    fn as_backend(cn: &Self::CtrNonce) -> Self::Backend;
}

pub open spec fn word_bytes_be32(cn_ctr: u32, nonce: Seq<u32>, i: int) -> Seq<u8> {
    if i == nonce.len() - 1 { be32(cn_ctr.wrapping_add(nonce[i])) } else { ne32(nonce[i]) }
}
#[verifier::external_body]
pub broadcast proof fn axiom_be32_len(x: u32) ensures #[trigger] be32(x).len() == 4 {}
#[verifier::external_body]
pub broadcast proof fn axiom_ne32_len(x: u32) ensures #[trigger] ne32(x).len() == 4 {}

// ---------- extracted from /repo/ctr/src/flavors/ctr32.rs ----------
type ChunkSize = U4;
type Chunks<B> = PartialQuot<B, ChunkSize>;
const CS: usize = ChunkSize::USIZE;

pub struct CtrNonce32<N: ArraySize> {
    pub ctr: u32,
    pub nonce: Array<u32, N>,
}
impl<N: ArraySize> Clone for CtrNonce32<N> {
    #[verifier::external_body]
    fn clone(&self) -> (r: Self) ensures r == *self { unimplemented!() }
}

#[verifier::external_body]
pub struct Ctr32BE;

impl<B> CtrFlavor<B> for Ctr32BE
where
    B: ArraySize + PartialDiv<ChunkSize>,
    Chunks<B>: ArraySize,
{
    type CtrNonce = CtrNonce32<Chunks<B>>;
    type Backend = u32;
    const NAME: &'static str = "32BE";

    #[inline]
    fn remaining(cn: &Self::CtrNonce) -> Option<usize> {
        (u32::MAX - cn.ctr).try_into().ok()
    }

    #[inline(always)]
    open spec fn spec_word(cn: &Self::CtrNonce, k: int) -> Seq<u8> { word_bytes_be32(cn.ctr, cn.nonce@, k) }
    open spec fn spec_words(cn: &Self::CtrNonce) -> nat { Chunks::<B>::USIZE as nat }

    fn current_block(cn: &Self::CtrNonce) -> Array<u8, B>
    {
        broadcast use Array::axiom_len, axiom_u4, axiom_be32_len, axiom_ne32_len;
        proof { <B as PartialDiv<ChunkSize>>::partial_div_exact(); }
        let mut block = Array::<u8, B>::default();
        for i in 0..Chunks::<B>::USIZE
            invariant
                Chunks::<B>::USIZE * 4 == B::USIZE, CS == 4,
                block@.len() == B::USIZE, cn.nonce@.len() == Chunks::<B>::USIZE,
                forall |k: int| 0 <= k < i ==>
                    #[trigger] block@.subrange(4 * k, 4 * k + 4) == word_bytes_be32(cn.ctr, cn.nonce@, k),
        {
            let t = if i == Chunks::<B>::USIZE - 1 {
                cn.ctr.wrapping_add(cn.nonce[i]).shim_to_be_bytes()
            } else {
                cn.nonce[i].shim_to_ne_bytes()
            };
            let ghost b0 = block@;
            block[CS * i..][..CS].copy_from_slice(&t);
            proof {
                assert(block@ =~= b0.take(4 * i as int) + (t@ + b0.skip(4 * i as int).skip(4)));
                assert(block@.subrange(4 * i as int, 4 * i as int + 4) =~= t@);
                assert forall |k: int| 0 <= k < i implies
                    #[trigger] block@.subrange(4 * k, 4 * k + 4) == word_bytes_be32(cn.ctr, cn.nonce@, k) by {
                    assert(block@.subrange(4 * k, 4 * k + 4) =~= b0.subrange(4 * k, 4 * k + 4));
                }
            }
        }
        block
    }

    #[inline]
    fn next_block(cn: &mut Self::CtrNonce) -> Array<u8, B> {
        let block = Self::current_block(cn);
        cn.ctr = cn.ctr.wrapping_add(1);
        block
    }

    #[inline]
    fn from_nonce(block: &Array<u8, B>) -> Self::CtrNonce {
        let mut nonce = Array::<u32, Chunks<B>>::default();
        for i in 0..Chunks::<B>::USIZE {
            let chunk = block[CS * i..][..CS].try_into().unwrap();
            nonce[i] = if i == Chunks::<B>::USIZE - 1 {
                shim_u32_from_be_bytes(chunk)
            } else {
                shim_u32_from_ne_bytes(chunk)
            }
        }
        let ctr = 0;
        Self::CtrNonce { ctr, nonce }
    }

    #[inline]
    fn as_backend(cn: &Self::CtrNonce) -> Self::Backend {
        cn.ctr
    }

    #[inline]
    fn set_from_backend(cn: &mut Self::CtrNonce, v: Self::Backend) {
        cn.ctr = v;
    }
}

} // verus!
fn main() {}
