use vstd::prelude::*;
use core::marker::PhantomData;
use core::ops::{Index, IndexMut};
verus! {

// ---------- shim: typenum / hybrid-array ----------
pub trait Unsigned { const USIZE: usize; }
pub trait ArraySize: Unsigned + Sized {}
pub trait BlockSizes: ArraySize {
    proof fn block_size_bounds() ensures 1 <= Self::USIZE <= 255;
}

#[verifier::external_body]
#[verifier::accept_recursive_types(T)]
#[verifier::accept_recursive_types(U)]
pub struct Array<T, U: ArraySize> { v: Vec<T>, _p: PhantomData<U> }

impl<T, U: ArraySize> Array<T, U> {
    pub uninterp spec fn view(&self) -> Seq<T>;

    #[verifier::external_body]
    pub broadcast proof fn axiom_len(&self)
        ensures #[trigger] self@.len() == U::USIZE
    {}

    #[verifier::external_body]
    pub fn len(&self) -> (r: usize) ensures r == U::USIZE { unimplemented!() }
}

impl<T: Clone, U: ArraySize> Clone for Array<T, U> {
    #[verifier::external_body]
    fn clone(&self) -> (r: Self) ensures r@ == self@ { unimplemented!() }
}

impl<T, U: ArraySize> vstd::std_specs::core::IndexSpecImpl<usize> for Array<T, U> {
    open spec fn index_req(&self, i: &usize) -> bool { *i < U::USIZE }
}
impl<T, U: ArraySize> Index<usize> for Array<T, U> {
    type Output = T;
    #[verifier::external_body]
    fn index(&self, i: usize) -> (r: &T) ensures *r == self@[i as int] { unimplemented!() }
}
impl<T, U: ArraySize> IndexMut<usize> for Array<T, U> {
    #[verifier::external_body]
    fn index_mut(&mut self, i: usize) -> (r: &mut T)
        ensures *r == old(self)@[i as int],
                final(self)@ == old(self)@.update(i as int, *final(r))
    { unimplemented!() }
}

#[verifier::external]
impl<T, U: ArraySize> core::ops::Deref for Array<T, U> { type Target = [T]; fn deref(&self) -> &[T] { &self.v } }
#[verifier::external]
impl<T, U: ArraySize> core::ops::DerefMut for Array<T, U> { fn deref_mut(&mut self) -> &mut [T] { &mut self.v } }
#[verifier::external]
impl<'a, T, U: ArraySize> IntoIterator for &'a Array<T, U> { type Item = &'a T; type IntoIter = core::slice::Iter<'a, T>; fn into_iter(self) -> Self::IntoIter { self.v.iter() } }

// ---------- shim: Array::iter_mut ----------
#[verifier::external_body]
#[verifier::accept_recursive_types(T)]
pub struct ArrIterMut<'a, T> { it: core::slice::IterMut<'a, T> }
pub uninterp spec fn aim_remaining<'a, T>(it: &ArrIterMut<'a, T>) -> Seq<&'a mut T>;
impl<'a, T> vstd::std_specs::iter::IteratorSpecImpl for ArrIterMut<'a, T> {
    open spec fn obeys_prophetic_iter_laws(&self) -> bool { true }
    open spec fn remaining(&self) -> Seq<&'a mut T> { aim_remaining(self) }
    open spec fn will_return_none(&self) -> bool { true }
    open spec fn decrease(&self) -> Option<nat> { Some(aim_remaining(self).len()) }
    open spec fn peek(&self, i: int) -> Option<&'a mut T> {
        if 0 <= i < aim_remaining(self).len() { Some(aim_remaining(self)[i]) } else { None }
    }
}
impl<'a, T> Iterator for ArrIterMut<'a, T> {
    type Item = &'a mut T;
    #[verifier::external_body]
    fn next(&mut self) -> (r: Option<&'a mut T>) { unimplemented!() }
}
#[verifier::prophetic]
pub open spec fn fut_of<T>(r: &mut T) -> T { mut_ref_future(r) }
impl<T, U: ArraySize> Array<T, U> {
    #[verifier::external_body]
    pub fn iter_mut<'a>(&'a mut self) -> (r: ArrIterMut<'a, T>)
        ensures
            aim_remaining(&r).len() == U::USIZE,
            final(self)@.len() == U::USIZE,
            forall |i: int| #![trigger aim_remaining(&r)[i]] #![trigger final(self)@[i]] 0 <= i < U::USIZE ==> {
                &&& *aim_remaining(&r)[i] == old(self)@[i]
                &&& fut_of(aim_remaining(&r)[i]) == final(self)@[i]
            },
    { unimplemented!() }
}
pub struct U16;
impl Unsigned for U16 { #[verifier::external_body] const USIZE: usize = 16; }
impl ArraySize for U16 {}
impl BlockSizes for U16 { proof fn block_size_bounds() { broadcast use axiom_u16; } }
#[verifier::external_body]
pub broadcast proof fn axiom_u16() ensures #[trigger] U16::USIZE == 16 {}
pub uninterp spec fn le128(x: u128) -> Seq<u8>;
pub trait ShimBytes128: Sized { fn shim_to_le_bytes(self) -> [u8; 16]; }
impl ShimBytes128 for u128 {
    #[verifier::external_body]
    fn shim_to_le_bytes(self) -> (r: [u8; 16]) ensures r@ == le128(self) { self.to_le_bytes() }
}
impl From<[u8; 16]> for Array<u8, U16> {
    #[verifier::external_body]
    fn from(x: [u8; 16]) -> (r: Self) ensures r@ == x@ { unimplemented!() }
}
pub trait StreamCipherBackend: ParBlocksSizeUser {
    fn gen_ks_block(&mut self, block: &mut Block<Self>);
    fn gen_par_ks_blocks(&mut self, blocks: &mut ParBlocks<Self>);
}

// ---------- shim: inout ----------
pub struct InOut<'inp, 'out, T> { pub inp: &'inp T, pub out: &'out mut T, pub aliased: Ghost<bool> }

impl<'inp, 'out, T> InOut<'inp, 'out, T> {
    pub open spec fn in_val(&self) -> T { if self.aliased@ { *self.out } else { *self.inp } }

    #[verifier::external_body]
    pub fn get_in(&self) -> (r: &T) ensures *r == self.in_val() { unimplemented!() }

    #[verifier::external_body]
    pub fn get_out(&mut self) -> (r: &mut T)
        ensures *r == *old(self).out,
                *final(self).out == *final(r),
                mut_ref_future(final(self).out) == mut_ref_future(old(self).out),
                final(self).inp == old(self).inp,
                final(self).aliased == old(self).aliased,
    { unimplemented!() }
}
impl<'inp, 'out, T: Clone> InOut<'inp, 'out, T> {
    #[verifier::external_body]
    pub fn clone_in(&self) -> (r: T) ensures r == self.in_val() { unimplemented!() }
}
impl<'a, T> From<&'a mut T> for InOut<'a, 'a, T> {
    #[verifier::external_body]
    fn from(x: &'a mut T) -> (r: Self) ensures r.aliased@, r.out == x { unimplemented!() }
}

impl<'inp, 'out, T> From<(&'inp T, &'out mut T)> for InOut<'inp, 'out, T> {
    #[verifier::external_body]
    fn from(x: (&'inp T, &'out mut T)) -> (r: Self) ensures !r.aliased@, r.inp == x.0, r.out == x.1 { unimplemented!() }
}
impl<'inp, 'out, T, N: ArraySize> InOut<'inp, 'out, Array<T, N>> {
    #[verifier::external_body]
    pub fn get<'a>(&'a mut self, pos: usize) -> (r: InOut<'a, 'a, T>)
        requires pos < N::USIZE
        ensures
            r.in_val() == old(self).in_val()@[pos as int],
            *r.out == old(self).out@[pos as int],
            r.aliased == old(self).aliased,
            final(self).out@ == old(self).out@.update(pos as int, mut_ref_future(r.out)),
            mut_ref_future(final(self).out) == mut_ref_future(old(self).out),
            final(self).inp == old(self).inp,
            final(self).aliased == old(self).aliased,
    { unimplemented!() }
}
impl<'inp, 'out, N: ArraySize> InOut<'inp, 'out, Array<u8, N>> {
    #[verifier::external_body]
    pub fn xor_in2out(&mut self, data: &Array<u8, N>)
        ensures
            final(self).out@ == xor_seq(old(self).in_val()@, data@),
            mut_ref_future(final(self).out) == mut_ref_future(old(self).out),
            final(self).inp == old(self).inp,
            final(self).aliased == old(self).aliased,
    { unimplemented!() }
}
pub uninterp spec fn zero_of<T>() -> T;
impl<T, U: ArraySize> Default for Array<T, U> {
    #[verifier::external_body]
    fn default() -> (r: Self) ensures forall |i: int| 0 <= i < U::USIZE ==> #[trigger] r@[i] == zero_of::<T>() { unimplemented!() }
}

// ---------- shim: crypto-common / cipher ----------
pub trait BlockSizeUser { type BlockSize: BlockSizes; }
pub trait ParBlocksSizeUser: BlockSizeUser { type ParBlocksSize: ArraySize; }
pub type Block<B> = Array<u8, <B as BlockSizeUser>::BlockSize>;
pub type ParBlocks<B> = Array<Block<B>, <B as ParBlocksSizeUser>::ParBlocksSize>;

pub trait BlockCipherDecBackend: ParBlocksSizeUser + Sized {
    spec fn dec(&self, x: Seq<u8>) -> Seq<u8>;

    fn decrypt_block(&self, block: InOut<'_, '_, Block<Self>>)
        ensures mut_ref_future(block.out)@ == self.dec(block.in_val()@);

    fn decrypt_par_blocks(&self, blocks: InOut<'_, '_, ParBlocks<Self>>)
        ensures forall |i: int| 0 <= i < Self::ParBlocksSize::USIZE ==>
            (#[trigger] mut_ref_future(blocks.out)@[i])@ == self.dec(blocks.in_val()@[i]@);
}

pub trait BlockCipherEncBackend: ParBlocksSizeUser + Sized {
    spec fn enc(&self, x: Seq<u8>) -> Seq<u8>;

    fn encrypt_block(&self, block: InOut<'_, '_, Block<Self>>)
        ensures mut_ref_future(block.out)@ == self.enc(block.in_val()@);

    fn encrypt_par_blocks(&self, blocks: InOut<'_, '_, ParBlocks<Self>>)
        ensures forall |i: int| 0 <= i < Self::ParBlocksSize::USIZE ==>
            (#[trigger] mut_ref_future(blocks.out)@[i])@ == self.enc(blocks.in_val()@[i]@);
}

pub trait BlockModeDecBackend: ParBlocksSizeUser {
    fn decrypt_block(&mut self, block: InOut<'_, '_, Block<Self>>);
    fn decrypt_par_blocks(&mut self, blocks: InOut<'_, '_, ParBlocks<Self>>)
        requires Self::ParBlocksSize::USIZE > 1;
}

pub open spec fn xor_seq(a: Seq<u8>, b: Seq<u8>) -> Seq<u8> {
    Seq::new(a.len(), |i: int| a[i] ^ b[i])
}



// ---------- extracted from /repo/belt-ctr/src/lib.rs ----------
#[verifier::reject_recursive_types(B)]
pub struct Backend<'a, B: BlockCipherEncBackend<BlockSize = U16>> {
    pub s: &'a mut u128,
    pub cipher_backend: &'a B,
}

impl<B: BlockCipherEncBackend<BlockSize = U16>> BlockSizeUser for Backend<'_, B> {
    type BlockSize = B::BlockSize;
}

impl<B: BlockCipherEncBackend<BlockSize = U16>> ParBlocksSizeUser for Backend<'_, B> {
    type ParBlocksSize = B::ParBlocksSize;
}

impl<B: BlockCipherEncBackend<BlockSize = U16>> StreamCipherBackend for Backend<'_, B> {
    #[inline(always)]
    fn gen_ks_block(&mut self, block: &mut Block<Self>)
        ensures
            *final(self).s == old(self).s.wrapping_add(1),
            final(block)@ == old(self).cipher_backend.enc(le128(old(self).s.wrapping_add(1))),
            mut_ref_future(final(self).s) == mut_ref_future(old(self).s),
            final(self).cipher_backend == old(self).cipher_backend,
    {
        *self.s = self.s.wrapping_add(1);
        let tmp = self.s.shim_to_le_bytes().into();
        self.cipher_backend.encrypt_block((&tmp, block).into());
    }

    #[inline(always)]
    fn gen_par_ks_blocks(&mut self, blocks: &mut ParBlocks<Self>) {
        let mut tmp = ParBlocks::<Self>::default();
        let mut s = *self.s;
        for block in tmp.iter_mut() {
            s = s.wrapping_add(1);
            *block = s.shim_to_le_bytes().into();
        }
        *self.s = s;
        let io_blocks = InOut::from((&tmp, blocks));
        self.cipher_backend.encrypt_par_blocks(io_blocks);
    }
}

} // verus!
fn main() {}
