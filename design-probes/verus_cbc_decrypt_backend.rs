use vstd::prelude::*;
use core::marker::PhantomData;
use core::ops::{Index, IndexMut};
verus! {

// ---------- shim: typenum / hybrid-array ----------
pub trait Unsigned { const USIZE: usize; }
pub trait ArraySize: Unsigned + Sized {}
pub trait BlockSizes: ArraySize {
    proof fn block_size_bounds() ensures 1 <= Self::USIZE <= 255;
}

#[verifier::external_body]
#[verifier::accept_recursive_types(T)]
#[verifier::accept_recursive_types(U)]
pub struct Array<T, U: ArraySize> { v: Vec<T>, _p: PhantomData<U> }

impl<T, U: ArraySize> Array<T, U> {
    pub uninterp spec fn view(&self) -> Seq<T>;

    #[verifier::external_body]
    pub broadcast proof fn axiom_len(&self)
        ensures #[trigger] self@.len() == U::USIZE
    {}

    #[verifier::external_body]
    pub fn len(&self) -> (r: usize) ensures r == U::USIZE { unimplemented!() }
}

impl<T: Clone, U: ArraySize> Clone for Array<T, U> {
    #[verifier::external_body]
    fn clone(&self) -> (r: Self) ensures r@ == self@ { unimplemented!() }
}

impl<T, U: ArraySize> vstd::std_specs::core::IndexSpecImpl<usize> for Array<T, U> {
    open spec fn index_req(&self, i: &usize) -> bool { *i < U::USIZE }
}
impl<T, U: ArraySize> Index<usize> for Array<T, U> {
    type Output = T;
    #[verifier::external_body]
    fn index(&self, i: usize) -> (r: &T) ensures *r == self@[i as int] { unimplemented!() }
}
impl<T, U: ArraySize> IndexMut<usize> for Array<T, U> {
    #[verifier::external_body]
    fn index_mut(&mut self, i: usize) -> (r: &mut T)
        ensures *r == old(self)@[i as int],
                final(self)@ == old(self)@.update(i as int, *final(r))
    { unimplemented!() }
}

#[verifier::external]
impl<T, U: ArraySize> core::ops::Deref for Array<T, U> { type Target = [T]; fn deref(&self) -> &[T] { &self.v } }
#[verifier::external]
impl<T, U: ArraySize> core::ops::DerefMut for Array<T, U> { fn deref_mut(&mut self) -> &mut [T] { &mut self.v } }
#[verifier::external]
impl<'a, T, U: ArraySize> IntoIterator for &'a Array<T, U> { type Item = &'a T; type IntoIter = core::slice::Iter<'a, T>; fn into_iter(self) -> Self::IntoIter { self.v.iter() } }

// ---------- shim: inout ----------
pub struct InOut<'inp, 'out, T> { pub inp: &'inp T, pub out: &'out mut T, pub aliased: Ghost<bool> }

impl<'inp, 'out, T> InOut<'inp, 'out, T> {
    pub open spec fn in_val(&self) -> T { if self.aliased@ { *self.out } else { *self.inp } }

    #[verifier::external_body]
    pub fn get_in(&self) -> (r: &T) ensures *r == self.in_val() { unimplemented!() }

    #[verifier::external_body]
    pub fn get_out(&mut self) -> (r: &mut T)
        ensures *r == *old(self).out,
                *final(self).out == *final(r),
                mut_ref_future(final(self).out) == mut_ref_future(old(self).out),
                final(self).inp == old(self).inp,
                final(self).aliased == old(self).aliased,
    { unimplemented!() }
}
impl<'inp, 'out, T: Clone> InOut<'inp, 'out, T> {
    #[verifier::external_body]
    pub fn clone_in(&self) -> (r: T) ensures r == self.in_val() { unimplemented!() }
}
impl<'a, T> From<&'a mut T> for InOut<'a, 'a, T> {
    #[verifier::external_body]
    fn from(x: &'a mut T) -> (r: Self) ensures r.aliased@, r.out == x { unimplemented!() }
}

// ---------- shim: crypto-common / cipher ----------
pub trait BlockSizeUser { type BlockSize: BlockSizes; }
pub trait ParBlocksSizeUser: BlockSizeUser { type ParBlocksSize: ArraySize; }
pub type Block<B> = Array<u8, <B as BlockSizeUser>::BlockSize>;
pub type ParBlocks<B> = Array<Block<B>, <B as ParBlocksSizeUser>::ParBlocksSize>;

pub trait BlockCipherDecBackend: ParBlocksSizeUser + Sized {
    spec fn dec(&self, x: Seq<u8>) -> Seq<u8>;

    fn decrypt_block(&self, block: InOut<'_, '_, Block<Self>>)
        ensures mut_ref_future(block.out)@ == self.dec(block.in_val()@);

    fn decrypt_par_blocks(&self, blocks: InOut<'_, '_, ParBlocks<Self>>)
        ensures forall |i: int| 0 <= i < Self::ParBlocksSize::USIZE ==>
            (#[trigger] mut_ref_future(blocks.out)@[i])@ == self.dec(blocks.in_val()@[i]@);
}

pub trait BlockModeDecBackend: ParBlocksSizeUser {
    fn decrypt_block(&mut self, block: InOut<'_, '_, Block<Self>>);
    fn decrypt_par_blocks(&mut self, blocks: InOut<'_, '_, ParBlocks<Self>>)
        requires Self::ParBlocksSize::USIZE > 1;
}

pub open spec fn xor_seq(a: Seq<u8>, b: Seq<u8>) -> Seq<u8> {
    Seq::new(a.len(), |i: int| a[i] ^ b[i])
}

// ---------- extracted from /repo/cbc/src/lib.rs (body external: iterator adapters) ----------
#[verifier::external_body]
fn xor<N: ArraySize>(out: &mut Array<u8, N>, buf: &Array<u8, N>)
    ensures final(out)@ == xor_seq(old(out)@, buf@)
{
    for (a, b) in out.iter_mut().zip(buf) {
        *a ^= *b;
    }
}

// ---------- extracted from /repo/cbc/src/decrypt.rs ----------
#[verifier::reject_recursive_types(BS)]
#[verifier::reject_recursive_types(BK)]
pub struct Backend<'a, BS, BK>
where
    BS: BlockSizes,
    BK: BlockCipherDecBackend<BlockSize = BS>,
{
    pub iv: &'a mut Array<u8, BS>,
    pub cipher_backend: &'a BK,
}

impl<BS, BK> BlockSizeUser for Backend<'_, BS, BK>
where
    BS: BlockSizes,
    BK: BlockCipherDecBackend<BlockSize = BS>,
{
    type BlockSize = BS;
}

impl<BS, BK> ParBlocksSizeUser for Backend<'_, BS, BK>
where
    BS: BlockSizes,
    BK: BlockCipherDecBackend<BlockSize = BS>,
{
    type ParBlocksSize = BK::ParBlocksSize;
}

impl<BS, BK> BlockModeDecBackend for Backend<'_, BS, BK>
where
    BS: BlockSizes,
    BK: BlockCipherDecBackend<BlockSize = BS>,
{
    #[inline(always)]
    fn decrypt_block(&mut self, mut block: InOut<'_, '_, Block<Self>>)
        ensures
            mut_ref_future(block.out)@ == xor_seq(old(self).cipher_backend.dec(block.in_val()@), old(self).iv@),
            final(self).iv@ == block.in_val()@,
            mut_ref_future(final(self).iv) == mut_ref_future(old(self).iv),
            final(self).cipher_backend == old(self).cipher_backend,
    {
        let in_block = block.clone_in();
        let mut t = block.clone_in();
        self.cipher_backend.decrypt_block((&mut t).into());
        xor(&mut t, self.iv);
        *block.get_out() = t;
        *self.iv = in_block;
    }

    #[inline(always)]
    fn decrypt_par_blocks(&mut self, mut blocks: InOut<'_, '_, ParBlocks<Self>>)
        ensures
            forall |i: int| 0 <= i < BK::ParBlocksSize::USIZE ==>
                (#[trigger] mut_ref_future(blocks.out)@[i])@ == xor_seq(
                    old(self).cipher_backend.dec(blocks.in_val()@[i]@),
                    if i == 0 { old(self).iv@ } else { blocks.in_val()@[i - 1]@ }),
            final(self).iv@ == blocks.in_val()@[BK::ParBlocksSize::USIZE - 1]@,
            mut_ref_future(final(self).iv) == mut_ref_future(old(self).iv),
            final(self).cipher_backend == old(self).cipher_backend,
    {
        broadcast use Array::axiom_len;
        let in_blocks = blocks.clone_in();
        let mut t = blocks.clone_in();

        self.cipher_backend.decrypt_par_blocks((&mut t).into());
        let n = t.len();
        let ghost t0 = t;
        xor(&mut t[0], self.iv);
        let ghost iv0 = self.iv@;
        for i in 1..n
            invariant
                n == BK::ParBlocksSize::USIZE, n > 1,
                t@.len() == n, in_blocks@.len() == n, t0@.len() == n,
                self.iv@ == iv0,
                mut_ref_future(self.iv) == mut_ref_future(old(self).iv),
                self.cipher_backend == old(self).cipher_backend,
                forall |j: int| 0 <= j < i ==> (#[trigger] t@[j])@ == xor_seq(t0@[j]@, if j == 0 { iv0 } else { in_blocks@[j - 1]@ }),
                forall |j: int| i <= j < n ==> t@[j] == t0@[j],
        {
            xor(&mut t[i], &in_blocks[i - 1])
        }
        *blocks.get_out() = t;
        *self.iv = in_blocks[n - 1].clone();
    }
}

} // verus!
fn main() {}
