#!/bin/sh
# offline setup: nothing to download; make sure the work dir exists and tools answer
cd "$(dirname "$0")" || exit 1
mkdir -p .work evidence
verus --version >/dev/null 2>&1 || { echo "verus not found"; exit 1; }
python3 -c "import vf.check" || exit 1
exit 0
