#!/bin/sh
# run every registered quick check on /repo; one summary line per property
cd "$(dirname "$0")/.."
for p in C01 C02 C03 C04 C05 C06 C07 C08 C09 C10 C11 C12 C13 C14 C15 C16 C17; do
  ./check $p --tier "${1:-quick}" > /tmp/check_all_$p.log 2>&1; rc=$?
  echo "$p exit=$rc $(grep -E '^(OK|VIOLATION|INFRA|UNDECIDED|KNOWN)' /tmp/check_all_$p.log | cut -c1-160 | tr '\n' '|')"
  rm -f /tmp/check_all_$p.log
done
