#!/usr/bin/env python3
"""Which functions of the repo crates are under contract, external_body (bounded stand-in) or not extracted at all."""
import sys, os, json
V = os.path.dirname(os.path.dirname(os.path.abspath(__file__)))
sys.path.insert(0, V)
from vf import unit as U, lexer, rustitems as R
from contracts import registry as REG
covered = {}
for name, fac in REG.load_units(sorted(set(u for us in REG.PROP_UNITS.values() for u in us))).items():
    g = U.build(fac())
    for f in g.functions:
        if f['file'].startswith('dep:'):
            continue
        covered.setdefault(f['file'], {})[f['line']] = f
tot = 0
miss = []
ext = []
nested = 0
for crate in ('belt-ctr', 'cbc', 'cfb-mode', 'cfb8', 'ctr', 'cts', 'ige', 'ofb', 'pcbc'):
    for root, ds, fs in os.walk('/repo/%s/src' % crate):
        for fn in sorted(fs):
            if not fn.endswith('.rs'):
                continue
            path = os.path.join(root, fn)
            rel = os.path.relpath(path, '/repo')
            toks, _ = lexer.lex(open(path).read())
            def walk(items, ctx=''):
                global tot
                for it in items:
                    if it.kind == 'fn':
                        tot += 1
                        line = toks[it.kw].line
                        c = covered.get(rel, {}).get(line)
                        if c is None:
                            miss.append('%s:%d %s :: %s' % (rel, line, ctx, it.name))
                        elif c['external_body']:
                            ext.append('%s:%d %s :: %s' % (rel, line, ctx, it.name))
                        if it.body:
                            # items nested in fn bodies (hoisted closures)
                            from vf.extract import nested_items_of_fn
                            walk(nested_items_of_fn(toks, it), ctx + '/' + it.name)
                    elif it.kind in ('impl', 'trait'):
                        walk(it.members, it.label())
                    elif it.kind == 'mod' and it.body:
                        walk(R.parse_items(toks, it.body[0] + 1, it.body[1]), ctx)
            walk(R.parse_items(toks, 0, len(toks)))
rep = {'functions_in_repo_src': tot, 'verified_by_verus': tot - len(miss) - len(ext), 'external_body_bounded': ext, 'not_extracted': miss}
json.dump(rep, open(os.path.join(V, 'evidence', 'coverage_report.json'), 'w'), indent=1)
print('functions in repo src: %d; Verus-verified bodies: %d; external_body (bounded stand-in): %d; not extracted: %d' % (tot, tot - len(miss) - len(ext), len(ext), len(miss)))
for m in ext: print('  external_body', m)
for m in miss: print('  not extracted', m)
