#!/usr/bin/env python3
"""Run the registered check of property P against every seeded mutant of P (scratch copy of /repo, never
/repo itself); writes seeded/_incoming/<P>/eval.json: exit code, VIOLATION / INFRA lines."""
import json, os, re, subprocess, sys, shutil, time
VERIF = os.path.dirname(os.path.dirname(os.path.abspath(__file__)))
import hashlib
# one scratch copy per checkout of /verif (a `vp run` snapshot evaluates concurrently with the working copy)
D = '/tmp/mrepo_alt' + ('' if VERIF == '/verif' else '_' + hashlib.sha1(VERIF.encode()).hexdigest()[:6])

def main():
    only = sys.argv[1:]
    inc = os.path.join(VERIF, 'seeded', os.environ.get('SEEDED_INC', '_incoming'))
    for P in sorted(os.listdir(inc)):
        if only and P not in only:
            continue
        d = os.path.join(inc, P)
        res = json.load(open(os.path.join(d, 'eval.json'))) if os.path.exists(os.path.join(d, 'eval.json')) else {}
        for i in (1, 2):
            diff = os.path.join(d, 'mutant%d.diff' % i)
            if not os.path.exists(diff):
                continue
            shutil.rmtree(D, ignore_errors=True)
            subprocess.check_call(['rsync', '-a', '--exclude', 'target', '--exclude', '.git', '/repo/', D + '/'])
            subprocess.call('find %s -name "*.rs" -exec touch {} +' % D, shell=True)
            ap = subprocess.run('patch -p1 -s < %s' % diff, shell=True, cwd=D)
            if ap.returncode != 0:
                res['mutant%d' % i] = {'status': 'patch-failed'}
                continue
            t0 = time.time()
            p = subprocess.run(['./check', P, '--tier', 'quick'], cwd=VERIF, env=dict(os.environ, VERIF_REPO=D),
                               stdout=subprocess.PIPE, stderr=subprocess.STDOUT, text=True)
            out = p.stdout
            vio = re.findall(r'^VIOLATION.*$', out, re.M)
            r = {'exit': p.returncode, 'wall_s': round(time.time() - t0, 1),
                 'violations': vio[:6], 'with_input': sum(1 for v in vio if 'no-failing-input-found' not in v),
                 'failed_obligations': re.findall(r'^  failed obligation: (.*)$', out, re.M)[:40],
                 'undecided': re.findall(r'^UNDECIDED[^:]*: (.*)$', out, re.M)[:10],
                 'infra': re.findall(r'^INFRA: (.*)$', out, re.M)[:3]}
            fo = r['failed_obligations']
            r['verus_failed'] = [f for f in fo if not f.startswith('harness::')]
            r['harness_failed'] = [f for f in fo if f.startswith('harness::')]
            r['verus_state'] = ('obligation failed' if r['verus_failed'] else
                                ('could not read the changed text (front end / unsupported construct): undecided' if r['infra'] else
                                 ('proof-internal failure only: undecided' if r['undecided'] else 'all obligations still discharged')))
            r['verdict'] = 'detected-with-input' if r['with_input'] else ('detected' if vio else ('undecided' if p.returncode == 2 else 'MISSED'))
            res['mutant%d' % i] = r
            print(P, i, r['verdict'], r['wall_s'], '| verus:', r['verus_state'][:40], (r['verus_failed'] or [''])[0][:70], '| harness:', (r['harness_failed'] or [''])[0][:50], flush=True)
            json.dump(res, open(os.path.join(d, 'eval.json'), 'w'), indent=1)
    shutil.rmtree(D, ignore_errors=True)

main()
