#!/usr/bin/env python3
"""Record the body hashes of the repo functions that are `external_body` in the contract files because their text
is outside this Verus' subset (contracts/outside_subset.json).  A function whose current text differs from the
recorded one is given to the verifier with its body (see vf/extract.py effective_fc)."""
import json, os, sys
os.environ['VERIF_RECORD_OUTSIDE'] = '1'
V = os.path.dirname(os.path.dirname(os.path.abspath(__file__)))
sys.path.insert(0, V)
from vf import unit as U
from contracts import registry as REG
out = {}
for name, fac in REG.load_units(sorted(set(u for us in REG.PROP_UNITS.values() for u in us))).items():
    g = U.build(fac())
    for f in g.functions:
        if f['external_body'] and f['has_body'] and 'dependency text' not in (f.get('note') or ''):
            out[f['id']] = f['body_sha256_16']
json.dump({'comment': 'body hashes (T-transformed tokens) of repo/dependency functions recorded as outside the verifier subset on the tree the contracts were written for',
           'functions': out}, open(os.path.join(V, 'contracts', 'outside_subset.json'), 'w'), indent=1, sort_keys=True)
print(len(out), 'functions recorded')
