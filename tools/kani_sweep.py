#!/usr/bin/env python3
"""Profile every harness under Kani, one process per harness with a memory cap and timeout; writes
kani/harness_profile.json (used to choose the harnesses of the quick / thorough tiers)."""
import json, os, re, subprocess, sys, time, concurrent.futures as cf, resource
sys.path.insert(0, os.path.dirname(os.path.dirname(os.path.abspath(__file__))))
from vf import kani as K
OUT = os.path.join(K.KSRC, 'harness_profile.json')
CAP_GB = int(os.environ.get('CAP_GB', '10'))
TIMEOUT = int(os.environ.get('TIMEOUT', '900'))

def limit():
    resource.setrlimit(resource.RLIMIT_AS, (CAP_GB << 30, CAP_GB << 30))

def one(mod, h):
    cmd = ['cargo', 'kani', '--output-format', 'terse', '--exact', '--harness', '%s::%s' % (mod, h)]
    t0 = time.time()
    try:
        p = subprocess.run(cmd, cwd=K.KWORK, env=K._env(), stdout=subprocess.PIPE, stderr=subprocess.STDOUT, text=True,
                           timeout=TIMEOUT, preexec_fn=limit)
        out = p.stdout
        st = 'pass' if 'VERIFICATION:- SUCCESSFUL' in out else ('fail' if 'VERIFICATION:- FAILED' in out else 'error')
        if st == 'error' and ('out of memory' in out.lower() or 'bad_alloc' in out or 'MemoryError' in out or 'No exit code' in out):
            st = 'memout'
    except subprocess.TimeoutExpired:
        out = ''
        st = 'timeout'
    m = re.search(r'Verification Time: ([0-9.]+)s', out)
    c = re.search(r'\*\* (\d+) of (\d+) failed', out)
    return h, {'status': st, 'seconds': float(m.group(1)) if m else None, 'wall_s': round(time.time() - t0, 1),
               'checks': int(c.group(2)) if c else None, 'cap_gb': CAP_GB, 'timeout_s': TIMEOUT,
               'tail': out[-300:] if st in ('error',) else ''}

def main():
    K.prepare()
    names = K.harness_names()
    only = sys.argv[1:]
    prof = json.load(open(OUT)) if os.path.exists(OUT) else {}
    todo = [(m, h) for m, h in names if (not only or any(h.startswith(o) for o in only)) and (only or h not in prof)]
    # warm the build once
    subprocess.run(['cargo', 'kani', '--only-codegen'], cwd=K.KWORK, env=K._env(), stdout=subprocess.DEVNULL, stderr=subprocess.DEVNULL)
    with cf.ThreadPoolExecutor(max_workers=int(os.environ.get('JOBS', '4'))) as ex:
        for h, r in ex.map(lambda mh: one(*mh), todo):
            prof[h] = r
            print(h, r['status'], r['seconds'], r['wall_s'], flush=True)
            json.dump(prof, open(OUT, 'w'), indent=1, sort_keys=True)

main()
