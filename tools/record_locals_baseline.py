#!/usr/bin/env python3
"""Record the ordered list of locals bound in the body of every function that carries proof annotations
(contracts/locals_baseline.json).  When a later tree binds the same number of locals under other names, the annotations
are renamed accordingly before splicing (vf/extract.py local_renames): a pure rename of locals does not break a proof."""
import json, os, sys
os.environ['VERIF_RECORD_OUTSIDE'] = '1'
V = os.path.dirname(os.path.dirname(os.path.abspath(__file__)))
sys.path.insert(0, V)
from vf import unit as U, extract as X
from contracts import registry as REG
out = {}
orig = X.splice_fn
def spy(em, toks, fn, fc, ctx, marks):
    if fc is not None and fn.body and (fc.stmts or fc.loops or getattr(fc, 'closures', None)):
        out[ctx] = X.fn_locals(toks, fn)
    return orig(em, toks, fn, fc, ctx, marks)
X.splice_fn = spy
for name, fac in REG.load_units(sorted(set(u for us in REG.PROP_UNITS.values() for u in us))).items():
    U.build(fac())
json.dump({'comment': 'locals bound in the bodies of the annotated functions on the tree the annotations were written for',
           'functions': out}, open(os.path.join(V, 'contracts', 'locals_baseline.json'), 'w'), indent=1, sort_keys=True)
print(len(out), 'annotated functions recorded')
