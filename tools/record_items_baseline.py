#!/usr/bin/env python3
"""Record, per verification unit, (a) the top-level items of the extracted source files that no contract selects and
(b) the derive lists of the selected types (T drops derive attributes).  A check compares the current tree with this
baseline: a NEW unselected item (e.g. a hand-written `impl Clone` replacing a derive) or a CHANGED derive list is
reported as undecided -- it is code the contracts do not see."""
import json, os, sys
V = os.path.dirname(os.path.dirname(os.path.abspath(__file__)))
sys.path.insert(0, V)
from vf import unit as U
from contracts import registry as REG
out = {}
for name, fac in REG.load_units(sorted(set(u for us in REG.PROP_UNITS.values() for u in us))).items():
    g = U.build(fac())
    out[name] = {'unclaimed': dict((f, v) for f, v in g.unclaimed.items() if not f.startswith('dep:')),
                 'derives': dict((k, v) for k, v in g.derives.items() if not k.startswith('dep:'))}
json.dump({'comment': 'items of the repo source files that are outside the contracts, and derive lists dropped by the extraction, on the tree the contracts were written for',
           'units': out}, open(os.path.join(V, 'contracts', 'items_baseline.json'), 'w'), indent=1, sort_keys=True)
for n, d in out.items():
    print(n, sum(len(v) for v in d['unclaimed'].values()), 'unclaimed items,', len(d['derives']), 'types with derive lists')
