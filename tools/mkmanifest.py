#!/usr/bin/env python3
"""regenerate MANIFEST.json from contracts/registry.py (claimed checks, not_applicable list)"""
import json, os, sys
sys.path.insert(0, os.path.dirname(os.path.dirname(os.path.abspath(__file__))))
from contracts import registry as REG
VERIF = os.path.dirname(os.path.dirname(os.path.abspath(__file__)))
props = [json.loads(l) for l in open(os.path.join(VERIF, 'properties.jsonl'))]
checks = []
na = []
for p in props:
    pid = p['id']
    if pid in REG.PROP_UNITS and pid in REG.LEVEL:
        lv = REG.LEVEL[pid]
        checks.append({
            'property_id': pid,
            'quick_cmd': './check %s --tier quick' % pid,
            'thorough_cmd': './check %s --tier thorough' % pid,
            'evidence_file': '/verif/evidence/%s.json' % pid,
            'replay_cmd_template': './check --replay {path}',
            'engine': 'verus+kani',
            'level_claimed': {'category': 'proof', 'text': lv['text'], 'design_ref': lv.get('design_ref', 'DESIGN.md section 4')},
            'level_note': lv['note'],
            'technique': lv.get('technique', 'contract-based deductive verification (Verus) of the mechanically extracted repo functions; Kani bounded stand-in for functions outside the Verus subset'),
        })
    else:
        na.append({'property_id': pid, 'reason': REG.NOT_APPLICABLE.get(pid, 'check under construction (build phase in progress); see DESIGN.md section 4')})
m = {
    'version': 1,
    'setup_cmd': './setup.sh',
    'hooks': {
        'guard': 'rustcrypto_block_modes_verif',
        'enable': 'no hooks in /repo are needed: Verus reads the source text of the working tree; Kani harnesses and the replay runner use the public API with harness-owned ciphers',
        'baseline_off_cmd': 'cd /repo && cargo test --workspace --no-fail-fast --offline',
        'source_commits': [],
        'add_only': True,
    },
    'engines': [
        {'name': 'verus', 'path': '/verif/vf', 'serves_properties': [c['property_id'] for c in checks],
         'kind_free_text': 'extractor + contract splicer + Verus runner (deductive, unbounded)'},
        {'name': 'kani', 'path': '/verif/kani', 'serves_properties': [c['property_id'] for c in checks],
         'kind_free_text': 'bounded stand-in for external_body repo functions, conformance of assumed driver contracts, counterexample search'},
    ],
    'checks': checks,
    'not_applicable': na,
    'notes': 'See DESIGN.md (Part I = as built) and README.md. exit 2 from a check means infrastructure problem or undecided proof, never a verdict. Known findings: known_findings.json (F1 fixed in /repo by fb523b2; F2, F3, F4 in the pinned cipher dependency: printed as KNOWN-FINDING lines by the C11, C17, C13 checks). Seeded changes and what each check reported against them: seeded/.',
}
json.dump(m, open(os.path.join(VERIF, 'MANIFEST.json'), 'w'), indent=1)
print('checks:', [c['property_id'] for c in checks], 'not_applicable:', [x['property_id'] for x in na])
