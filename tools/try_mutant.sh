#!/bin/sh
# tools/try_mutant.sh <patch.diff> <property> [tier] : run a check against a scratch copy of /repo with the patch applied
set -e
P=$(realpath "$1")
D=/tmp/mrepo_try
rm -rf $D && rsync -a --exclude target --exclude .git /repo/ $D/
find $D -name "*.rs" -exec touch {} +
(cd $D && patch -p1 -s < "$P") || { echo "patch failed"; rm -rf $D; exit 3; }
cd /verif
set +e
VERIF_REPO=$D ./check "$2" --tier "${3:-quick}" > /tmp/try_$$.log 2>&1
rc=$?
grep -E "^(VIOLATION|OK|INFRA|UNDECIDED|KNOWN|  failed obligation)" /tmp/try_$$.log | cut -c1-300
echo "exit=$rc"
rm -rf $D /tmp/try_$$.log
