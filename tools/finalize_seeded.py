#!/usr/bin/env python3
"""Turn the confirmed sub-agent deliveries in seeded/_incoming/<P>/ into the kept form seeded/<P>-m<i>/:
patch.diff, demo.rs (the demonstration test, with the path it is placed at), notes.md (the author's
description), meta.json (property, what it needs in order to manifest, what was run to confirm it, and what
the registered check of that property reported against it)."""
import json, os, re, shutil, sys
VERIF = os.path.dirname(os.path.dirname(os.path.abspath(__file__)))
INC = os.path.join(VERIF, 'seeded', os.environ.get('SEEDED_INC', '_incoming'))
import re as _re
_m = _re.search(r'(\d+)$', INC)
ROUND = ('r' + _m.group(1)) if _m else ''
NEED = re.compile(r'(?i)(what it needs|^\s*[*-]?\s*\**needs[,:]|^\s*needs,? (in order )?to manifest|needed to manifest)')
STOP = re.compile(r'^(#|\*\*[A-Z]|Commands|Verification|Demonstration|Demo\b|---|```)')


def needs_sections(text):
    lines = text.split('\n')
    out = []
    i = 0
    while i < len(lines):
        if NEED.search(lines[i]) and not lines[i].lstrip().startswith(('*  ', '- blocks')):
            buf = [lines[i]]
            j = i + 1
            blanks = 0
            while j < len(lines) and len(buf) < 16:
                l = lines[j]
                if not l.strip():
                    blanks += 1
                    if blanks >= 1 and len([b for b in buf if b.strip()]) >= 2:
                        break
                    j += 1
                    continue
                if STOP.match(l) and len(buf) > 1:
                    break
                buf.append(l)
                j += 1
            txt = ' '.join(b.strip().strip('#*').strip() for b in buf if b.strip())
            if len(txt) > 40:
                out.append(re.sub(r'\s+', ' ', txt))
            i = j
        else:
            i += 1
    return out


def main():
    table = []
    for P in sorted(os.listdir(INC)):
        d = os.path.join(INC, P)
        if not os.path.isdir(d):
            continue
        notes = open(os.path.join(d, 'notes.md')).read() if os.path.exists(os.path.join(d, 'notes.md')) else ''
        needs = needs_sections(notes)
        confirm = json.load(open(os.path.join(d, 'confirm.json'))) if os.path.exists(os.path.join(d, 'confirm.json')) else {}
        ev = json.load(open(os.path.join(d, 'eval.json'))) if os.path.exists(os.path.join(d, 'eval.json')) else {}
        for i in (1, 2):
            diff = os.path.join(d, 'mutant%d.diff' % i)
            if not os.path.exists(diff):
                continue
            c = confirm.get('mutant%d' % i, {})
            if not c.get('confirmed'):
                print('skip (not confirmed):', P, i)
                continue
            name = '%s-%sm%d' % (P, ROUND, i)
            out = os.path.join(VERIF, 'seeded', name)
            os.makedirs(out, exist_ok=True)
            shutil.copy(diff, os.path.join(out, 'patch.diff'))
            demo = os.path.join(d, 'demo%d.rs' % i)
            if os.path.exists(demo):
                shutil.copy(demo, os.path.join(out, 'demo.rs'))
            if notes:
                open(os.path.join(out, 'notes.md'), 'w').write(notes)
            files = sorted(set(re.findall(r'^\+\+\+ b/(\S+)', open(diff).read(), re.M)))
            e = ev.get('mutant%d' % i, {})
            vio = [re.sub(r'replay=\S*/evidence/', 'replay=evidence/', v) for v in e.get('violations', [])]
            meta = {
                'id': name,
                'property': P,
                'files_changed': files,
                'needs_in_order_to_manifest': needs[i - 1] if len(needs) >= i else 'see notes.md (section on mutant %d)' % i,
                'origin': 'written by a fresh sub-agent that was given only the text of property %s and a scratch git worktree of /repo (nothing from /verif)' % P,
                'confirmed_by_me': {
                    'where': 'scratch copy of /repo outside /repo and /verif (removed afterwards); tools/confirm_mutants.py',
                    'patch_applies': c.get('apply') == 0,
                    'demo_placed_at': c.get('demo_place'),
                    'demo_cmd': (c.get('demo_clean_tree') or {}).get('cmd'),
                    'demo_on_clean_tree_exit': (c.get('demo_clean_tree') or {}).get('exit'),
                    'demo_with_change_exit': (c.get('demo_with_mutant') or {}).get('exit'),
                    'existing_suite_with_change': 'cargo test --workspace --offline: exit %s, %s ok result lines, %s failed' % (
                        (c.get('suite_with_mutant') or {}).get('exit'), (c.get('suite_with_mutant') or {}).get('ok_lines'),
                        (c.get('suite_with_mutant') or {}).get('failed_lines')),
                },
                'check_against_it': {
                    'cmd': 'VERIF_REPO=<scratch copy with patch.diff applied> ./check %s --tier quick   (tools/eval_mutants.py)' % P,
                    'exit': e.get('exit'), 'verdict': e.get('verdict'), 'wall_s': e.get('wall_s'),
                    'deductive_stage': e.get('verus_state'),
                    'verus_obligations_failed': e.get('verus_failed', []), 'harnesses_failed': e.get('harness_failed', []),
                    'undecided': e.get('undecided', []), 'violation_lines': vio,
                    'infra': e.get('infra', []),
                },
            }
            json.dump(meta, open(os.path.join(out, 'meta.json'), 'w'), indent=1)
            table.append((name, files, e.get('verdict'), (e.get('verus_state') or '')[:18] + ' ' + ((e.get('verus_failed') or e.get('harness_failed') or [''])[0]), meta['needs_in_order_to_manifest'][:160]))
    import glob
    idx = []
    for mp in sorted(glob.glob(os.path.join(VERIF, 'seeded', 'C*', 'meta.json'))):
        m = json.load(open(mp))
        c = m['check_against_it']
        idx.append({'id': m['id'], 'property': m['property'], 'files': m['files_changed'], 'verdict': c.get('verdict'),
                    'deductive_stage': c.get('deductive_stage'), 'verus_obligations_failed': (c.get('verus_obligations_failed') or [])[:3],
                    'harnesses_failed': (c.get('harnesses_failed') or [])[:3]})
    json.dump(idx, open(os.path.join(VERIF, 'seeded', 'INDEX.json'), 'w'), indent=1)
    for t in table:
        print('%-8s %-22s %-44s | %s' % (t[0], t[2], t[3][:44], t[4][:110]))


main()
