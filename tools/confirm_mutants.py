#!/usr/bin/env python3
"""Independent confirmation of seeded mutants (run in a scratch worktree of /repo, never in /repo):
for each seeded/_incoming/<P>/mutant<i>.diff: (1) demo passes on the clean tree, (2) demo fails with the
mutant, (3) the whole existing suite passes with the mutant (demo removed).  Writes confirm.json."""
import json, os, re, subprocess, sys
VERIF = os.path.dirname(os.path.dirname(os.path.abspath(__file__)))
WT = '/tmp/wt_confirm'
ENV = dict(os.environ, CARGO_NET_OFFLINE='true', CARGO_TARGET_DIR=WT + '/target')

def sh(cmd, cwd=WT, timeout=1800):
    p = subprocess.run(cmd, shell=True, cwd=cwd, env=ENV, stdout=subprocess.PIPE, stderr=subprocess.STDOUT, text=True, timeout=timeout)
    return p.returncode, p.stdout

def clean():
    sh('git checkout -q -- . && git clean -fdq -e target')

def main():
    only = sys.argv[1:]
    if not os.path.isdir(WT):
        subprocess.check_call(['git', '-C', '/repo', 'worktree', 'add', '-q', '--detach', WT, 'HEAD'])
    inc = os.path.join(VERIF, 'seeded', os.environ.get('SEEDED_INC', '_incoming'))
    for P in sorted(os.listdir(inc)):
        if only and P not in only:
            continue
        d = os.path.join(inc, P)
        res = {}
        for i in (1, 2):
            diff = os.path.join(d, 'mutant%d.diff' % i)
            demo = os.path.join(d, 'demo%d.rs' % i)
            if not os.path.exists(diff):
                continue
            head = open(demo).read(1500)
            m = re.search(r'place(?:d)? at:?\s*`?([\w\-/\.]+\.rs)', head)
            place = m.group(1)
            crate = place.split('/')[0]
            test = os.path.basename(place)[:-3]
            feats = ' --features zeroize' if 'features zeroize' in head or '--features zeroize' in open(os.path.join(d, 'notes.md')).read() and P == 'C17' and i == 2 else ''
            r = {'patch': 'mutant%d.diff' % i, 'demo_place': place}
            clean()
            os.makedirs(os.path.dirname(os.path.join(WT, place)), exist_ok=True)
            open(os.path.join(WT, place), 'w').write(open(demo).read())
            cmd = 'cargo test -p %s --test %s --offline%s' % (crate, test, feats)
            rc, out = sh(cmd)
            r['demo_clean_tree'] = {'cmd': cmd, 'exit': rc, 'tail': out[-400:]}
            rc_a, out_a = sh('git apply %s' % diff)
            r['apply'] = rc_a
            rc, out = sh(cmd)
            r['demo_with_mutant'] = {'exit': rc, 'tail': out[-600:]}
            os.remove(os.path.join(WT, place))
            rc, out = sh('cargo test --workspace --no-fail-fast --offline')
            oks = len(re.findall(r'^test result: ok', out, re.M))
            fails = len(re.findall(r'^test result: FAILED', out, re.M))
            r['suite_with_mutant'] = {'exit': rc, 'ok_lines': oks, 'failed_lines': fails}
            r['confirmed'] = (r['demo_clean_tree']['exit'] == 0 and r['demo_with_mutant']['exit'] != 0 and rc_a == 0
                              and rc == 0 and fails == 0)
            res['mutant%d' % i] = r
            print(P, i, 'confirmed' if r['confirmed'] else 'NOT CONFIRMED', flush=True)
            json.dump(res, open(os.path.join(d, 'confirm.json'), 'w'), indent=1)
        clean()

main()
