#!/usr/bin/env python3
"""DESIGN.md = docs/part1_asbuilt.md (as built; the table of seeded changes is generated from seeded/*/meta.json)
+ docs/part2_design.md (the design as written before the build, unchanged)."""
import glob, json, os
V = os.path.dirname(os.path.dirname(os.path.abspath(__file__)))


def short(ob):
    ob = ob.replace('harness::', '')
    if '::' in ob:
        ob = ob.split('::', 1)[1]
    return ob


def seeded_table(pattern='C??-m?'):
    rows = ['| change | files | what it needs | deductive stage (Verus) | harness with concrete input | verdict |',
            '|---|---|---|---|---|---|']
    n = {'all': 0, 'det': 0, 'inp': 0, 'verus': 0, 'unread': 0, 'silent': 0}
    for p in sorted(glob.glob(os.path.join(V, 'seeded', pattern, 'meta.json'))):
        m = json.load(open(p))
        c = m['check_against_it']
        vf = c.get('verus_obligations_failed') or []
        hf = c.get('harnesses_failed') or []
        st = c.get('deductive_stage') or ''
        if vf:
            vs = 'FAILS ' + ', '.join('`%s`' % short(v) for v in vf[:2]) + (' (+%d)' % (len(vf) - 2) if len(vf) > 2 else '')
            n['verus'] += 1
        elif st.startswith('could not read'):
            vs = 'front end rejects the changed function with its annotations → undecided'
            n['unread'] += 1
        elif st.startswith('proof-internal'):
            und = c.get('undecided') or []
            if any(u.endswith('#front-end') for u in und):
                vs = 'front end rejects the changed function with its annotations → that function undecided, rest of the unit verified'
            elif any('#outside-contracts' in u for u in und):
                vs = 'change is outside the contracts (new item / derive list) → undecided'
            else:
                vs = 'proof-internal failure → undecided'
            n['unread'] += 1
        else:
            vs = 'still verifies' if st else '?'
            n['silent'] += 1 if st else 0
        hs = ', '.join('`%s`' % short(h) for h in hf[:2]) + (' (+%d)' % (len(hf) - 2) if len(hf) > 2 else '') if hf else '—'
        need = m['needs_in_order_to_manifest']
        for pre in ('What it needs in order to manifest', 'What it needs to manifest', 'Needed to manifest', 'Needs'):
            if need.startswith(pre):
                need = need[len(pre):].lstrip(' :.*(').replace('all of):', '').replace('all three together):', '')
        need = need[:150].rsplit(' ', 1)[0] + '…'
        n['all'] += 1
        n['det'] += 1 if c.get('exit') == 1 else 0
        n['inp'] += 1 if c.get('verdict') == 'detected-with-input' else 0
        rows.append('| %s | %s | %s | %s | %s | %s |' % (m['id'], ', '.join('`%s`' % f for f in m['files_changed']), need.replace('|', '/'),
                                                    vs, hs, c.get('verdict')))
    summ = ('%d seeded changes, %d reported as VIOLATION by the check of their property (%d with a concrete failing input replayed '
            'on the changed code); the deductive stage alone fails a named obligation for %d, is undecided for %d (front end rejects the rewritten function or its now ill-fitting proof annotations, or only a proof-internal step fails: '
            'exit 2 on its own; the harness supplies the verdict), and still verifies for %d.' % (
                n['all'], n['det'], n['inp'], n['verus'], n['unread'], n['silent']))
    return summ + '\n\n' + '\n'.join(rows)


def main():
    p1 = open(os.path.join(V, 'docs', 'part1_asbuilt.md')).read()
    p2 = open(os.path.join(V, 'docs', 'part2_design.md')).read()
    p1 = p1.replace('<!--SEEDED-TABLE-->', seeded_table())
    p1 = p1.replace('<!--SEEDED-TABLE-2-->', seeded_table('C??-r2m?'))
    p1 = p1.replace('<!--SEEDED-TABLE-3-->', seeded_table('C??-r3m?'))
    p1 = p1.replace('<!--SEEDED-TABLE-4-->', seeded_table('C??-r4m?'))
    out = p1.rstrip('\n') + '\n\n# Part II — the design as written before the build\n\n' + p2
    open(os.path.join(V, 'DESIGN.md'), 'w').write(out)
    print('DESIGN.md', len(out.split('\n')), 'lines')


main()
